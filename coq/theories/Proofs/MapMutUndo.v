(** [MapPollard.Undo] (mirror [mm_undo] of Model/MapMut.v: [undoAdd] -> [getWrittenOverEmptyRoots] /
    [undoSingleAdd] / [placeEmptyRoot], then [undoDeletion], then the previous roots are written
    back) restores the tie between the map forest and the reference forest of the state BEFORE
    the block (property C06, map forest).

    The statement is a PRESERVATION theorem about [mm_undo] alone: if the map state [m1] is tied
    (invariant [UInv], below) to the reference forest AFTER a block, [apply_block s dels adds],
    then [mm_undo m1 |adds| targets proof dels (roots s)] succeeds and the result is tied to the
    reference forest [s] BEFORE the block; it remembers what [m1] remembered, minus the added
    leaves (plus the deleted ones).  Because the hypothesis is the invariant and not "[m1] is the
    output of [Modify]", the theorem composes: the depth-[k] statement is an induction on the
    blocks, and the state before the [Undo] may have been pruned, ingested into, ... in between.
    With the forward theorems of Proofs/MapMutAdd.v ([modify_adds_gen]) it gives the statement
    "Modify, then Undo, is observationally the identity" ([modify_undo_adds]).

    PROVED HERE (closed under the global context; every [H], [HO] with [ops_ok HO], [hash2] never
    the empty hash; full and partial forests; every allocated height [ms_total <= 63]; [remap] is
    not undone: [ms_total] keeps the value it has after the block):
    - G1 [undo_adds], [undo_adds_consistent]: blocks that only ADD leaves, any number of
      additions, forests with dead slots and EMPTY ROOTS (which the additions wrote over and
      [placeEmptyRoot] puts back; [getWrittenOverEmptyRoots] is shown to compute exactly the
      list the loop consumes: [gwo_adds]);
    - G4 for blocks of additions [undo_adds_depth]: undoing the last [k] blocks, newest first,
      restores the invariant of the forest [k] blocks ago;
    - [modify_undo_adds]: [mm_modify] of a block of additions followed by [mm_undo]:
      [consistent HO s R m2], same roots, same leaf count, for the [s], [R] before the block;
    - the general machinery for the rest of [Undo]: [placeEmptyRoot_spec] /
      [placeEmptyRoot_coords] (what [placeEmptyRoot] does to the two maps, for a deleted position
      that is a left OR a right child), [pulldown_WInvX] (a subtree that had moved up one row is
      pulled down again: the weak invariant [WInvX] with a set of exempt coordinates is
      preserved; this is the step of [undoDeletion] as well as of [undoSingleAdd]).
    TOWARDS BLOCKS WITH DELETIONS ([undoDeletion], G2/G3; Parts 15-18, all proved):
    - [kill_inner_conv], [kill_root_conv]: the CONVERSE of [MapMutRemove.kill_inner] /
      [kill_root]: every node of the layout after the deletion of a subtree is the image of a node
      before (unchanged, lifted one row, or a re-hashed ancestor);
    - [pullB], [stepD_WInvX]: ONE step of the loop "move down the nodes" of [undoDeletion] for a
      detwinned target that is no root ([placeEmptyRoot], then the node on the parent position
      goes back to the position of the sibling): from the weak invariant for [kill L s] to the
      weak invariant for [s], the ancestors of the target, its parent and the deleted subtree
      being exempt (they are recomputed at the end of [undoDeletion]);
    - [stepR_WInvX]: the step for a target that is a root (a whole tree was deleted);
    - [ud_movedown_app], [step_nonroot_eq], [step_root_eq], [nonroot_geo], [root_geo]: the
      mirror's loop body is these steps ([inForest] of the sibling, [Parent],
      [calcPrevPosition] on coordinates).
    NOT PROVED HERE: (i) the induction over the detwinned targets (the steps compose as in
    [MapMutRemove.remove_fold], newest target first; the exempt sets must be restricted to node
    coordinates, see the remark before Part 18), (ii) the end of [undoDeletion] ([ud_fill],
    [calculateHashes] on the canonical proof as in [MapMutPrune.ing_calc], [put_calculated]),
    (iii) [getWrittenOverEmptyRoots] for a block with deletions ([getRootsAfterDel]).  The
    statement for general blocks (R2 = (R1 minus the additions) plus the deleted leaves, which
    [undoDeletion] caches again) was tested exhaustively on all forests of up to 5 slots (every
    pattern of dead slots, every remembered set, every deletion set, 0-3 additions with every
    remember pattern, full and partial, [ms_total = TreeRows] and larger, also after pruning /
    ingesting between the block and the undo, also on untidy partial forests that store every
    node) and up to 7 slots for full forests: no counterexample.

    Invariant.  [UInv s R m]: the numeric clauses of [consistent], [NoDup (live s)], no live leaf
    is the empty hash or a [hash2] image, and [MapMutAdd.GInv] for the view of the layout of [s].
    [UInv_consistent]: it implies [consistent]; [AddInv_UInv]: [MapMutAdd.Inv] implies it.

    - Part 1-3: a sequence of "pull" moves; [placeEmptyRoot]; regions below the parent of a
      position in (row, offset) coordinates.
    - Part 4-6: the weak invariant [WInvX]; the abstract step [pulldown_WInvX]; dropping a node
      from the view.
    - Part 7-8: one [undoSingleAdd] over the views [Fh h] of Proofs/MapMutAdd.v, downwards;
      the loop of [undoAdd].
    - Part 9-10: the tail of [Undo] ([undoDeletion] of nothing, [put_roots]); [UInv].
    - Part 11: [getWrittenOverEmptyRoots] = the destroyed roots of Proofs/StumpAddData.v,
      reversed.  Part 12-13: the theorems; an example with two empty roots and a remap.
    - Part 15-18: the steps of [undoDeletion] (see above). *)
From Utreexo Require Import Base.Hash Model.Utils Model.UtilsFast Model.Verify Model.MapRead
  Model.MapMut Spec.Forest Proofs.UtilsGeom Proofs.UtilsGeom2 Proofs.SpecBasics Proofs.StumpAdd
  Proofs.LayoutStruct Proofs.ProofPosSpec Proofs.MapReadSpec Proofs.MapMutAdd.
From Utreexo Require Proofs.RefTheory Proofs.StumpAddData Proofs.MapMutRemove.
From Coq Require Import List Arith PeanoNat NArith Lia ZifyNat ZifyN ZifyBool Bool.
Import ListNotations.
Open Scope N_scope.

Local Notation gpos := UtilsGeom.gpos.

(** * Part 1: a sequence of "pull" moves [Nodes[d] := adjust(Nodes[s]); delete s] *)
Section PMoves.
  Variable H : Type.
  Variable HO : ops H.
  Hypothesis HOK : ops_ok HO.
  Variable full : bool.
  Notation nodemap := (list (N * (H * bool))).
  Notation cachemap := (list (H * N)).
  Notation empty := (op_empty HO).

  Definition adjv (ca : cachemap) (v : H * bool) : H * bool :=
    (fst v, if cached_has HO ca (fst v) || full then true else snd v).

  Definition pmv (st : maps H) (sd : N * N) : maps H :=
    match nodes_get (fst st) (fst sd) with
    | Some v =>
        if negb (op_eqb HO (fst v) empty) then
          (nodes_put (snd sd) (adjv (snd st) v) (nodes_del (fst sd) (fst st)),
           if cached_has HO (snd st) (fst v) then cached_put HO (fst v) (snd sd) (snd st) else snd st)
        else st
    | None => st
    end.

  Lemma pmv_keys st sd k : In k (map fst (snd (pmv st sd))) <-> In k (map fst (snd st)).
  Proof.
    unfold pmv. destruct (nodes_get (fst st) (fst sd)) as [v|]; [|reflexivity].
    destruct (negb (op_eqb HO (fst v) empty)); [|reflexivity]. cbn [snd].
    destruct (cached_has HO (snd st) (fst v)) eqn:E; [|reflexivity].
    apply (cached_has_true H HO HOK) in E. rewrite (keys_cached_put H HO HOK).
    split; [intros [->|A]; assumption|auto].
  Qed.

  Lemma pmv_has st sd h : cached_has HO (snd (pmv st sd)) h = cached_has HO (snd st) h.
  Proof.
    destruct (cached_has HO (snd st) h) eqn:E.
    - apply (cached_has_true H HO HOK). apply pmv_keys. apply (cached_has_true H HO HOK), E.
    - destruct (cached_has HO (snd (pmv st sd)) h) eqn:E'; [|reflexivity].
      apply (cached_has_true H HO HOK) in E'. apply pmv_keys in E'.
      apply (cached_has_true H HO HOK) in E'. congruence.
  Qed.

  Theorem pmvs_spec L : forall (nd : nodemap) (ca : cachemap),
    (forall s d s' d', In (s, d) L -> In (s', d') L -> d <> s') ->
    NoDup (map fst L) -> NoDup (map snd L) ->
    (forall s d v, In (s, d) L -> nodes_get nd s = Some v -> op_eqb HO (fst v) empty = false) ->
    forall nd' ca', fold_left pmv L (nd, ca) = (nd', ca') ->
    (forall s d, In (s, d) L -> nodes_get nd' s = None) /\
    (forall s d, In (s, d) L ->
       nodes_get nd' d = match nodes_get nd s with Some v => Some (adjv ca v) | None => nodes_get nd d end) /\
    (forall p, ~ In p (map fst L) -> ~ In p (map snd L) -> nodes_get nd' p = nodes_get nd p) /\
    (NoDup (map fst nd) -> NoDup (map fst nd')) /\
    (forall k, In k (map fst ca') <-> In k (map fst ca)) /\
    (forall k p, In (k, p) ca' ->
       (exists s d b, In (s, d) L /\ nodes_get nd s = Some (k, b) /\ p = d /\ In k (map fst ca)) \/
       (In (k, p) ca /\ forall s d b, In (s, d) L -> nodes_get nd s <> Some (k, b))).
  Proof.
    induction L as [|[s d] L IH]; intros nd ca Ha Hs Hd Hne nd' ca' E.
    - cbn in E. injection E as <- <-.
      split; [intros ? ? []|]. split; [intros ? ? []|]. split; [reflexivity|]. split; [auto|].
      split; [reflexivity|]. intros k p Hin. right. split; [exact Hin|intros ? ? ? []].
    - cbn [fold_left] in E. cbn [map fst snd] in Hs, Hd.
      inversion Hs as [|x1 x2 Hs1 Hs2]; subst x1 x2. inversion Hd as [|x1 x2 Hd1 Hd2]; subst x1 x2.
      assert (Ha' : forall s0 d0 s' d', In (s0, d0) L -> In (s', d') L -> d0 <> s').
      { intros s0 d0 s' d' A B. apply (Ha s0 d0 s' d'); right; assumption. }
      assert (Hds : d <> s) by (apply (Ha s d s d); left; reflexivity).
      assert (HsL : forall s' d', In (s', d') L -> s' <> s /\ s' <> d /\ d' <> s /\ d' <> d).
      { intros s' d' Hin. repeat split.
        - intros ->. apply Hs1. apply in_map_iff. exists (s, d'). auto.
        - intros ->. apply (Ha s d d d'); [left; reflexivity|right; exact Hin|reflexivity].
        - intros ->. apply (Ha s' s s d); [right; exact Hin|left; reflexivity|reflexivity].
        - intros ->. apply Hd1. apply in_map_iff. exists (s', d). auto. }
      unfold pmv in E at 2. cbn [fst snd] in E.
      destruct (nodes_get nd s) as [v|] eqn:Es.
      + rewrite (Hne s d v (or_introl eq_refl) Es) in E. cbn [negb] in E.
        set (nd1 := nodes_put d (adjv ca v) (nodes_del s nd)) in *.
        set (ca1 := if cached_has HO ca (fst v) then cached_put HO (fst v) d ca else ca) in *.
        assert (Eg : forall p, nodes_get nd1 p = if p =? d then Some (adjv ca v) else if p =? s then None else nodes_get nd p).
        { intros p. unfold nd1. rewrite nodes_get_put, nodes_get_del. reflexivity. }
        assert (Erest : forall s' d', In (s', d') L -> nodes_get nd1 s' = nodes_get nd s').
        { intros s' d' Hin. destruct (HsL s' d' Hin) as (A & B & _). rewrite Eg.
          destruct (N.eqb_spec s' d); [contradiction|]. destruct (N.eqb_spec s' s); [contradiction|reflexivity]. }
        assert (Hk1 : forall k, In k (map fst ca1) <-> In k (map fst ca)).
        { intros k. unfold ca1. destruct (cached_has HO ca (fst v)) eqn:Eh; [|reflexivity].
          apply (cached_has_true H HO HOK) in Eh. rewrite (keys_cached_put H HO HOK).
          split; [intros [->|A]; assumption|auto]. }
        assert (Hh1 : forall h, cached_has HO ca1 h = cached_has HO ca h).
        { intros h. destruct (cached_has HO ca h) eqn:Eh.
          - apply (cached_has_true H HO HOK), Hk1, (cached_has_true H HO HOK), Eh.
          - destruct (cached_has HO ca1 h) eqn:Eh'; [|reflexivity].
            apply (cached_has_true H HO HOK), Hk1, (cached_has_true H HO HOK) in Eh'. congruence. }
        assert (Hadj : forall w, adjv ca1 w = adjv ca w) by (intros w; unfold adjv; rewrite Hh1; reflexivity).
        destruct (IH nd1 ca1 Ha' Hs2 Hd2) with (nd' := nd') (ca' := ca') as (I1 & I2 & I3 & I4 & I5 & I6).
        { intros s' d' v' Hin Ev. rewrite (Erest s' d' Hin) in Ev. exact (Hne s' d' v' (or_intror Hin) Ev). }
        { exact E. }
        split; [|split; [|split; [|split; [|split]]]].
        * intros s' d' [E'|Hin]; [|exact (I1 s' d' Hin)]. injection E' as <- <-.
          rewrite I3.
          -- rewrite Eg. destruct (N.eqb_spec s d); [congruence|]. rewrite N.eqb_refl. reflexivity.
          -- exact Hs1.
          -- intros Hin. apply in_map_iff in Hin as ([s' d'] & E' & Hin). cbn [snd] in E'. subst d'.
             destruct (HsL s' s Hin) as (_ & _ & A & _). congruence.
        * intros s' d' [E'|Hin].
          -- injection E' as <- <-. rewrite Es. rewrite I3.
             ++ rewrite Eg, N.eqb_refl. reflexivity.
             ++ intros Hin. apply in_map_iff in Hin as ([s' d'] & E' & Hin). cbn [fst] in E'. subst s'.
                destruct (HsL d d' Hin) as (_ & A & _). congruence.
             ++ exact Hd1.
          -- rewrite (I2 s' d' Hin), (Erest s' d' Hin). destruct (nodes_get nd s') as [w|]; [rewrite Hadj; reflexivity|].
             destruct (HsL s' d' Hin) as (_ & _ & A & B). rewrite Eg.
             destruct (N.eqb_spec d' d); [contradiction|]. destruct (N.eqb_spec d' s); [contradiction|reflexivity].
        * intros p Hp1 Hp2. cbn [map fst snd In] in Hp1, Hp2. rewrite I3 by tauto. rewrite Eg.
          destruct (N.eqb_spec p d) as [->|_]; [tauto|]. destruct (N.eqb_spec p s) as [->|_]; [tauto|reflexivity].
        * intros Hnd. apply I4. unfold nd1. apply NoDup_nodes_put, NoDup_nodes_del, Hnd.
        * intros k. rewrite I5. apply Hk1.
        * intros k p Hin. destruct (I6 k p Hin) as [(s' & d' & b & Hin' & Ev & -> & Hk)|[Hin' Hno]].
          -- left. exists s', d', b. split; [right; exact Hin'|]. rewrite <- (Erest s' d' Hin').
             split; [exact Ev|]. split; [reflexivity|]. apply Hk1, Hk.
          -- unfold ca1 in Hin'. destruct (cached_has HO ca (fst v)) eqn:Eh.
             ++ apply (In_cached_put H HO HOK) in Hin' as [[-> ->]|[Hne' Hin']].
                ** left. exists s, d, (snd v). split; [left; reflexivity|]. split; [rewrite Es; destruct v; reflexivity|].
                   split; [reflexivity|]. apply (cached_has_true H HO HOK), Eh.
                ** right. split; [exact Hin'|]. intros s' d' b [E'|Hin''].
                   --- injection E' as <- <-. rewrite Es. intros E'. injection E' as E'. subst v. cbn [fst] in Hne'. congruence.
                   --- rewrite <- (Erest s' d' Hin''). exact (Hno s' d' b Hin'').
             ++ right. split; [exact Hin'|]. intros s' d' b [E'|Hin''].
                --- injection E' as <- <-. rewrite Es. intros E'. injection E' as E'. subst v. cbn [fst] in Eh.
                    assert (Hk : In k (map fst ca)) by (apply in_map_iff; exists (k, p); auto).
                    apply (cached_has_true H HO HOK) in Hk. congruence.
                --- rewrite <- (Erest s' d' Hin''). exact (Hno s' d' b Hin'').
      + destruct (IH nd ca Ha' Hs2 Hd2) with (nd' := nd') (ca' := ca') as (I1 & I2 & I3 & I4 & I5 & I6).
        { intros s' d' v' Hin Ev. exact (Hne s' d' v' (or_intror Hin) Ev). }
        { exact E. }
        split; [|split; [|split; [|split; [|split]]]].
        * intros s' d' [E'|Hin]; [|exact (I1 s' d' Hin)]. injection E' as <- <-.
          rewrite I3; [exact Es|exact Hs1|].
          intros Hin. apply in_map_iff in Hin as ([s' d'] & E' & Hin). cbn [snd] in E'. subst d'.
          destruct (HsL s' s Hin) as (_ & _ & A & _). congruence.
        * intros s' d' [E'|Hin]; [|exact (I2 s' d' Hin)]. injection E' as <- <-. rewrite Es.
          apply I3; [|exact Hd1].
          intros Hin. apply in_map_iff in Hin as ([s' d'] & E' & Hin). cbn [fst] in E'. subst s'.
          destruct (HsL d d' Hin) as (_ & A & _). congruence.
        * intros p Hp1 Hp2. cbn [map fst snd In] in Hp1, Hp2. apply I3; tauto.
        * exact I4.
        * exact I5.
        * intros k p Hin. destruct (I6 k p Hin) as [(s' & d' & b & Hin' & Ev & -> & Hk)|[Hin' Hno]].
          -- left. exists s', d', b. split; [right; exact Hin'|auto].
          -- right. split; [exact Hin'|]. intros s' d' b [E'|Hin'']; [|exact (Hno s' d' b Hin'')].
             injection E' as <- <-. rewrite Es. discriminate.
  Qed.
End PMoves.
(** * Part 2: [placeEmptyRoot] *)
Lemma offsets_add : forall m start, start + N.of_nat m <= W ->
  offsets m start = map (fun i => start + N.of_nat i) (seq 0 m).
Proof.
  induction m as [|m IH]; intros start Hs; [reflexivity|].
  cbn [offsets seq map]. rewrite N.add_0_r. f_equal.
  destruct m as [|m']; [reflexivity|].
  assert (E : add64 start 1 = start + 1) by (unfold add64; apply wrap_small; lia).
  rewrite E, IH by lia. rewrite <- seq_shift, map_map. apply map_ext. intros i. lia.
Qed.

Section PER.
  Variable H : Type.
  Variable HO : ops H.
  Hypothesis HOK : ops_ok HO.
  Variable full : bool.
  Variables T rd od : N.
  Hypothesis HT : T <= 63.
  Hypothesis Hrd : rd < T.
  Hypothesis Hod : od < 2 ^ (T - rd).
  Notation nodemap := (list (N * (H * bool))).
  Notation cachemap := (list (H * N)).
  Notation empty := (op_empty HO).
  Notation del := (gpos T rd od).
  Notation sibp := (gpos T rd (N.lxor od 1)).
  Notation pU := (MapMutRemove.posU T rd od).
  Notation pS := (MapMutRemove.posS T rd od).
  Notation pD := (MapMutRemove.posD T rd od).

  Lemma per_move_eq (st : maps H) pos cur : calcNextPosition pos del T = Some cur ->
    per_move HO T full del pos st = (pmv H HO full st (cur, pos), true).
  Proof.
    intros E. unfold per_move, pmv, adjv. rewrite E. cbn [fst snd].
    destruct (nodes_get (fst st) cur) as [v|]; [|reflexivity].
    destruct (negb (op_eqb HO (fst v) empty)); reflexivity.
  Qed.

  Lemma per_row_eq (nx : N -> N) : forall ps (st : maps H),
    (forall p, In p ps -> calcNextPosition p del T = Some (nx p)) ->
    per_row HO T full del ps st = (fold_left (pmv H HO full) (map (fun p => (nx p, p)) ps) st, true).
  Proof.
    induction ps as [|p ps IH]; intros st Hn; [reflexivity|]. cbn [per_row map fold_left].
    rewrite (per_move_eq st p (nx p) (Hn p (or_introl eq_refl))).
    apply IH. intros p' Hp'. apply Hn. right. exact Hp'.
  Qed.

  Definition rowS (k : N) : list N := map (fun i => pS k (N.of_nat i)) (seq 0 (N.to_nat (2 ^ k))).
  Definition rowL (k : N) : list (N * N) := map (fun i => (pU k (N.of_nat i), pS k (N.of_nat i))) (seq 0 (N.to_nat (2 ^ k))).

  Lemma In_rowL k s d : In (s, d) (rowL k) <-> exists b, b < 2 ^ k /\ s = pU k b /\ d = pS k b.
  Proof.
    unfold rowL. rewrite in_map_iff. split.
    - intros (i & E & Hi). apply in_seq in Hi. injection E as <- <-. exists (N.of_nat i). split; [lia|auto].
    - intros (b & Hb & -> & ->). exists (N.to_nat b). rewrite N2Nat.id. split; [reflexivity|]. apply in_seq. lia.
  Qed.

  Lemma offsets_rowS k : k <= rd -> offsets (N.to_nat (2 ^ k)) (pS k 0) = rowS k.
  Proof.
    intros Hk. unfold rowS.
    assert (Hp : 0 < 2 ^ k) by apply UtilsGeom.pow2_pos.
    destruct (MapMutRemove.posS_valid T rd od HT Hrd Hod k (2 ^ k - 1) Hk ltac:(lia)) as [A B].
    pose proof (gpos_lt_W T (rd - k) _ HT A B) as HW.
    rewrite offsets_add.
    - apply map_ext. intros i. unfold MapMutRemove.posS, UtilsGeom.gpos. lia.
    - unfold MapMutRemove.posS, UtilsGeom.gpos in *. lia.
  Qed.

  Lemma rowL_rowS k : map (fun p => (MapMutRemove.nxp T rd od p, p)) (rowS k) = rowL k \/ ~ k <= rd.
  Proof.
    destruct (N.le_gt_cases k rd) as [Hk|Hk]; [left|right; lia].
    unfold rowS, rowL. rewrite map_map. apply map_ext_in. intros i Hi. apply in_seq in Hi.
    unfold MapMutRemove.nxp. rewrite (MapMutRemove.next_posS T rd od HT Hrd Hod k (N.of_nat i) Hk ltac:(lia)).
    reflexivity.
  Qed.

  (** the state before the moves *)
  Variable nd0 : nodemap.
  Variable ca0 : cachemap.
  (** the stored hashes strictly below the parent are not the empty hash *)
  Hypothesis Hne : forall j b v, 1 <= j -> j <= rd -> b < 2 ^ j -> nodes_get nd0 (pU j b) = Some v ->
    op_eqb HO (fst v) empty = false.
  (** nothing is stored [rd + 1] rows below the parent *)
  Hypothesis Hbot : forall c, c < 2 ^ (rd + 1) -> nodes_get nd0 (pU (rd + 1) c) = None.

  Definition adj0 (o : option (H * bool)) : option (H * bool) :=
    match o with Some v => Some (adjv H HO full ca0 v) | None => None end.

  Set Implicit Arguments.
  Record per_inv (k : N) (cur : maps H) : Prop := mkPerInv {
    pi_nd : NoDup (map fst nd0) -> NoDup (map fst (fst cur));
    pi_A : forall j b, k < j -> j <= rd -> b < 2 ^ j -> nodes_get (fst cur) (pS j b) = adj0 (nodes_get nd0 (pU j b));
    pi_B : forall b, b < 2 ^ k -> nodes_get (fst cur) (pS k b) = None;
    pi_Dn : forall j b, k <= j -> j <= rd -> b < 2 ^ j -> nodes_get (fst cur) (pD j b) = None;
    pi_C : forall j b, 1 <= j -> j <= k -> b < 2 ^ j -> nodes_get (fst cur) (pU j b) = nodes_get nd0 (pU j b);
    pi_O : forall p, (forall j b, 1 <= j -> j <= rd + 1 -> b < 2 ^ j -> p <> pU j b) ->
             nodes_get (fst cur) p = nodes_get nd0 p;
    pi_keys : forall h, In h (map fst (snd cur)) <-> In h (map fst ca0);
    pi_K : forall h p, In (h, p) (snd cur) ->
      (exists j b fl, k < j /\ j <= rd /\ b < 2 ^ j /\ nodes_get nd0 (pU j b) = Some (h, fl) /\ p = pS j b /\
                      In h (map fst ca0)) \/
      (In (h, p) ca0 /\ forall j b fl, k < j -> j <= rd -> b < 2 ^ j -> nodes_get nd0 (pU j b) <> Some (h, fl)) }.
  Unset Implicit Arguments.

  Lemma adjv_ext (ca ca' : cachemap) v : (forall h, In h (map fst ca) <-> In h (map fst ca')) ->
    adjv H HO full ca v = adjv H HO full ca' v.
  Proof.
    intros E. unfold adjv. f_equal.
    assert (Eh : cached_has HO ca (fst v) = cached_has HO ca' (fst v)).
    { destruct (cached_has HO ca' (fst v)) eqn:E'.
      - apply (cached_has_true H HO HOK), E, (cached_has_true H HO HOK), E'.
      - destruct (cached_has HO ca (fst v)) eqn:E''; [|reflexivity].
        apply (cached_has_true H HO HOK), E, (cached_has_true H HO HOK) in E''. congruence. }
    rewrite Eh. reflexivity.
  Qed.

  Lemma pU_ne j b j' b' : j <= rd + 1 -> b < 2 ^ j -> j' <= rd + 1 -> b' < 2 ^ j' -> (j <> j' \/ b <> b') ->
    pU j b <> pU j' b'.
  Proof.
    intros A1 A2 A3 A4 Hne' E.
    destruct (MapMutRemove.posU_inj T rd od HT Hrd Hod j b j' b' A1 A2 A3 A4 E). destruct Hne'; contradiction.
  Qed.

  Lemma pS_as_U j b : j <= rd -> b < 2 ^ j -> exists c, c < 2 ^ (j + 1) /\ pS j b = pU (j + 1) c.
  Proof. exact (MapMutRemove.posS_U T rd od HT Hrd Hod j b). Qed.
  Lemma pD_as_U j b : j <= rd -> b < 2 ^ j -> exists c, c < 2 ^ (j + 1) /\ pD j b = pU (j + 1) c.
  Proof. exact (MapMutRemove.posD_U T rd od HT Hrd Hod j b). Qed.

  Lemma pD_ne_pS j b j' b' : j <= rd -> b < 2 ^ j -> j' <= rd -> b' < 2 ^ j' -> pD j b <> pS j' b'.
  Proof.
    intros A1 A2 A3 A4 E.
    destruct (MapMutRemove.posD_valid T rd od HT Hrd Hod j b A1 A2) as [B1 B2].
    destruct (MapMutRemove.posS_valid T rd od HT Hrd Hod j' b' A3 A4) as [B3 B4].
    destruct (gpos_inj _ _ _ _ _ B1 B2 B3 B4 E) as [E1 E2]. assert (j = j') by lia. subst j'.
    pose proof (UtilsGeom.pow2_pos j) as Hp. rewrite lxor_1 in E2.
    destruct (N.even od) eqn:Ev; [nia|]. pose proof (odd_nz od Ev). nia.
  Qed.

  Lemma per_step k (cur : maps H) : 1 <= k -> k <= rd -> per_inv k cur ->
    per_inv (k - 1) (fold_left (pmv H HO full) (rowL k) cur).
  Proof.
    intros Hk1 Hk I. destruct (fold_left (pmv H HO full) (rowL k) cur) as [nd' ca'] eqn:E.
    destruct cur as [nd ca]. cbn [fst snd] in *.
    assert (Hsrc : forall b, b < 2 ^ k -> nodes_get nd (pU k b) = nodes_get nd0 (pU k b)).
    { intros b Hb. apply (pi_C I); [exact Hk1|lia|exact Hb]. }
    destruct (pmvs_spec H HO HOK full (rowL k) nd ca) with (nd' := nd') (ca' := ca') as (M1 & M2 & M3 & M4 & M5 & M6).
    { intros s d s' d' A B. apply In_rowL in A as (b & Hb & -> & ->). apply In_rowL in B as (b' & Hb' & -> & _).
      destruct (pS_as_U k b Hk Hb) as (c & Hc & ->). apply pU_ne; try lia. }
    { unfold rowL. rewrite map_map. cbn [fst]. apply NoDup_map_on; [apply seq_NoDup|].
      intros x y Hx Hy Exy. apply in_seq in Hx, Hy.
      destruct (MapMutRemove.posU_inj T rd od HT Hrd Hod k (N.of_nat x) k (N.of_nat y) ltac:(lia) ltac:(lia) ltac:(lia) ltac:(lia) Exy). lia. }
    { unfold rowL. rewrite map_map. cbn [snd]. apply NoDup_map_on; [apply seq_NoDup|].
      intros x y Hx Hy Exy. apply in_seq in Hx, Hy.
      pose proof (MapMutRemove.posS_inj T rd od HT Hrd Hod k (N.of_nat x) (N.of_nat y) Hk ltac:(lia) ltac:(lia) Exy). lia. }
    { intros s d v A Ev. apply In_rowL in A as (b & Hb & -> & ->). rewrite (Hsrc b Hb) in Ev.
      exact (Hne k b v Hk1 Hk Hb Ev). }
    { exact E. }
    assert (Hsrc_in : forall b, b < 2 ^ k -> In (pU k b, pS k b) (rowL k)).
    { intros b Hb. apply In_rowL. exists b. auto. }
    assert (Hnot_src : forall p, (forall b, b < 2 ^ k -> p <> pU k b) -> ~ In p (map fst (rowL k))).
    { intros p Hp Hin. apply in_map_iff in Hin as ([s d] & Es & Hin). cbn [fst] in Es. subst s.
      apply In_rowL in Hin as (b & Hb & -> & _). exact (Hp b Hb eq_refl). }
    assert (Hnot_dst : forall p, (forall b, b < 2 ^ k -> p <> pS k b) -> ~ In p (map snd (rowL k))).
    { intros p Hp Hin. apply in_map_iff in Hin as ([s d] & Es & Hin). cbn [snd] in Es. subst d.
      apply In_rowL in Hin as (b & Hb & _ & ->). exact (Hp b Hb eq_refl). }
    (* positions that are untouched by this row *)
    assert (Hkeep : forall p, (forall b, b < 2 ^ k -> p <> pU k b) -> (forall c, c < 2 ^ (k + 1) -> p <> pU (k + 1) c) ->
              nodes_get nd' p = nodes_get nd p).
    { intros p H1 H2. apply M3; [apply Hnot_src, H1|apply Hnot_dst]. intros b Hb.
      destruct (pS_as_U k b Hk Hb) as (c & Hc & ->). apply H2, Hc. }
    constructor; cbn [fst snd].
    - intros Hnd. apply M4, (pi_nd I), Hnd.
    - (* A *)
      intros j b Hj Hj' Hb. destruct (N.eq_dec j k) as [->|Hjk].
      + rewrite (M2 _ _ (Hsrc_in b Hb)), (Hsrc b Hb). unfold adj0.
        destruct (nodes_get nd0 (pU k b)) as [v|].
        * f_equal. apply adjv_ext. exact (pi_keys I).
        * apply (pi_B I), Hb.
      + destruct (pS_as_U j b Hj' Hb) as (c & Hc & Ec). rewrite Hkeep.
        * apply (pi_A I); [lia|exact Hj'|exact Hb].
        * intros b' Hb'. rewrite Ec. apply pU_ne; try lia.
        * intros c' Hc'. rewrite Ec. apply pU_ne; try lia.
    - (* B *)
      intros b Hb. destruct (pS_as_U (k - 1) b ltac:(lia) Hb) as (c & Hc & ->).
      replace (k - 1 + 1) with k in * by lia. exact (M1 _ _ (Hsrc_in c Hc)).
    - (* Dn *)
      intros j b Hj Hj' Hb. destruct (N.eq_dec j (k - 1)) as [->|Hjk].
      + destruct (pD_as_U (k - 1) b ltac:(lia) Hb) as (c & Hc & ->).
        replace (k - 1 + 1) with k in * by lia. exact (M1 _ _ (Hsrc_in c Hc)).
      + destruct (pD_as_U j b ltac:(lia) Hb) as (c & Hc & Ec). rewrite M3.
        * apply (pi_Dn I); [lia|exact Hj'|exact Hb].
        * apply Hnot_src. intros b' Hb'. rewrite Ec. apply pU_ne; try lia.
        * apply Hnot_dst. intros b' Hb'. apply pD_ne_pS; try lia.
    - (* C *)
      intros j b Hj Hj' Hb. rewrite Hkeep.
      + apply (pi_C I); [exact Hj|lia|exact Hb].
      + intros b' Hb'. apply pU_ne; try lia.
      + intros c' Hc'. apply pU_ne; try lia.
    - (* O *)
      intros p Hp. rewrite Hkeep.
      + apply (pi_O I), Hp.
      + intros b Hb. apply Hp; [lia|lia|exact Hb].
      + intros c Hc. apply Hp; [lia|lia|exact Hc].
    - intros h. rewrite M5. apply (pi_keys I).
    - (* K *)
      intros h p Hin. destruct (M6 h p Hin) as [(s & d & fl & A & Ev & -> & Hkey)|[Hin' Hno]].
      + apply In_rowL in A as (b & Hb & -> & ->). left. exists k, b, fl. rewrite (Hsrc b Hb) in Ev.
        split; [lia|]. split; [exact Hk|]. split; [exact Hb|]. split; [exact Ev|]. split; [reflexivity|].
        apply (pi_keys I), Hkey.
      + destruct (pi_K I h p Hin') as [(j & b & fl & A1 & A2 & A3 & A4 & A5 & A6)|[Hin0 Hno0]].
        * left. exists j, b, fl. repeat split; try assumption; lia.
        * right. split; [exact Hin0|]. intros j b fl Hj Hj' Hb. destruct (N.eq_dec j k) as [->|Hjk].
          -- rewrite <- (Hsrc b Hb). exact (Hno _ _ fl (Hsrc_in b Hb)).
          -- apply Hno0; [lia|exact Hj'|exact Hb].
  Qed.

  Lemma per_loop_inv : forall (h : nat) (cur : maps H), N.of_nat h <= rd -> per_inv (N.of_nat h) cur ->
    exists st', per_loop HO h T full del sibp cur = (st', true) /\ per_inv 0 st'.
  Proof.
    induction h as [|h IH]; intros cur Hh I.
    - exists cur. split; [reflexivity|exact I].
    - cbn [per_loop].
      assert (Hsv : N.lxor od 1 < 2 ^ (T - rd)) by (apply sib_offsets_lt; assumption).
      rewrite (ChildMany_gpos T rd (N.lxor od 1) (N.of_nat (S h)) HT ltac:(lia) Hh Hsv).
      rewrite shl_1 by lia.
      change (gpos T (rd - N.of_nat (S h)) (N.lxor od 1 * 2 ^ N.of_nat (S h))) with
        (gpos T (rd - N.of_nat (S h)) (N.lxor od 1 * 2 ^ N.of_nat (S h))).
      assert (E0 : gpos T (rd - N.of_nat (S h)) (N.lxor od 1 * 2 ^ N.of_nat (S h)) = pS (N.of_nat (S h)) 0).
      { unfold MapMutRemove.posS. f_equal. lia. }
      rewrite E0, (offsets_rowS _ Hh).
      rewrite (per_row_eq (MapMutRemove.nxp T rd od)).
      2:{ intros p Hp. unfold rowS in Hp. apply in_map_iff in Hp as (i & <- & Hi). apply in_seq in Hi.
          unfold MapMutRemove.nxp.
          rewrite (MapMutRemove.next_posS T rd od HT Hrd Hod _ (N.of_nat i) Hh ltac:(lia)). reflexivity. }
      destruct (rowL_rowS (N.of_nat (S h))) as [-> |C]; [|contradiction].
      pose proof (per_step (N.of_nat (S h)) cur ltac:(lia) Hh I) as I'.
      replace (N.of_nat (S h) - 1) with (N.of_nat h) in I' by lia.
      apply IH; [lia|exact I'].
  Qed.

  Theorem placeEmptyRoot_spec :
    exists st', placeEmptyRoot HO T full del (nd0, ca0) = (st', true) /\ per_inv 0 st'.
  Proof.
    unfold placeEmptyRoot. rewrite sibling_gpos by lia.
    assert (Hsv : N.lxor od 1 < 2 ^ (T - rd)) by (apply sib_offsets_lt; assumption).
    rewrite (DetectRow_gpos T rd _ HT ltac:(lia) Hsv).
    apply per_loop_inv; [lia|]. rewrite N2Nat.id.
    constructor; cbn [fst snd]; try tauto.
    - intros j b Hj Hj'. lia.
    - intros b Hb. destruct (pS_as_U rd b ltac:(lia) Hb) as (c & Hc & ->). apply Hbot, Hc.
    - intros j b Hj Hj' Hb. assert (j = rd) by lia. subst j.
      destruct (pD_as_U rd b ltac:(lia) Hb) as (c & Hc & ->). apply Hbot, Hc.
    - intros h p Hin. right. split; [exact Hin|]. intros j b fl Hj Hj'. lia.
  Qed.
End PER.
(** * Part 3: the region below the parent of a position, in (row, offset) coordinates *)
Definition inSubG (rd : nat) (od : N) (r : nat) (o : N) : Prop :=
  (r <= rd)%nat /\ N.lxor od 1 * p2 (rd - r) <= o < (N.lxor od 1 + 1) * p2 (rd - r).
Definition inDelG (rd : nat) (od : N) (r : nat) (o : N) : Prop :=
  (r <= rd)%nat /\ od * p2 (rd - r) <= o < (od + 1) * p2 (rd - r).
Definition inRegG (rd : nat) (od : N) (r : nat) (o : N) : Prop :=
  (r <= S rd)%nat /\ od / 2 * p2 (S rd - r) <= o < (od / 2 + 1) * p2 (S rd - r).
Definition upoG (rd r : nat) (o : N) : N := rmbit o (N.of_nat rd - N.of_nat r).

Section RegG.
  Variable T : N.
  Variable rd : nat.
  Variable od : N.
  Hypothesis HT : T <= 63.
  Hypothesis Hrd : N.of_nat rd < T.
  Hypothesis Hod : od < 2 ^ (T - N.of_nat rd).
  Notation q := (od / 2).
  Notation sbo := (N.lxor od 1).
  Notation inSub := (inSubG rd od).
  Notation inDel := (inDelG rd od).
  Notation inReg := (inRegG rd od).
  Notation upo := (upoG rd).

  Lemma od_cases : (od = 2 * q /\ sbo = 2 * q + 1) \/ (od = 2 * q + 1 /\ sbo = 2 * q).
  Proof.
    destruct (pps_bit0 od) as (k & [(E1 & E2 & _ & E4)|(E1 & E2 & _ & E4)]); rewrite E2, E4; [left|right]; lia.
  Qed.

  Lemma sbo_div2 : sbo / 2 = q.
  Proof. apply lxor1_div2. Qed.

  Lemma q_lt : q < 2 ^ (T - N.of_nat rd - 1).
  Proof.
    replace (T - N.of_nat rd) with (T - N.of_nat rd - 1 + 1) in Hod by lia. rewrite UtilsGeom.pow2_S in Hod.
    apply N.div_lt_upper_bound; lia.
  Qed.

  Lemma p2_subS r : (r <= rd)%nat -> p2 (S rd - r) = 2 * p2 (rd - r).
  Proof. intros Hr. replace (S rd - r)%nat with (S (rd - r)) by lia. apply p2_S. Qed.

  Lemma regG_cases r o : inReg r o <-> (r = S rd /\ o = q) \/ inSub r o \/ inDel r o.
  Proof.
    unfold inRegG, inSubG, inDelG. destruct (Nat.eq_dec r (S rd)) as [->|Hne].
    - rewrite Nat.sub_diag. change (p2 0) with 1. split; [intros [_ A]; left; split; [reflexivity|lia]|].
      intros [[_ ->]|[[A _]|[A _]]]; [split; [lia|lia]|lia|lia].
    - split.
      + intros [Hr A]. assert (Hr' : (r <= rd)%nat) by lia. rewrite (p2_subS r Hr') in A.
        pose proof (p2_pos (rd - r)) as Hp. right.
        destruct od_cases as [[E1 E2]|[E1 E2]]; rewrite E2; rewrite E1 at 3 4;
          destruct (N.lt_ge_cases o ((2 * q + 1) * p2 (rd - r))); [right|left|left|right]; (split; [exact Hr'|lia]).
      + intros [[A _]|[[Hr A]|[Hr A]]]; [contradiction| |]; (split; [lia|]); rewrite (p2_subS r Hr);
          pose proof (p2_pos (rd - r)) as Hp; destruct od_cases as [[E1 E2]|[E1 E2]];
          try rewrite E2 in A; try (rewrite E1 in A at 1 2); nia.
  Qed.

  Lemma sub_reg r o : inSub r o -> inReg r o.
  Proof. intros A. apply regG_cases. auto. Qed.
  Lemma del_reg r o : inDel r o -> inReg r o.
  Proof. intros A. apply regG_cases. auto. Qed.
  Lemma P_reg : inReg (S rd) q.
  Proof. apply regG_cases. auto. Qed.

  Lemma sub_del_excl r o : inSub r o -> inDel r o -> False.
  Proof.
    intros [_ A] [_ B]. pose proof (p2_pos (rd - r)) as Hp.
    destruct od_cases as [[E1 E2]|[E1 E2]]; rewrite E2 in A; rewrite E1 in B at 1 2; nia.
  Qed.

  Lemma regG_valid r o : inReg r o -> N.of_nat r <= T /\ o < 2 ^ (T - N.of_nat r).
  Proof.
    intros [Hr Ho]. split; [lia|]. pose proof q_lt as Hq.
    assert (E : 2 ^ (T - N.of_nat r) = 2 ^ (T - N.of_nat rd - 1) * p2 (S rd - r)).
    { unfold p2. rewrite <- N.pow_add_r. f_equal. lia. }
    rewrite E.
    assert ((q + 1) * p2 (S rd - r) <= 2 ^ (T - N.of_nat rd - 1) * p2 (S rd - r))
      by (apply N.mul_le_mono_r; lia). lia.
  Qed.

  Lemma sub_root o : inSub rd o <-> o = sbo.
  Proof. unfold inSubG. rewrite Nat.sub_diag. change (p2 0) with 1. split; [intros [_ A]; lia|intros ->; split; lia]. Qed.
  Lemma del_root o : inDel rd o <-> o = od.
  Proof. unfold inDelG. rewrite Nat.sub_diag. change (p2 0) with 1. split; [intros [_ A]; lia|intros ->; split; lia]. Qed.

  Lemma upo_sub r o : inSub r o -> upo r o = q * p2 (rd - r) + (o - sbo * p2 (rd - r)).
  Proof.
    intros [Hr Ho]. unfold upoG. replace (N.of_nat rd - N.of_nat r) with (N.of_nat (rd - r)) by lia.
    set (j := N.of_nat (rd - r)). unfold p2 in *. fold j in Ho |- *.
    replace o with (sbo * 2 ^ j + (o - sbo * 2 ^ j)) at 1 by lia.
    rewrite MapMutRemove.rmbit_block by lia. rewrite sbo_div2. reflexivity.
  Qed.

  Lemma upo_reg r o : inSub r o -> inReg (S r) (upo r o).
  Proof.
    intros Hs. rewrite (upo_sub r o Hs). destruct Hs as [Hr Ho]. split; [lia|].
    replace (S rd - S r)%nat with (rd - r)%nat by lia. lia.
  Qed.

  Lemma upo_inj r o o' : inSub r o -> inSub r o' -> upo r o = upo r o' -> o = o'.
  Proof. intros A B. rewrite (upo_sub r o A), (upo_sub r o' B). destruct A as [_ A], B as [_ B]. lia. Qed.

  Lemma upo_root : upo rd sbo = q.
  Proof. unfold upoG. rewrite N.sub_diag, rmbit_0. apply sbo_div2. Qed.

  (** every coordinate of the region at a row [>= 1] is the lift of a coordinate below the sibling *)
  Lemma reg_lift r o' : inReg (S r) o' -> exists o, inSub r o /\ o' = upo r o.
  Proof.
    intros [Hr Ho]. assert (Hr' : (r <= rd)%nat) by lia.
    replace (S rd - S r)%nat with (rd - r)%nat in Ho by lia.
    exists (sbo * p2 (rd - r) + (o' - q * p2 (rd - r))).
    assert (Hs : inSub r (sbo * p2 (rd - r) + (o' - q * p2 (rd - r)))) by (split; [exact Hr'|lia]).
    split; [exact Hs|]. rewrite (upo_sub _ _ Hs). lia.
  Qed.

  Lemma sub_parent r o : inSub r o -> (r < rd)%nat -> inSub (S r) (o / 2) /\ upo (S r) (o / 2) = upo r o / 2.
  Proof.
    intros [Hr Ho] Hlt. split.
    - split; [lia|]. replace (rd - r)%nat with (S (rd - S r)) in Ho by lia. rewrite p2_S in Ho.
      pose proof (N.div_mod' o 2). pose proof (N.mod_lt o 2 ltac:(lia)). lia.
    - unfold upoG. rewrite rmbit_div2 by lia. f_equal. lia.
  Qed.

  Lemma sub_sib r o : inSub r o -> (r < rd)%nat -> inSub r (N.lxor o 1) /\ upo r (N.lxor o 1) = N.lxor (upo r o) 1.
  Proof.
    intros [Hr Ho] Hlt. split.
    - split; [exact Hr|]. replace (rd - r)%nat with (S (rd - S r)) in * by lia. rewrite p2_S in *.
      rewrite (lxor_1 o). destruct (N.even o) eqn:Ev.
      + apply N.even_spec in Ev as [k ->]. lia.
      + pose proof (odd_nz o Ev). apply Bool.negb_true_iff in Ev. rewrite N.negb_even in Ev.
        apply N.odd_spec in Ev as [k ->]. lia.
    - unfold upoG. apply rmbit_lxor1. lia.
  Qed.

  (** children of coordinates of the region are in the region *)
  Lemma reg_child r o : inReg (S r) (o / 2) -> inReg r o.
  Proof.
    intros [Hr Ho]. split; [lia|]. replace (S rd - r)%nat with (S (S rd - S r)) by lia. rewrite p2_S.
    pose proof (N.div_mod' o 2). pose proof (N.mod_lt o 2 ltac:(lia)). lia.
  Qed.

  Lemma reg_sib r o : inReg r (N.lxor o 1) -> inReg r o \/ (r = S rd /\ N.lxor o 1 = q).
  Proof.
    intros Hs. destruct (Nat.eq_dec r (S rd)) as [->|Hne].
    - right. split; [reflexivity|]. apply regG_cases in Hs as [[_ E]|[[A _]|[A _]]]; [exact E|lia|lia].
    - left. destruct Hs as [Hr Ho]. assert (Hr' : (r <= rd)%nat) by lia. split; [exact Hr|].
      rewrite (p2_subS r Hr') in *. set (p' := p2 (rd - r)) in *. rewrite lxor_1 in Ho.
      destruct (N.even o) eqn:Ev.
      + apply N.even_spec in Ev as [k ->]. lia.
      + pose proof (odd_nz o Ev). apply Bool.negb_true_iff in Ev. rewrite N.negb_even in Ev.
        apply N.odd_spec in Ev as [k ->]. lia.
  Qed.

  Lemma gp_inj_v r o r' o' : N.of_nat r <= T -> o < 2 ^ (T - N.of_nat r) -> N.of_nat r' <= T ->
    o' < 2 ^ (T - N.of_nat r') -> gp T r o = gp T r' o' -> r = r' /\ o = o'.
  Proof. exact (gp_inj T r o r' o'). Qed.

  (** a coordinate outside the region is at a different position *)
  Lemma out_ne r o r' o' : N.of_nat r <= T -> o < 2 ^ (T - N.of_nat r) -> ~ inReg r o -> inReg r' o' ->
    gp T r o <> gp T r' o'.
  Proof.
    intros A B Hout Hin E. destruct (regG_valid r' o' Hin) as [C D].
    destruct (gp_inj_v r o r' o' A B C D E) as [-> ->]. contradiction.
  Qed.
End RegG.
(** ** [placeEmptyRoot] in (row, offset) coordinates *)
Section PERC.
  Variable H : Type.
  Variable HO : ops H.
  Hypothesis HOK : ops_ok HO.
  Variable full : bool.
  Variable T : N.
  Variable rd : nat.
  Variable od : N.
  Hypothesis HT : T <= 63.
  Hypothesis Hrd : N.of_nat rd < T.
  Hypothesis Hod : od < 2 ^ (T - N.of_nat rd).
  Notation nodemap := (list (N * (H * bool))).
  Notation cachemap := (list (H * N)).
  Notation q := (od / 2).
  Notation sbo := (N.lxor od 1).
  Notation inSub := (inSubG rd od).
  Notation inDel := (inDelG rd od).
  Notation inReg := (inRegG rd od).
  Notation upo := (upoG rd).
  Notation rdN := (N.of_nat rd).
  Notation pU := (MapMutRemove.posU T rdN od).
  Notation pS := (MapMutRemove.posS T rdN od).
  Notation pD := (MapMutRemove.posD T rdN od).
  Notation Pp := (gp T (S rd) q).

  Lemma p2_N k : p2 k = 2 ^ N.of_nat k.
  Proof. reflexivity. Qed.

  Lemma reg_pU r o : inReg r o ->
    gp T r o = pU (N.of_nat (S rd - r)) (o - q * p2 (S rd - r)) /\ o - q * p2 (S rd - r) < 2 ^ N.of_nat (S rd - r).
  Proof.
    intros [Hr Ho]. unfold gp, MapMutRemove.posU. rewrite <- p2_N. split; [|lia]. f_equal; lia.
  Qed.

  Lemma pU_reg j b : j <= rdN + 1 -> b < 2 ^ j ->
    inReg (S rd - N.to_nat j) (q * 2 ^ j + b) /\ pU j b = gp T (S rd - N.to_nat j) (q * 2 ^ j + b).
  Proof.
    intros Hj Hb. split.
    - split; [lia|]. replace (S rd - (S rd - N.to_nat j))%nat with (N.to_nat j) by lia.
      rewrite p2_N, N2Nat.id. lia.
    - unfold gp, MapMutRemove.posU. f_equal. lia.
  Qed.

  Lemma sub_pS r o : inSub r o ->
    gp T r o = pS (N.of_nat (rd - r)) (o - sbo * p2 (rd - r)) /\
    gp T (S r) (upo r o) = pU (N.of_nat (rd - r)) (o - sbo * p2 (rd - r)) /\
    o - sbo * p2 (rd - r) < 2 ^ N.of_nat (rd - r).
  Proof.
    intros Hs. rewrite (upo_sub T rd od HT Hrd Hod r o Hs). destruct Hs as [Hr Ho].
    unfold gp, MapMutRemove.posS, MapMutRemove.posU. rewrite <- !p2_N.
    split; [f_equal; lia|]. split; [f_equal; lia|lia].
  Qed.

  Lemma del_pD r o : inDel r o ->
    gp T r o = pD (N.of_nat (rd - r)) (o - od * p2 (rd - r)) /\ o - od * p2 (rd - r) < 2 ^ N.of_nat (rd - r).
  Proof.
    intros [Hr Ho]. unfold gp, MapMutRemove.posD. rewrite <- !p2_N. split; [f_equal; lia|lia].
  Qed.

  Lemma pS_sub j b : 1 <= j -> j <= rdN -> b < 2 ^ j ->
    let r := (rd - N.to_nat j)%nat in let o := sbo * 2 ^ j + b in
    (r < rd)%nat /\ inSub r o /\ pS j b = gp T r o /\ pU j b = gp T (S r) (upo r o).
  Proof.
    intros Hj1 Hj Hb r o.
    assert (Hs : inSub r o).
    { split; [unfold r; lia|]. unfold r, o. replace (rd - (rd - N.to_nat j))%nat with (N.to_nat j) by lia.
      rewrite p2_N, N2Nat.id. lia. }
    destruct (sub_pS r o Hs) as (A & B & C).
    assert (Ej : N.of_nat (rd - r) = j) by (unfold r; lia).
    assert (Eb : o - sbo * p2 (rd - r) = b) by (rewrite p2_N, Ej; unfold o; lia).
    rewrite Ej, Eb in A, B. split; [unfold r; lia|]. split; [exact Hs|]. split; [symmetry; exact A|symmetry; exact B].
  Qed.

  Variable nd0 : nodemap.
  Variable ca0 : cachemap.
  Hypothesis HneC : forall r o v, (1 <= r)%nat -> (r <= rd)%nat -> inReg r o -> nodes_get nd0 (gp T r o) = Some v ->
    op_eqb HO (fst v) (op_empty HO) = false.
  Hypothesis HbotC : forall o, inReg 0 o -> nodes_get nd0 (gp T 0 o) = None.
  Notation adj0 := (adj0 H HO full ca0).

  Set Implicit Arguments.
  Record perC (st1 : maps H) : Prop := mkPerC {
    pc_nodup : NoDup (map fst nd0) -> NoDup (map fst (fst st1));
    pc_sub : forall r o, (r < rd)%nat -> inSub r o ->
      nodes_get (fst st1) (gp T r o) = adj0 (nodes_get nd0 (gp T (S r) (upo r o)));
    pc_sibroot : nodes_get (fst st1) (gp T rd sbo) = None;
    pc_del : forall r o, inDel r o -> nodes_get (fst st1) (gp T r o) = None;
    pc_out : forall p, (forall r o, (r <= rd)%nat -> inReg r o -> p <> gp T r o) ->
      nodes_get (fst st1) p = nodes_get nd0 p;
    pc_back : forall p v, nodes_get (fst st1) p = Some v ->
      (exists r o, (r < rd)%nat /\ inSub r o /\ p = gp T r o /\
                   adj0 (nodes_get nd0 (gp T (S r) (upo r o))) = Some v) \/
      (nodes_get nd0 p = Some v /\ forall r o, (r <= rd)%nat -> inReg r o -> p <> gp T r o);
    pc_keys : forall h, In h (map fst (snd st1)) <-> In h (map fst ca0);
    pc_ca : forall h p, In (h, p) (snd st1) ->
      (exists r o fl, (r < rd)%nat /\ inSub r o /\ nodes_get nd0 (gp T (S r) (upo r o)) = Some (h, fl) /\
                      p = gp T r o /\ In h (map fst ca0)) \/
      (In (h, p) ca0 /\ forall r o fl, (r < rd)%nat -> inSub r o ->
                          nodes_get nd0 (gp T (S r) (upo r o)) <> Some (h, fl)) }.
  Unset Implicit Arguments.

  Theorem placeEmptyRoot_coords :
    exists st1, placeEmptyRoot HO T full (gp T rd od) (nd0, ca0) = (st1, true) /\ perC st1.
  Proof.
    destruct (placeEmptyRoot_spec H HO HOK full T rdN od HT Hrd Hod nd0 ca0) as (st1 & E & I).
    { intros j b v Hj1 Hj Hb Ev. destruct (pU_reg j b ltac:(lia) Hb) as [A B]. rewrite B in Ev.
      apply (HneC _ _ v) in Ev; [exact Ev|lia|lia|exact A]. }
    { intros c Hc. destruct (pU_reg (rdN + 1) c ltac:(lia) Hc) as [A B]. rewrite B.
      replace (S rd - N.to_nat (rdN + 1))%nat with 0%nat in * by lia. apply HbotC, A. }
    exists st1. split; [exact E|].
    assert (HregU : forall r o, (r <= rd)%nat -> inReg r o ->
              exists j b, 1 <= j /\ j <= rdN + 1 /\ b < 2 ^ j /\ gp T r o = pU j b).
    { intros r o Hr Hreg. destruct (reg_pU r o Hreg) as [A B].
      exists (N.of_nat (S rd - r)), (o - q * p2 (S rd - r)). split; [lia|]. split; [lia|]. auto. }
    constructor.
    - exact (pi_nd I).
    - intros r o Hr Hs. destruct (sub_pS r o Hs) as (A & B & C). rewrite A, B.
      apply (pi_A I); [lia|lia|exact C].
    - assert (A : gp T rd sbo = pS 0 0).
      { unfold gp, MapMutRemove.posS. f_equal; lia. }
      rewrite A. apply (pi_B I). cbn. lia.
    - intros r o Hd. destruct (del_pD r o Hd) as [A B]. rewrite A. destruct Hd as [Hr _].
      apply (pi_Dn I); [lia|lia|exact B].
    - intros p Hp. apply (pi_O I). intros j b Hj1 Hj Hb E'.
      destruct (pU_reg j b Hj Hb) as [A B]. rewrite B in E'. revert E'. apply Hp; [lia|exact A].
    - intros p v Ev.
      destruct (MapMutRemove.posU_dec T rdN od HT Hrd Hod p) as [(j & b & Hj & Hb & ->)|Hno].
      + destruct (N.eq_dec j 0) as [->|Hj0].
        * right. rewrite (pi_O I) in Ev.
          -- split; [exact Ev|]. intros r o Hr Hreg E'. destruct (HregU r o Hr Hreg) as (j' & b' & A1 & A2 & A3 & A4).
             rewrite A4 in E'.
             destruct (MapMutRemove.posU_inj T rdN od HT Hrd Hod 0 b j' b' ltac:(lia) Hb ltac:(lia) A3 E'). lia.
          -- intros j' b' A1 A2 A3 E'.
             destruct (MapMutRemove.posU_inj T rdN od HT Hrd Hod 0 b j' b' ltac:(lia) Hb ltac:(lia) A3 E'). lia.
        * destruct (MapMutRemove.posU_split T rdN od HT Hrd Hod (j - 1) b ltac:(lia))
            as (b' & Hb' & [E'|E']); [replace (j - 1 + 1) with j by lia; exact Hb| |];
            replace (j - 1 + 1) with j in E' by lia; rewrite E' in Ev.
          -- exfalso. rewrite (pi_Dn I) in Ev; [discriminate|lia|lia|exact Hb'].
          -- destruct (N.eq_dec (j - 1) 0) as [E0|E0].
             ++ exfalso. rewrite E0 in *. rewrite (pi_B I) in Ev; [discriminate|exact Hb'].
             ++ left. destruct (pS_sub (j - 1) b' ltac:(lia) ltac:(lia) Hb') as (A1 & A2 & A3 & A4).
                rewrite (pi_A I) in Ev by (try exact Hb'; lia).
                eexists _, _. split; [exact A1|]. split; [exact A2|]. split; [rewrite E'; exact A3|].
                rewrite <- A4. exact Ev.
      + right. rewrite (pi_O I) in Ev.
        * split; [exact Ev|]. intros r o Hr Hreg E'. destruct (HregU r o Hr Hreg) as (j' & b' & A1 & A2 & A3 & A4).
          rewrite A4 in E'. exact (Hno j' b' A2 A3 E').
        * intros j b A1 A2 A3. apply Hno; assumption.
    - exact (pi_keys I).
    - intros h p Hin. destruct (pi_K I h p Hin) as [(j & b & fl & A1 & A2 & A3 & A4 & A5 & A6)|[Hin0 Hno]].
      + left. destruct (pS_sub j b ltac:(lia) A2 A3) as (B1 & B2 & B3 & B4).
        eexists _, _, fl. split; [exact B1|]. split; [exact B2|]. split; [rewrite <- B4; exact A4|].
        split; [rewrite A5; exact B3|exact A6].
      + right. split; [exact Hin0|]. intros r o fl Hr Hs. destruct (sub_pS r o Hs) as (A & B & C). rewrite B.
        apply Hno; [lia|lia|exact C].
  Qed.
End PERC.
(** * Part 4: the weak invariant: the invariant of Proofs/MapMutAdd.v over a view of the forest,
      without the clause about the roots, and with a set [X] of EXEMPT coordinates: what is
      stored there need not be true, and nothing need be stored there *)
Section Weak.
  Variable H : Type.
  Variable HO : ops H.
  Hypothesis HOK : ops_ok HO.
  Notation nodemap := (list (N * (H * bool))).
  Notation cachemap := (list (H * N)).

  Record WInvX (V : nat -> N -> H -> bool -> Prop) (RT : nat -> N -> Prop) (R : list H) (T : N)
         (X : nat -> N -> Prop) (nd : nodemap) (ca : cachemap) : Prop := mkWInvX {
    w_nodup : NoDup (map fst nd);
    w_true : forall p h b, In (p, (h, b)) nd ->
      exists r o, p = gp T r o /\ N.of_nat r <= T /\ o < 2 ^ (T - N.of_nat r) /\
                  (X r o \/ exists l, V r o h l);
    w_cR : forall h, In h R <-> In h (map fst ca);
    w_cpos : forall h p, In (h, p) ca -> exists r o, V r o h true /\ p = gp T r o;
    w_tgt : forall r o h, V r o h true -> In h R -> ~ X r o -> nodes_get nd (gp T r o) = Some (h, true);
    w_sibs : forall r o, known V RT R r o -> ~ RT r o -> forall h l, V r (N.lxor o 1) h l ->
      ~ X r (N.lxor o 1) -> nodes_get nd (gp T r (N.lxor o 1)) <> None }.
  Arguments w_nodup {V RT R T X nd ca} _.
  Arguments w_true {V RT R T X nd ca} _ p h b _.
  Arguments w_cR {V RT R T X nd ca} _ h.
  Arguments w_cpos {V RT R T X nd ca} _ h p _.
  Arguments w_tgt {V RT R T X nd ca} _ r o h _ _ _.
  Arguments w_sibs {V RT R T X nd ca} _ r o _ _ h l _ _.

  Definition noX : nat -> N -> Prop := fun _ _ => False.

  Lemma GInv_WInvX V RT R T nd ca : Vok V RT T -> GInv V RT R T nd ca -> WInvX V RT R T noX nd ca.
  Proof.
    intros K G. constructor.
    - exact (g_nodup G).
    - intros p h b Hin. destruct (g_true G _ _ _ Hin) as (r & o & l & E & Hv).
      destruct (v_valid K Hv) as [A B]. exists r, o. repeat split; try assumption. right. exists l. exact Hv.
    - exact (g_cR G).
    - exact (g_cpos G).
    - intros r o h Hv Hh _. exact (g_tgt G Hv Hh).
    - intros r o Hk Hn h l _ _. exact (g_sibs G Hk Hn).
  Qed.

  Lemma WInvX_GInv V RT R T X nd ca : WInvX V RT R T X nd ca -> (forall r o, ~ X r o) ->
    (forall r o, RT r o -> nodes_get nd (gp T r o) <> None) ->
    (forall r o h l, V r o h l -> ~ RT r o -> exists h' l', V r (N.lxor o 1) h' l') ->
    (forall r o h l, V r o h l -> ~ RT r o -> exists h' l', V (S r) (o / 2) h' l') ->
    GInv V RT R T nd ca.
  Proof.
    intros W HX Hroots Hsib Hpar.
    assert (HkV : forall r o, known V RT R r o -> exists h l, V r o h l).
    { induction 1 as [r o h Hv _|r o _ (h & l & Hv) Hn]; [eauto|]. exact (Hpar _ _ _ _ Hv Hn). }
    constructor.
    - exact (w_nodup W).
    - intros p h b Hin. destruct (w_true W _ _ _ Hin) as (r & o & E & _ & _ & [C|(l & Hv)]); [destruct (HX _ _ C)|].
      exists r, o, l. auto.
    - exact (w_cR W).
    - exact (w_cpos W).
    - intros h Hh. apply (w_cR W) in Hh. apply in_map_iff in Hh as ([h' p] & E & Hin). cbn [fst] in E. subst h'.
      destruct (w_cpos W _ _ Hin) as (r & o & Hv & _). eauto.
    - exact Hroots.
    - intros r o h Hv Hh. exact (w_tgt W _ _ _ Hv Hh (HX _ _)).
    - intros r o Hk Hn. destruct (HkV _ _ Hk) as (h & l & Hv).
      destruct (Hsib _ _ _ _ Hv Hn) as (h' & l' & Hv'). exact (w_sibs W _ _ Hk Hn _ _ Hv' (HX _ _)).
  Qed.

  Lemma known_mono (V V' : nat -> N -> H -> bool -> Prop) (RT RT' : nat -> N -> Prop) (R R' : list H) :
    (forall r o h, V r o h true -> In h R -> V' r o h true /\ In h R') -> (forall r o, RT' r o -> RT r o) ->
    forall r o, known V RT R r o -> known V' RT' R' r o.
  Proof.
    intros HVV HRT r o Hk. induction Hk as [r o h Hv Hh|r o _ IH Hn].
    - destruct (HVV _ _ _ Hv Hh) as [A B]. exact (kn_leaf V' RT' R' r o h A B).
    - apply kn_up; [exact IH|]. intros C. exact (Hn (HRT _ _ C)).
  Qed.

  (** the invariant depends on the extensions of the view, of [R] and of [X] only *)
  Lemma WInvX_ext V V' RT RT' R R' T (X X' : nat -> N -> Prop) nd ca :
    (forall r o h l, V r o h l <-> V' r o h l) -> (forall r o, RT r o <-> RT' r o) ->
    (forall h, In h R <-> In h R') -> (forall r o, X r o <-> X' r o) ->
    WInvX V RT R T X nd ca -> WInvX V' RT' R' T X' nd ca.
  Proof.
    intros HVV HRT HR HX W. constructor.
    - exact (w_nodup W).
    - intros p h b Hin. destruct (w_true W _ _ _ Hin) as (r & o & E & A & B & [C|(l & Hv)]);
        exists r, o; repeat split; try assumption; [left; apply HX, C|right; exists l; apply HVV, Hv].
    - intros h. rewrite <- HR. exact (w_cR W h).
    - intros h p Hin. destruct (w_cpos W _ _ Hin) as (r & o & Hv & E). exists r, o. split; [apply HVV, Hv|exact E].
    - intros r o h Hv Hh Hn. apply (w_tgt W); [apply HVV, Hv|apply HR, Hh|intros C; apply Hn, HX, C].
    - intros r o Hk Hn h l Hv HnX. apply (w_sibs W r o) with (h := h) (l := l).
      + apply (known_mono V' V RT' RT R' R); [|intros ? ? A; apply HRT, A|exact Hk].
        intros r0 o0 h0 A B. split; [apply HVV, A|apply HR, B].
      + intros C. apply Hn, HRT, C.
      + apply HVV, Hv.
      + intros C. apply HnX, HX, C.
  Qed.

  (** more exempt coordinates *)
  Lemma WInvX_weaken V RT R T (X X' : nat -> N -> Prop) nd ca : (forall r o, X r o -> X' r o) ->
    WInvX V RT R T X nd ca -> WInvX V RT R T X' nd ca.
  Proof.
    intros HX W. constructor.
    - exact (w_nodup W).
    - intros p h b Hin. destruct (w_true W _ _ _ Hin) as (r & o & E & A & B & [C|D]);
        exists r, o; repeat split; auto.
    - exact (w_cR W).
    - exact (w_cpos W).
    - intros r o h Hv Hh Hn. apply (w_tgt W _ _ _ Hv Hh). intros C. exact (Hn (HX _ _ C)).
    - intros r o Hk Hn h l Hv HnX. apply (w_sibs W _ _ Hk Hn _ _ Hv). intros C. exact (HnX (HX _ _ C)).
  Qed.

  (** fewer exempt coordinates: where the view has no node and nothing is stored *)
  Lemma WInvX_unexempt V RT R T (X X' : nat -> N -> Prop) nd ca :
    (forall r o, X r o -> X' r o \/ ((forall h l, ~ V r o h l) /\ nodes_get nd (gp T r o) = None)) ->
    WInvX V RT R T X nd ca -> WInvX V RT R T X' nd ca.
  Proof.
    intros HX W. constructor.
    - exact (w_nodup W).
    - intros p h b Hin. destruct (w_true W _ _ _ Hin) as (r & o & E & A & B & [C|D]);
        exists r, o; repeat split; auto.
      destruct (HX _ _ C) as [C'|[_ C']]; [left; exact C'|].
      exfalso. subst p. apply (nodes_get_In_iff H _ _ _ (w_nodup W)) in Hin. congruence.
    - exact (w_cR W).
    - exact (w_cpos W).
    - intros r o h Hv Hh Hn. apply (w_tgt W _ _ _ Hv Hh). intros C.
      destruct (HX _ _ C) as [C'|[C' _]]; [exact (Hn C')|exact (C' _ _ Hv)].
    - intros r o Hk Hn h l Hv HnX. apply (w_sibs W _ _ Hk Hn _ _ Hv). intros C.
      destruct (HX _ _ C) as [C'|[C' _]]; [exact (HnX C')|exact (C' _ _ Hv)].
  Qed.

  Lemma remove_In (eqd : forall a b : H, {a = b} + {a <> b}) (x a : H) l :
    In x (List.remove eqd a l) <-> In x l /\ x <> a.
  Proof.
    split.
    - intros Hin. split; [exact (proj1 (in_remove eqd l x a Hin))|exact (proj2 (in_remove eqd l x a Hin))].
    - intros [A B]. apply in_in_remove; assumption.
  Qed.

  (** a stored position is deleted and its hash un-cached ([undoSingleAdd]): the coordinate becomes
      exempt; [R'] is [R] without that hash *)
  Lemma WInvX_del V RT R R' T X nd ca r0 o0 hh b0 :
    Vok V RT T ->
    WInvX V RT R T X nd ca ->
    N.of_nat r0 <= T -> o0 < 2 ^ (T - N.of_nat r0) ->
    nodes_get nd (gp T r0 o0) = Some (hh, b0) ->
    (forall h, In h R' <-> In h R /\ h <> hh) ->
    WInvX V RT R' T (fun r o => X r o \/ (r = r0 /\ o = o0))
          (nodes_del (gp T r0 o0) nd) (cached_del HO hh ca).
  Proof.
    intros K W Hr0 Ho0 E HR'.
    constructor.
    - apply NoDup_nodes_del, (w_nodup W).
    - intros p h b Hin. apply In_nodes_del in Hin as [_ Hin].
      destruct (w_true W _ _ _ Hin) as (r & o & Ep & A & B & [C|D]); exists r, o; repeat split; auto.
    - intros h. rewrite HR', (w_cR W h). unfold cached_del. split.
      + intros [Hin Hne]. apply in_map_iff in Hin as ([h' p] & Eh & Hin). cbn [fst] in Eh. subst h'.
        apply in_map_iff. exists (h, p). split; [reflexivity|]. apply filter_In. split; [exact Hin|]. cbn [fst].
        rewrite (Heqb_neq H HO HOK h hh Hne). reflexivity.
      + intros Hin. apply in_map_iff in Hin as ([h' p] & Eh & Hin). cbn [fst] in Eh. subst h'.
        apply filter_In in Hin as [Hin Hb]. cbn [fst] in Hb.
        split; [apply in_map_iff; exists (h, p); auto|]. intros ->. rewrite (Heqb_refl H HO HOK) in Hb. discriminate.
    - intros h p Hin. unfold cached_del in Hin. apply filter_In in Hin as [Hin _]. exact (w_cpos W _ _ Hin).
    - intros r o h Hv Hh Hn. apply HR' in Hh as [Hh Hne]. rewrite nodes_get_del.
      destruct (N.eqb_spec (gp T r o) (gp T r0 o0)) as [Ep|_].
      + exfalso. destruct (v_valid K Hv) as [A B]. destruct (gp_inj T r o r0 o0 A B Hr0 Ho0 Ep) as [-> ->].
        apply Hn. right. auto.
      + apply (w_tgt W _ _ _ Hv Hh). intros C. apply Hn. left. exact C.
    - intros r o Hk Hn h l Hv HnX'. rewrite nodes_get_del.
      destruct (N.eqb_spec (gp T r (N.lxor o 1)) (gp T r0 o0)) as [Ep|_].
      + exfalso. destruct (v_valid K Hv) as [A B]. destruct (gp_inj T _ _ r0 o0 A B Hr0 Ho0 Ep) as [-> Eo].
        apply HnX'. right. auto.
      + apply (w_sibs W r o) with (h := h) (l := l); try assumption.
        * apply (known_mono V V RT RT R' R); [|auto|exact Hk].
          intros r1 o1 h1 A B. apply HR' in B as [B _]. auto.
        * intros C. apply HnX'. left. exact C.
  Qed.

  (** storing the true hash of an inner node (or of a leaf that is not remembered) *)
  Lemma WInvX_put V RT R T X nd ca r0 o0 hh l0 b0 :
    Vok V RT T -> WInvX V RT R T X nd ca -> V r0 o0 hh l0 -> (l0 = true -> In hh R -> b0 = true) ->
    WInvX V RT R T (fun r o => X r o /\ ~ (r = r0 /\ o = o0)) (nodes_put (gp T r0 o0) (hh, b0) nd) ca.
  Proof.
    intros K W Hv0 Hl0. destruct (v_valid K Hv0) as [Hr0 Ho0]. constructor.
    - apply NoDup_nodes_put, (w_nodup W).
    - intros p h b Hin. apply In_nodes_put in Hin as [[-> Ev]|[Hne Hin]].
      + injection Ev as -> ->. exists r0, o0. repeat split; auto. right. exists l0. exact Hv0.
      + destruct (w_true W _ _ _ Hin) as (r & o & Ep & A & B & [C|D]); exists r, o; repeat split; auto.
        left. split; [exact C|]. intros [-> ->]. contradiction.
    - exact (w_cR W).
    - exact (w_cpos W).
    - intros r o h Hv Hh Hn. rewrite nodes_get_put.
      destruct (N.eqb_spec (gp T r o) (gp T r0 o0)) as [Ep|Hne].
      + destruct (v_valid K Hv) as [A B]. destruct (gp_inj T r o r0 o0 A B Hr0 Ho0 Ep) as [-> ->].
        destruct (v_fun K Hv Hv0) as [-> <-]. rewrite (Hl0 eq_refl Hh). reflexivity.
      + apply (w_tgt W _ _ _ Hv Hh). intros C. apply Hn. split; [exact C|]. intros [-> ->]. congruence.
    - intros r o Hk Hn h l Hv HnX. rewrite nodes_get_put.
      destruct (N.eqb_spec (gp T r (N.lxor o 1)) (gp T r0 o0)) as [Ep|Hne]; [discriminate|].
      apply (w_sibs W _ _ Hk Hn _ _ Hv). intros C. apply HnX. split; [exact C|]. intros [-> E']. congruence.
  Qed.
End Weak.
Arguments WInvX {H} V RT R T X nd ca.
Arguments w_nodup {H V RT R T X nd ca} _.
Arguments w_true {H V RT R T X nd ca} _ p h b _.
Arguments w_cR {H V RT R T X nd ca} _ h.
Arguments w_cpos {H V RT R T X nd ca} _ h p _.
Arguments w_tgt {H V RT R T X nd ca} _ r o h _ _ _.
Arguments w_sibs {H V RT R T X nd ca} _ r o _ _ h l _ _.
Arguments noX _ _ /.
(** * Part 5: a subtree is pulled down one row (abstractly): [placeEmptyRoot], with the move of
      the parent ([undoDeletion]) or after the deletion of the parent ([undoSingleAdd]) *)
Section PullDown.
  Variable H : Type.
  Variable HO : ops H.
  Hypothesis HOK : ops_ok HO.
  Variable full : bool.
  Variable T : N.
  Variable rd : nat.
  Variable od : N.
  Hypothesis HT : T <= 63.
  Hypothesis Hrd : N.of_nat rd < T.
  Hypothesis Hod : od < 2 ^ (T - N.of_nat rd).
  Notation nodemap := (list (N * (H * bool))).
  Notation cachemap := (list (H * N)).
  Notation q := (od / 2).
  Notation sbo := (N.lxor od 1).
  Notation inSub := (inSubG rd od).
  Notation inDel := (inDelG rd od).
  Notation inReg := (inRegG rd od).
  Notation upo := (upoG rd).
  Variables (V' V Vsub : nat -> N -> H -> bool -> Prop) (RT' RT : nat -> N -> Prop).
  Variable R : list H.
  Variables (X Xn : nat -> N -> Prop).
  Hypothesis HV : Vok V RT T.
  Hypothesis HS_in : forall r o h l, Vsub r o h l -> inSub r o.
  Hypothesis HS_up : forall r o h l, Vsub r o h l -> V' (S r) (upo r o) h l.
  Hypothesis HS_low : forall r o h l, Vsub r o h l -> V r o h l.
  Hypothesis HU_reg : forall r' o' h l, V' r' o' h l -> inReg r' o' ->
    exists r o, Vsub r o h l /\ r' = S r /\ o' = upo r o.
  Hypothesis HL_reg : forall r o h l, V r o h l -> inReg r o -> Vsub r o h l \/ inDel r o \/ Xn r o.
  Hypothesis HO_ul : forall r o h l, V' r o h l -> ~ inReg r o -> V r o h l \/ Xn r o.
  Hypothesis HO_lu : forall r o h l, V r o h l -> ~ inReg r o -> ~ Xn r o -> V' r o h l.
  Hypothesis HO_leaf : forall r o h, V r o h true -> ~ inReg r o -> V' r o h true.
  Hypothesis HDel_leaf : forall r o h, V r o h true -> inDel r o -> ~ In h R.
  Hypothesis HXn_inner : forall r o h, Xn r o -> V r o h true -> False.
  Hypothesis HXn_inner' : forall r o h, Xn r o -> ~ inReg r o -> V' r o h true -> False.
  Hypothesis HRT_out : forall r o, ~ inReg r o -> RT' r o -> RT r o.
  Hypothesis HRT_P : RT' (S rd) q -> RT (S rd) q \/ forall h l, ~ V (S rd) q h l.
  Hypothesis HRT_sub : forall r o, (r < rd)%nat -> inSub r o -> ~ RT' (S r) (upo r o).
  Hypothesis Hsep : forall r o h, V' r o h false -> ~ In h R.
  Hypothesis HX_out : forall r o, X r o -> ~ inReg r o \/ (r = S rd /\ o = q).
  Hypothesis HX_leaf : forall r o h, X r o -> V' r o h true -> ~ In h R.

  Variables (nd0 : nodemap) (ca0 : cachemap).
  Hypothesis W' : WInvX V' RT' R T X nd0 ca0.
  Hypothesis HXP : X (S rd) q -> nodes_get nd0 (gp T (S rd) q) = None.
  Notation adj0 := (adj0 H HO full ca0).

  Section Final.
  Variables (nd2 : nodemap) (ca2 : cachemap).
  Hypothesis F_nodup : NoDup (map fst nd2).
  Hypothesis F_sub : forall r o, (r <= rd)%nat -> inSub r o ->
    nodes_get nd2 (gp T r o) = adj0 (nodes_get nd0 (gp T (S r) (upo r o))).
  Hypothesis F_back : forall p v, nodes_get nd2 p = Some v ->
    (exists r o, (r <= rd)%nat /\ inSub r o /\ p = gp T r o /\
                 adj0 (nodes_get nd0 (gp T (S r) (upo r o))) = Some v) \/
    (nodes_get nd0 p = Some v /\ forall r o, inReg r o -> p <> gp T r o).
  Hypothesis F_out : forall p, (forall r o, inReg r o -> p <> gp T r o) -> nodes_get nd2 p = nodes_get nd0 p.
  Hypothesis F_keys : forall h, In h (map fst ca2) <-> In h (map fst ca0).
  Hypothesis F_ca : forall h p, In (h, p) ca2 ->
    (exists r o fl, (r <= rd)%nat /\ inSub r o /\ nodes_get nd0 (gp T (S r) (upo r o)) = Some (h, fl) /\
                    p = gp T r o /\ In h (map fst ca0)) \/
    (In (h, p) ca0 /\ forall r o fl, (r <= rd)%nat -> inSub r o ->
                        nodes_get nd0 (gp T (S r) (upo r o)) <> Some (h, fl)).

  Lemma inReg_dec r o : inReg r o \/ ~ inReg r o.
  Proof.
    unfold inRegG. destruct (le_dec r (S rd)) as [A|A]; [|right; tauto].
    destruct (N.le_gt_cases (q * p2 (S rd - r)) o) as [B|B]; [|right; lia].
    destruct (N.lt_ge_cases o ((q + 1) * p2 (S rd - r))) as [C|C]; [left; auto|right; lia].
  Qed.

  Lemma up_valid r o : inSub r o -> N.of_nat (S r) <= T /\ upo r o < 2 ^ (T - N.of_nat (S r)).
  Proof. intros Hs. exact (regG_valid T rd od HT Hrd Hod _ _ (upo_reg T rd od HT Hrd Hod r o Hs)). Qed.

  (** what is stored at a lifted coordinate *)
  Lemma up_stored r o h fl : inSub r o -> nodes_get nd0 (gp T (S r) (upo r o)) = Some (h, fl) ->
    exists l, Vsub r o h l.
  Proof.
    intros Hs E. destruct (up_valid r o Hs) as [A B].
    destruct (w_true W' _ _ _ (nodes_get_In H _ _ _ E)) as (r1 & o1 & Ep & A1 & B1 & [C|(l & Hv)]).
    - exfalso. destruct (gp_inj T _ _ _ _ A B A1 B1 Ep) as [<- <-].
      destruct (HX_out _ _ C) as [C'|[C1 C2]].
      + exact (C' (upo_reg T rd od HT Hrd Hod r o Hs)).
      + assert (r = rd) by lia. subst r. rewrite C2 in E. rewrite (HXP ltac:(rewrite <- C2; exact C)) in E. discriminate.
    - destruct (gp_inj T _ _ _ _ A B A1 B1 Ep) as [<- <-].
      destruct (HU_reg _ _ _ _ Hv (upo_reg T rd od HT Hrd Hod r o Hs)) as (r2 & o2 & Hs2 & Er & Eo).
      assert (r2 = r) by lia. subst r2.
      rewrite (upo_inj T rd od HT Hrd Hod r o o2 Hs (HS_in _ _ _ _ Hs2) Eo). exists l. exact Hs2.
  Qed.

  Lemma adj0_some x v : adj0 x = Some v -> exists v0, x = Some v0 /\ fst v0 = fst v.
  Proof.
    destruct x as [v0|]; cbn; [|discriminate]. intros E. injection E as <-. exists v0. auto.
  Qed.

  Lemma sub_valid r o : inSub r o -> N.of_nat r <= T /\ o < 2 ^ (T - N.of_nat r).
  Proof. intros Hs. exact (regG_valid T rd od HT Hrd Hod _ _ (sub_reg T rd od HT Hrd Hod r o Hs)). Qed.

  Definition outP (r : nat) (o : N) : Prop := ~ inReg r o \/ (r = S rd /\ o = q).

  Lemma outP_parent r o : outP r o -> ~ inReg (S r) (o / 2).
  Proof.
    intros [A|[-> _]] B.
    - exact (A (reg_child T rd od HT Hrd Hod r o B)).
    - destruct B as [B _]. lia.
  Qed.

  Lemma known_transfer r o : known V RT R r o ->
    (outP r o /\ known V' RT' R r o) \/ ((r <= rd)%nat /\ inSub r o /\ known V' RT' R (S r) (upo r o)).
  Proof.
    intros Hk. induction Hk as [r o h Hv Hh|r o Hk0 IH Hn].
    - destruct (inReg_dec r o) as [Hin|Hout].
      + destruct (HL_reg _ _ _ _ Hv Hin) as [Hs|[Hd|Hx]].
        * right. pose proof (HS_in _ _ _ _ Hs) as Hs'. split; [exact (proj1 Hs')|]. split; [exact Hs'|].
          exact (kn_leaf _ _ _ _ _ h (HS_up _ _ _ _ Hs) Hh).
        * exfalso. exact (HDel_leaf _ _ _ Hv Hd Hh).
        * exfalso. exact (HXn_inner _ _ _ Hx Hv).
      + left. split; [left; exact Hout|]. exact (kn_leaf _ _ _ _ _ h (HO_leaf _ _ _ Hv Hout) Hh).
    - destruct IH as [[Ho Hk']|(Hr & Hs & Hk')].
      + left. split; [left; exact (outP_parent r o Ho)|]. apply kn_up; [exact Hk'|].
        intros C. apply Hn. destruct Ho as [Ho|[-> ->]]; [exact (HRT_out _ _ Ho C)|].
        destruct (HRT_P C) as [C'|C']; [exact C'|].
        destruct (known_V H V RT R T HV _ _ Hk0) as (h0 & l0 & Hv0). destruct (C' _ _ Hv0).
      + destruct (Nat.eq_dec r rd) as [->|Hne].
        * left. apply (sub_root T rd od HT Hrd Hod) in Hs. subst o.
          rewrite (upo_root rd od) in Hk'. rewrite (sbo_div2 od).
          split; [right; auto|exact Hk'].
        * right. destruct (sub_parent T rd od HT Hrd Hod r o Hs ltac:(lia)) as [A B].
          split; [lia|]. split; [exact A|]. rewrite B. apply kn_up; [exact Hk'|].
          apply HRT_sub; [lia|exact Hs].
  Qed.

  Theorem pulldown_WInvX : WInvX V RT R T (fun r o => X r o \/ Xn r o \/ inDel r o) nd2 ca2.
  Proof.
    constructor.
    - exact F_nodup.
    - (* truth *)
      intros p h b Hin. apply (nodes_get_In_iff H _ _ _ F_nodup) in Hin.
      destruct (F_back p (h, b) Hin) as [(r & o & Hr & Hs & -> & Ea)|[E0 Hout]].
      + destruct (adj0_some _ _ Ea) as ([h0 fl] & E0 & Eh). cbn [fst] in Eh. subst h0.
        destruct (up_stored r o h fl Hs E0) as [l Hv]. destruct (sub_valid r o Hs) as [A B].
        exists r, o. repeat split; try assumption. right. exists l. exact (HS_low _ _ _ _ Hv).
      + destruct (w_true W' _ _ _ (nodes_get_In H _ _ _ E0)) as (r & o & -> & A & B & [C|(l & Hv)]).
        * exists r, o. repeat split; try assumption. left. left. exact C.
        * exists r, o. repeat split; try assumption.
          assert (Hn : ~ inReg r o) by (intros C; exact (Hout r o C eq_refl)).
          destruct (HO_ul _ _ _ _ Hv Hn) as [Hv'|Hx]; [right; exists l; exact Hv'|left; right; left; exact Hx].
    - intros h. rewrite F_keys. exact (w_cR W' h).
    - (* the cached positions *)
      intros h p Hin. destruct (F_ca h p Hin) as [(r & o & fl & Hr & Hs & E0 & -> & Hk)|[Hin0 Hno]].
      + destruct (up_stored r o h fl Hs E0) as [l Hv]. exists r, o. split; [|reflexivity].
        destruct l; [exact (HS_low _ _ _ _ Hv)|]. exfalso.
        apply (Hsep _ _ _ (HS_up _ _ _ _ Hv)). apply (w_cR W'). exact Hk.
      + destruct (w_cpos W' _ _ Hin0) as (r1 & o1 & Hv & ->). exists r1, o1. split; [|reflexivity].
        assert (HhR : In h R) by (apply (w_cR W'); apply in_map_iff; exists (h, gp T r1 o1); auto).
        destruct (inReg_dec r1 o1) as [Hreg|Hout]; [exfalso|destruct (HO_ul _ _ _ _ Hv Hout) as [A|A]; [exact A|destruct (HXn_inner' _ _ _ A Hout Hv)]].
        destruct (HU_reg _ _ _ _ Hv Hreg) as (r & o & Hs & -> & ->).
        pose proof (HS_in _ _ _ _ Hs) as Hs'.
        apply (Hno r o true (proj1 Hs') Hs').
        apply (w_tgt W' _ _ _ Hv HhR). intros C. exact (HX_leaf _ _ _ C Hv HhR).
    - (* the remembered leaves *)
      intros r o h Hv Hh HnX. destruct (inReg_dec r o) as [Hreg|Hout].
      + destruct (HL_reg _ _ _ _ Hv Hreg) as [Hs|[Hd|Hx]]; [|exfalso; apply HnX; auto|exfalso; apply HnX; auto].
        pose proof (HS_in _ _ _ _ Hs) as Hs'. rewrite (F_sub r o (proj1 Hs') Hs').
        pose proof (HS_up _ _ _ _ Hs) as Hv'.
        rewrite (w_tgt W' _ _ _ Hv' Hh ltac:(intros C; exact (HX_leaf _ _ _ C Hv' Hh))).
        cbn. unfold adjv. cbn [fst snd]. destruct (cached_has HO ca0 h || full); reflexivity.
      + destruct (v_valid HV Hv) as [A B]. rewrite F_out.
        * pose proof (HO_leaf _ _ _ Hv Hout) as Hv'.
          apply (w_tgt W' _ _ _ Hv' Hh). intros C. exact (HX_leaf _ _ _ C Hv' Hh).
        * intros r' o' Hreg'. exact (out_ne T rd od HT Hrd Hod r o r' o' A B Hout Hreg').
    - (* the siblings *)
      intros r o Hk Hn h l Hv HnX. destruct (known_transfer r o Hk) as [[Ho Hk']|(Hr & Hs & Hk')].
      + (* outside the region, or the parent *)
        assert (Hsout : ~ inReg r (N.lxor o 1)).
        { intros C. destruct (HL_reg _ _ _ _ Hv C) as [Hs|[Hd|Hx]]; [| |apply HnX; auto].
          - pose proof (HS_in _ _ _ _ Hs) as [Hr' _].
            destruct (reg_sib T rd od HT Hrd Hod r o C) as [C'|[C' _]]; [|lia].
            destruct Ho as [Ho|[-> _]]; [exact (Ho C')|lia].
          - apply HnX; auto. }
        destruct (v_valid HV Hv) as [A B]. rewrite F_out.
        2:{ intros r' o' Hreg'. exact (out_ne T rd od HT Hrd Hod _ _ r' o' A B Hsout Hreg'). }
        assert (HnXn : ~ Xn r (N.lxor o 1)) by (intros C; apply HnX; auto).
        apply (w_sibs W' r o Hk') with (h := h) (l := l).
        * intros C. apply Hn. destruct Ho as [Ho|[-> ->]]; [exact (HRT_out _ _ Ho C)|].
          destruct (HRT_P C) as [C'|C']; [exact C'|].
          destruct (known_V H V RT R T HV _ _ Hk) as (h0 & l0 & Hv0). destruct (C' _ _ Hv0).
        * exact (HO_lu _ _ _ _ Hv Hsout HnXn).
        * intros C. apply HnX. auto.
      + destruct (Nat.eq_dec r rd) as [->|Hne].
        * exfalso. apply (sub_root T rd od HT Hrd Hod) in Hs. subst o. apply HnX. right. right.
          rewrite pps_lxor_invol. apply (del_root T rd od HT Hrd Hod). reflexivity.
        * destruct (sub_sib T rd od HT Hrd Hod r o Hs ltac:(lia)) as [Hs2 Eu].
          rewrite (F_sub _ _ Hr Hs2), Eu.
          assert (Hvs : Vsub r (N.lxor o 1) h l).
          { destruct (HL_reg _ _ _ _ Hv (sub_reg T rd od HT Hrd Hod _ _ Hs2)) as [A|[A|A]]; [exact A| |].
            - destruct (sub_del_excl T rd od HT Hrd Hod _ _ Hs2 A).
            - exfalso. apply HnX. auto. }
          pose proof (HS_up _ _ _ _ Hvs) as Hv'. rewrite Eu in Hv'.
          assert (Hst : nodes_get nd0 (gp T (S r) (N.lxor (upo r o) 1)) <> None).
          { apply (w_sibs W' (S r) (upo r o) Hk') with (h := h) (l := l).
            - apply HRT_sub; [lia|exact Hs].
            - exact Hv'.
            - intros C. destruct (HX_out _ _ C) as [C'|[C' _]]; [|lia].
              apply C'. rewrite <- Eu. exact (upo_reg T rd od HT Hrd Hod _ _ Hs2). }
          destruct (nodes_get nd0 (gp T (S r) (N.lxor (upo r o) 1))); [cbn; discriminate|congruence].
  Qed.
  End Final.

  (** ** [placeEmptyRoot] when nothing is stored at the parent ([undoSingleAdd]) *)
  Hypothesis Hne_sub : forall r o h l, Vsub r o h l -> op_eqb HO h (op_empty HO) = false.

  Lemma reg_stored r o v : inReg r o -> (r <= rd)%nat -> nodes_get nd0 (gp T r o) = Some v ->
    exists r1 o1 l, Vsub r1 o1 (fst v) l /\ r = S r1 /\ o = upo r1 o1.
  Proof.
    intros Hreg Hr E. destruct v as [h fl]. destruct (regG_valid T rd od HT Hrd Hod r o Hreg) as [A B].
    destruct (w_true W' _ _ _ (nodes_get_In H _ _ _ E)) as (r1 & o1 & Ep & A1 & B1 & [C|(l & Hv)]);
      destruct (gp_inj T _ _ _ _ A B A1 B1 Ep) as [<- <-].
    - exfalso. destruct (HX_out _ _ C) as [C'|[C' _]]; [exact (C' Hreg)|lia].
    - destruct (HU_reg _ _ _ _ Hv Hreg) as (r2 & o2 & Hs & Er & Eo). exists r2, o2, l. auto.
  Qed.

  Theorem pullA : nodes_get nd0 (gp T (S rd) q) = None ->
    exists nd2 ca2, placeEmptyRoot HO T full (gp T rd od) (nd0, ca0) = ((nd2, ca2), true) /\
      WInvX V RT R T (fun r o => X r o \/ Xn r o \/ inDel r o) nd2 ca2 /\
      (forall r o, inReg r o -> ~ inSub r o -> nodes_get nd2 (gp T r o) = None).
  Proof.
    intros HP0.
    destruct (placeEmptyRoot_coords H HO HOK full T rd od HT Hrd Hod nd0 ca0) as ([nd2 ca2] & E & C).
    { intros r o v Hr1 Hr Hreg Ev. destruct (reg_stored r o v Hreg Hr Ev) as (r1 & o1 & l & Hs & _).
      exact (Hne_sub _ _ _ _ Hs). }
    { intros o Hreg. destruct (nodes_get nd0 (gp T 0 o)) as [v|] eqn:Ev; [exfalso|reflexivity].
      destruct (reg_stored 0%nat o v Hreg ltac:(lia) Ev) as (r1 & o1 & l & _ & Er & _). lia. }
    cbn [fst snd] in C. exists nd2, ca2. split; [exact E|].
    assert (EP : upo rd sbo = q) by apply upo_root.
    assert (HPne : forall r o, (r <= rd)%nat -> inReg r o -> gp T (S rd) q <> gp T r o).
    { intros r o Hr Hreg Ep. destruct (regG_valid T rd od HT Hrd Hod r o Hreg) as [A B].
      destruct (regG_valid T rd od HT Hrd Hod _ _ (P_reg T rd od HT Hrd Hod)) as [A' B'].
      destruct (gp_inj T _ _ _ _ A' B' A B Ep) as [Er _]. lia. }
    assert (F_sub : forall r o, (r <= rd)%nat -> inSub r o ->
              nodes_get nd2 (gp T r o) = adj0 (nodes_get nd0 (gp T (S r) (upo r o)))).
    { intros r o Hr Hs. destruct (Nat.eq_dec r rd) as [->|Hne]; [|apply (pc_sub C); [lia|exact Hs]].
      apply (sub_root T rd od HT Hrd Hod) in Hs. subst o. rewrite EP, HP0. exact (pc_sibroot C). }
    split; [|].
    - apply pulldown_WInvX.
      + exact (pc_nodup C (w_nodup W')).
      + exact F_sub.
      + intros p v Ev. destruct (pc_back C p Ev) as [(r & o & Hr & Hs & Ep & Ea)|[E0 Hno]].
        * left. exists r, o. split; [lia|auto].
        * right. split; [exact E0|]. intros r o Hreg Ep. destruct (Nat.eq_dec r (S rd)) as [->|Hne].
          -- apply (regG_cases T rd od HT Hrd Hod) in Hreg as [[_ ->]|[[A _]|[A _]]]; [|lia|lia].
             rewrite Ep, HP0 in E0. discriminate.
          -- apply (Hno r o); [destruct Hreg; lia|exact Hreg|exact Ep].
      + intros p Hp. apply (pc_out C). intros r o _ Hreg. exact (Hp r o Hreg).
      + exact (pc_keys C).
      + intros h p Hin. destruct (pc_ca C h p Hin) as [(r & o & fl & Hr & Hs & E0 & Ep & Hk)|[Hin0 Hno]].
        * left. exists r, o, fl. split; [lia|auto].
        * right. split; [exact Hin0|]. intros r o fl Hr Hs. destruct (Nat.eq_dec r rd) as [->|Hne].
          -- apply (sub_root T rd od HT Hrd Hod) in Hs. subst o. rewrite EP, HP0. discriminate.
          -- apply Hno; [lia|exact Hs].
    - intros r o Hreg Hns. apply (regG_cases T rd od HT Hrd Hod) in Hreg as [[-> ->]|[A|A]]; [|contradiction|].
      + rewrite (pc_out C); [exact HP0|]. intros r o Hr Hreg. exact (HPne r o Hr Hreg).
      + exact (pc_del C A).
  Qed.

  (** ** [placeEmptyRoot], then the node on the parent position is moved down to the sibling
         ([undoDeletion]) *)
  Definition pmove (st1 : maps H) : maps H :=
    match nodes_get (fst st1) (gp T (S rd) q) with
    | Some v =>
        (nodes_put (gp T rd sbo) (fst v, if cached_has HO (snd st1) (fst v) || full then true else snd v)
                   (nodes_del (gp T (S rd) q) (fst st1)),
         if cached_has HO (snd st1) (fst v) then cached_put HO (fst v) (gp T rd sbo) (snd st1) else snd st1)
    | None => st1
    end.

  Theorem pullB : ~ X (S rd) q ->
    exists st1, placeEmptyRoot HO T full (gp T rd od) (nd0, ca0) = (st1, true) /\
      WInvX V RT R T (fun r o => X r o \/ Xn r o \/ inDel r o) (fst (pmove st1)) (snd (pmove st1)).
  Proof.
    intros HnXP.
    destruct (placeEmptyRoot_coords H HO HOK full T rd od HT Hrd Hod nd0 ca0) as ([nd1 ca1] & E & C).
    { intros r o v Hr1 Hr Hreg Ev. destruct (reg_stored r o v Hreg Hr Ev) as (r1 & o1 & l & Hs & _).
      exact (Hne_sub _ _ _ _ Hs). }
    { intros o Hreg. destruct (nodes_get nd0 (gp T 0 o)) as [v|] eqn:Ev; [exfalso|reflexivity].
      destruct (reg_stored 0%nat o v Hreg ltac:(lia) Ev) as (r1 & o1 & l & _ & Er & _). lia. }
    cbn [fst snd] in C. exists (nd1, ca1). split; [exact E|].
    assert (EP : upo rd sbo = q) by apply upo_root.
    destruct (regG_valid T rd od HT Hrd Hod _ _ (P_reg T rd od HT Hrd Hod)) as [VP1 VP2].
    assert (Hsr : inSub rd sbo) by (apply (sub_root T rd od HT Hrd Hod); reflexivity).
    destruct (sub_valid rd sbo Hsr) as [VS1 VS2].
    assert (HPne : forall r o, (r <= rd)%nat -> inReg r o -> gp T (S rd) q <> gp T r o).
    { intros r o Hr Hreg Ep. destruct (regG_valid T rd od HT Hrd Hod r o Hreg) as [A B].
      destruct (gp_inj T _ _ _ _ VP1 VP2 A B Ep) as [Er _]. lia. }
    assert (E1P : nodes_get nd1 (gp T (S rd) q) = nodes_get nd0 (gp T (S rd) q)).
    { apply (pc_out C). intros r o Hr Hreg. exact (HPne r o Hr Hreg). }
    assert (Hadj : forall v, adjv H HO full ca1 v = adjv H HO full ca0 v).
    { intros v. apply (adjv_ext H HO HOK full). exact (pc_keys C). }
    assert (Hhas : forall h, cached_has HO ca1 h = true <-> In h (map fst ca0)).
    { intros h. rewrite (cached_has_true H HO HOK). apply (pc_keys C). }
    unfold pmove. cbn [fst snd]. rewrite E1P.
    assert (Hcase : {vP | nodes_get nd0 (gp T (S rd) q) = Some vP} + {nodes_get nd0 (gp T (S rd) q) = None}).
    { destruct (nodes_get nd0 (gp T (S rd) q)) as [vP|]; [left; exists vP; reflexivity|right; reflexivity]. }
    destruct Hcase as [[vP EvP]|EvP]; rewrite EvP; cbn [fst snd].
    - (* the parent position is stored: it moves to the position of the sibling *)
      set (nd2 := nodes_put (gp T rd sbo) (fst vP, if cached_has HO ca1 (fst vP) || full then true else snd vP)
                            (nodes_del (gp T (S rd) q) nd1)).
      set (ca2 := if cached_has HO ca1 (fst vP) then cached_put HO (fst vP) (gp T rd sbo) ca1 else ca1).
      assert (Eg : forall p, nodes_get nd2 p = if p =? gp T rd sbo then Some (adjv H HO full ca0 vP)
                                               else if p =? gp T (S rd) q then None else nodes_get nd1 p).
      { intros p. unfold nd2. rewrite nodes_get_put, nodes_get_del. destruct (p =? gp T rd sbo); [|reflexivity].
        f_equal. rewrite <- Hadj. reflexivity. }
      assert (Hsne : forall r o, (r < rd)%nat -> inSub r o -> gp T r o <> gp T rd sbo /\ gp T r o <> gp T (S rd) q).
      { intros r o Hr Hs. destruct (sub_valid r o Hs) as [A B]. split; intros Ep.
        - destruct (gp_inj T _ _ _ _ A B VS1 VS2 Ep). lia.
        - destruct (gp_inj T _ _ _ _ A B VP1 VP2 Ep). lia. }
      apply pulldown_WInvX.
      + unfold nd2. apply NoDup_nodes_put, NoDup_nodes_del, (pc_nodup C (w_nodup W')).
      + intros r o Hr Hs. rewrite Eg. destruct (Nat.eq_dec r rd) as [->|Hne].
        * apply (sub_root T rd od HT Hrd Hod) in Hs. subst o. rewrite N.eqb_refl, EP, EvP. reflexivity.
        * destruct (Hsne r o ltac:(lia) Hs) as [A B].
          destruct (N.eqb_spec (gp T r o) (gp T rd sbo)); [contradiction|].
          destruct (N.eqb_spec (gp T r o) (gp T (S rd) q)); [contradiction|].
          apply (pc_sub C); [lia|exact Hs].
      + intros p v Ev. rewrite Eg in Ev. destruct (N.eqb_spec p (gp T rd sbo)) as [->|Hn1].
        * left. exists rd, sbo. split; [lia|]. split; [exact Hsr|]. split; [reflexivity|]. rewrite EP, EvP. exact Ev.
        * destruct (N.eqb_spec p (gp T (S rd) q)) as [->|Hn2]; [discriminate|].
          destruct (pc_back C p Ev) as [(r & o & Hr & Hs & Ep & Ea)|[E0 Hno]].
          -- left. exists r, o. split; [lia|auto].
          -- right. split; [exact E0|]. intros r o Hreg Ep. destruct (Nat.eq_dec r (S rd)) as [->|Hne].
             ++ apply (regG_cases T rd od HT Hrd Hod) in Hreg as [[_ ->]|[[A _]|[A _]]]; [|lia|lia]. contradiction.
             ++ apply (Hno r o); [destruct Hreg; lia|exact Hreg|exact Ep].
      + intros p Hp. rewrite Eg.
        destruct (N.eqb_spec p (gp T rd sbo)) as [->|_]; [exfalso; exact (Hp _ _ (sub_reg T rd od HT Hrd Hod _ _ Hsr) eq_refl)|].
        destruct (N.eqb_spec p (gp T (S rd) q)) as [->|_]; [exfalso; exact (Hp _ _ (P_reg T rd od HT Hrd Hod) eq_refl)|].
        apply (pc_out C). intros r o _ Hreg. exact (Hp r o Hreg).
      + intros h. unfold ca2. destruct (cached_has HO ca1 (fst vP)) eqn:Eh; [|exact (pc_keys C h)].
        rewrite (keys_cached_put H HO HOK), (pc_keys C h). apply Hhas in Eh. split; [intros [->|A]; assumption|auto].
      + intros h p Hin. unfold ca2 in Hin. destruct (cached_has HO ca1 (fst vP)) eqn:Eh.
        * apply (In_cached_put H HO HOK) in Hin as [[-> ->]|[Hne Hin]].
          -- left. exists rd, sbo, (snd vP). split; [lia|]. split; [exact Hsr|]. rewrite EP, EvP.
             split; [destruct vP; reflexivity|]. split; [reflexivity|apply Hhas, Eh].
          -- destruct (pc_ca C h p Hin) as [(r & o & fl & Hr & Hs & E0 & Ep & Hk)|[Hin0 Hno]].
             ++ left. exists r, o, fl. split; [lia|auto].
             ++ right. split; [exact Hin0|]. intros r o fl Hr Hs. destruct (Nat.eq_dec r rd) as [->|Hne'].
                ** apply (sub_root T rd od HT Hrd Hod) in Hs. subst o. rewrite EP, EvP. intros Ev. apply Hne.
                   injection Ev as Ev. rewrite Ev. reflexivity.
                ** apply Hno; [lia|exact Hs].
        * destruct (pc_ca C h p Hin) as [(r & o & fl & Hr & Hs & E0 & Ep & Hk)|[Hin0 Hno]].
          -- left. exists r, o, fl. split; [lia|auto].
          -- right. split; [exact Hin0|]. intros r o fl Hr Hs. destruct (Nat.eq_dec r rd) as [->|Hne'].
             ++ apply (sub_root T rd od HT Hrd Hod) in Hs. subst o. rewrite EP, EvP. intros Ev.
                assert (Hk : In h (map fst ca0)) by (apply in_map_iff; exists (h, p); auto).
                apply Hhas in Hk. injection Ev as Ev. rewrite Ev in Eh. cbn [fst] in Eh. congruence.
             ++ apply Hno; [lia|exact Hs].
    - (* nothing on the parent position *)
      assert (F_sub : forall r o, (r <= rd)%nat -> inSub r o ->
                nodes_get nd1 (gp T r o) = adj0 (nodes_get nd0 (gp T (S r) (upo r o)))).
      { intros r o Hr Hs. destruct (Nat.eq_dec r rd) as [->|Hne]; [|apply (pc_sub C); [lia|exact Hs]].
        apply (sub_root T rd od HT Hrd Hod) in Hs. subst o. rewrite EP, EvP. exact (pc_sibroot C). }
      apply pulldown_WInvX.
      + exact (pc_nodup C (w_nodup W')).
      + exact F_sub.
      + intros p v Ev. destruct (pc_back C p Ev) as [(r & o & Hr & Hs & Ep & Ea)|[E0 Hno]].
        * left. exists r, o. split; [lia|auto].
        * right. split; [exact E0|]. intros r o Hreg Ep. destruct (Nat.eq_dec r (S rd)) as [->|Hne].
          -- apply (regG_cases T rd od HT Hrd Hod) in Hreg as [[_ ->]|[[A _]|[A _]]]; [|lia|lia].
             rewrite Ep, EvP in E0. discriminate.
          -- apply (Hno r o); [destruct Hreg; lia|exact Hreg|exact Ep].
      + intros p Hp. apply (pc_out C). intros r o _ Hreg. exact (Hp r o Hreg).
      + exact (pc_keys C).
      + intros h p Hin. destruct (pc_ca C h p Hin) as [(r & o & fl & Hr & Hs & E0 & Ep & Hk)|[Hin0 Hno]].
        * left. exists r, o, fl. split; [lia|auto].
        * right. split; [exact Hin0|]. intros r o fl Hr Hs. destruct (Nat.eq_dec r rd) as [->|Hne].
          -- apply (sub_root T rd od HT Hrd Hod) in Hs. subst o. rewrite EP, EvP. discriminate.
          -- apply Hno; [lia|exact Hs].
  Qed.
End PullDown.
(** * Part 6: a node of the view that is exempt and not stored is dropped from the view *)
Section Shrink.
  Variable H : Type.
  Variable HO : ops H.

  Lemma WInvX_shrink (V' V : nat -> N -> H -> bool -> Prop) (RT' RT : nat -> N -> Prop) R T
        (X : nat -> N -> Prop) nd ca r0 o0 hP lP :
    Vok V RT T ->
    (forall r o h l, V' r o h l <-> V r o h l \/ (r = r0 /\ o = o0 /\ h = hP /\ l = lP)) ->
    (forall r o, RT' r o -> RT r o \/ (r = r0 /\ o = o0)) ->
    (forall h l, ~ V r0 o0 h l) ->
    (lP = true -> ~ In hP R) ->
    X r0 o0 ->
    WInvX V' RT' R T X nd ca -> WInvX V RT R T X nd ca.
  Proof.
    intros K HVd HRT HnP HlP HX0 W.
    assert (HnR : forall r o, known V RT R r o -> RT' r o -> RT r o).
    { intros r o Hk C. destruct (HRT _ _ C) as [C'|[-> ->]]; [exact C'|].
      destruct (known_V H V RT R T K _ _ Hk) as (h & l & Hv). destruct (HnP _ _ Hv). }
    assert (Hkn : forall r o, known V RT R r o -> known V' RT' R r o).
    { intros r o Hk. induction Hk as [r o h Hv Hh|r o Hk IH Hn].
      - apply (kn_leaf _ _ _ _ _ h); [apply HVd; left; exact Hv|exact Hh].
      - apply kn_up; [exact IH|]. intros C. exact (Hn (HnR _ _ Hk C)). }
    constructor.
    - exact (w_nodup W).
    - intros p h b Hin. destruct (w_true W _ _ _ Hin) as (r & o & Ep & A & B & [C|(l & Hv)]);
        exists r, o; repeat split; auto.
      apply HVd in Hv as [Hv|(-> & -> & _)]; [right; exists l; exact Hv|left; exact HX0].
    - exact (w_cR W).
    - intros h p Hin. destruct (w_cpos W _ _ Hin) as (r & o & Hv & Ep). exists r, o. split; [|exact Ep].
      apply HVd in Hv as [Hv|(_ & _ & -> & El)]; [exact Hv|]. exfalso. apply (HlP (eq_sym El)).
      apply (w_cR W). apply in_map_iff. exists (hP, p). auto.
    - intros r o h Hv Hh Hn. apply (w_tgt W _ _ _ ltac:(apply HVd; left; exact Hv) Hh Hn).
    - intros r o Hk Hn h l Hv HnX. apply (w_sibs W r o (Hkn _ _ Hk)) with (h := h) (l := l).
      + intros C. exact (Hn (HnR _ _ Hk C)).
      + apply HVd. left. exact Hv.
      + exact HnX.
  Qed.
End Shrink.
(** * Part 7: one [undoSingleAdd]: from the forest of [s ++ [Some a]] back to the forest of [s] *)

(** the regions of Part 3 for a deleted position that is a left child are those of Proofs/MapMutAdd.v *)
Lemma lxor_2q q : N.lxor (2 * q) 1 = 2 * q + 1.
Proof. rewrite lxor_1, N.even_mul. reflexivity. Qed.
Lemma div2_2q q : 2 * q / 2 = q.
Proof. apply pps_div2_double. Qed.

Lemma inSubG_left h q r o : inSubG h (2 * q) r o <-> inSub h q r o.
Proof. unfold inSubG, inSub. rewrite lxor_2q. split; intros [A B]; (split; [exact A|lia]). Qed.
Lemma inDelG_left h q r o : inDelG h (2 * q) r o <-> belowD h q r o.
Proof. unfold inDelG, belowD. reflexivity. Qed.
Lemma inRegG_left h q r o : inRegG h (2 * q) r o <-> inReg' h q r o.
Proof. unfold inRegG, inReg'. rewrite div2_2q. reflexivity. Qed.

(** the lowest set bit *)
Lemma lowbit_ex : forall m, 0 < m -> exists j u, m = (2 * u + 1) * p2 j.
Proof.
  intros m. induction m as [m IH] using (well_founded_induction N.lt_wf_0). intros Hm.
  pose proof (N.div_mod' m 2) as Hdm. assert (Hr : m mod 2 < 2) by (apply N.mod_lt; lia).
  assert (m mod 2 = 0 \/ m mod 2 = 1) as [E|E] by lia.
  - destruct (IH (m / 2) ltac:(lia) ltac:(lia)) as (j & u & Eu). exists (S j), u. rewrite p2_S. lia.
  - exists 0%nat, (m / 2). rewrite p2_0. lia.
Qed.

Section Kinds.
  Variable H : Type.
  Variable HO : ops H.
  Notation hash2 := (op_hash2 HO).
  Notation empty := (op_empty HO).

  Lemma tnodes_kind (c : ctree H) hh l : cwf H HO c -> In (hh, l) (tnodes H c) ->
    (l = true /\ In hh (cleaves H c)) \/ (l = false /\ exists x y, hh = hash2 x y).
  Proof.
    induction c as [h|h cl IHl cr IHr]; intros Hwf Hin; cbn [tnodes cleaves cwf] in *.
    - destruct Hin as [E|[]]. injection E as <- <-. left. split; [reflexivity|left; reflexivity].
    - destruct Hwf as (Eh & Wl & Wr). destruct Hin as [E|Hin].
      + injection E as <- <-. right. split; [reflexivity|]. eauto.
      + apply in_app_or in Hin as [Hin|Hin]; [destruct (IHl Wl Hin) as [[A B]|C]|destruct (IHr Wr Hin) as [[A B]|C]];
          try (right; exact C); left; (split; [exact A|apply in_or_app; auto]).
  Qed.

  (** the nodes of a view of compressed trees *)
  Lemma Vent_kind (F : list (nat * N * option (ctree H))) (P : H -> Prop) r o hh l :
    (forall k lo c, In (k, lo, Some c) F -> cwf H HO c /\ forall x, In x (cleaves H c) -> P x) ->
    Vent HO F r o hh l ->
    (l = true /\ P hh) \/ (l = false /\ (hh = empty \/ exists x y, hh = hash2 x y)).
  Proof.
    intros HF ([[k lo] t] & x & He & Hx & _ & _ & <- & <-). cbn [place_entry] in Hx. destruct t as [c|].
    - destruct (HF _ _ _ He) as [Wc Pc]. pose proof (place_tree_tnodes H c _ _ _ _ x Hx) as Hin.
      destruct (tnodes_kind c _ _ Wc Hin) as [[A B]|[A B]]; [left; split; [exact A|exact (Pc _ B)]|right; auto].
    - destruct Hx as [<-|[]]. right. cbn. auto.
  Qed.
End Kinds.

Section RemoveEx.
  Variable H : Type.
  Variable HO : ops H.
  Hypothesis HOK : ops_ok HO.
  Lemma list_remove_ex (hh : H) (R : list H) : exists R', forall h, In h R' <-> In h R /\ h <> hh.
  Proof.
    exists (filter (fun h => negb (op_eqb HO h hh)) R). intros h. rewrite filter_In. split.
    - intros [A B]. split; [exact A|]. intros ->. rewrite (Heqb_refl H HO HOK) in B. discriminate.
    - intros [A B]. split; [exact A|]. rewrite (Heqb_neq H HO HOK h hh B). reflexivity.
  Qed.
End RemoveEx.

(** [getLowestRoot] *)
Lemma glr_loop_spec m T j : forall fuel row, row <= j -> j <= T -> T <= 63 -> (N.to_nat (j - row) < fuel)%nat ->
  (forall i, row <= i -> i < j -> N.testbit m i = false) -> N.testbit m j = true ->
  glr_loop fuel m row T = j.
Proof.
  induction fuel as [|f IH]; intros row Hr Hj HT Hf Hlow Hb; [lia|]. cbn [glr_loop].
  destruct (N.ltb_spec T row) as [C|_]; [lia|].
  unfold getLowestRoot_step, and64. rewrite shl_1 by lia. rewrite land_pow2_eqb, Bool.negb_involutive.
  destruct (N.eq_dec row j) as [->|Hne].
  - rewrite Hb. reflexivity.
  - rewrite (Hlow row ltac:(lia) ltac:(lia)). rewrite add8_small by lia.
    apply IH; try lia. intros i A B. apply Hlow; lia.
Qed.
Section UndoOne.
  Variable H : Type.
  Variable HO : ops H.
  Hypothesis HOK : ops_ok HO.
  Notation hash2 := (op_hash2 HO).
  Notation empty := (op_empty HO).
  Notation Heqb := (op_eqb HO).
  Hypothesis Hh2 : forall x y, Heqb (hash2 x y) empty = false.
  Variable full : bool.
  Variable T : N.
  Hypothesis HT : T <= 63.
  Variables (s : slots H) (a : H).
  Notation n := (N.of_nat (length s)).
  Notation s' := (s ++ [Some a]).
  Hypothesis HnT : n + 1 <= 2 ^ T.
  Hypothesis Hlv : forall h, In (Some h) s' -> Heqb h empty = false /\ forall x y, h <> hash2 x y.
  Notation nodemap := (list (N * (H * bool))).
  Notation cachemap := (list (H * N)).
  Notation VF h := (Vent HO (Fh HO s a h)).
  Notation RF h := (RTent (Fh HO s a h)).

  Lemma VF_ok h : al s h -> Vok (VF h) (RF h) T.
  Proof. intros Ha. apply Vent_ok; [apply Fh_ewf; assumption|exact HT]. Qed.

  Lemma Fh_trees h k lo c : In (k, lo, Some c) (Fh HO s a h) ->
    cwf H HO c /\ forall x, In x (cleaves H c) -> In (Some x) s'.
  Proof.
    intros He. apply In_Fh in He as [He|E].
    - apply In_Fold in He as [He _]. pose proof (forest_entry H HO s _ _ _ He) as (_ & _ & _ & _ & _ & Et).
      symmetry in Et. split; [exact (proj1 (compress_wf H HO _ _ _ Et))|].
      intros x Hx. apply in_or_app. left.
      exact (StumpAddData.forest_leaves_live H HO s (k, lo, Some c) c x He eq_refl Hx).
    - injection E as -> -> Ec. symmetry in Ec. unfold cl in Ec.
      split; [exact (proj1 (compress_wf H HO _ _ _ Ec))|]. intros x Hx.
      pose proof (compress_leaves H HO h (skipn (length s + 1 - 2 ^ h) s')) as Hcl.
      rewrite Ec in Hcl. cbn [oleaves] in Hcl. rewrite Hcl in Hx. apply live_in in Hx.
      exact (in_skipn _ _ _ _ (in_firstn _ _ _ _ Hx)).
  Qed.

  Lemma VF_kind h r o hh l : VF h r o hh l ->
    (l = true /\ In (Some hh) s') \/ (l = false /\ (hh = empty \/ exists x y, hh = hash2 x y)).
  Proof.
    intros Hv. apply (Vent_kind H HO (Fh HO s a h) (fun x => In (Some x) s') r o hh l); [|exact Hv].
    intros k lo c He. exact (Fh_trees h k lo c He).
  Qed.

  Lemma VF_nonemp h r o hh l : VF h r o hh l -> hh <> empty -> Heqb hh empty = false.
  Proof.
    intros Hv Hne. destruct (VF_kind h r o hh l Hv) as [[_ A]|[_ [A|(x & y & ->)]]].
    - exact (proj1 (Hlv _ A)).
    - contradiction.
    - apply Hh2.
  Qed.

  Lemma VF_sep h (R : list H) r o hh : (forall x, In x R -> In (Some x) s') -> VF h r o hh false -> ~ In hh R.
  Proof.
    intros HR Hv Hin. destruct (VF_kind h r o hh false Hv) as [[C _]|[_ [A|(x & y & A)]]]; [discriminate| |].
    - destruct (Hlv _ (HR _ Hin)) as [B _]. subst hh. rewrite (Heqb_refl H HO HOK) in B. discriminate.
    - destruct (Hlv _ (HR _ Hin)) as [_ B]. exact (B x y A).
  Qed.

  (** the nodes of the forest of [s] lie left of slot [n] *)
  Lemma Vs_bound r o hh l : Vent HO (forest HO s) r o hh l -> (o + 1) * p2 r <= n.
  Proof.
    intros ([[k lo] t] & x & He & Hx & <- & <- & _).
    pose proof (forest_entry H HO s _ _ _ He) as (_ & _ & E2 & L1 & _).
    destruct (place_entry_range H HO k lo t _ x E2 Hx) as (_ & _ & A). unfold nhi in A. lia.
  Qed.

  (** the root of the climbing tree *)
  Definition oR (h : nat) : N := Lh s h / p2 h.
  Definition posR (h : nat) : N := gp T h (oR h).

  Lemma root_in_view h C : cl HO s a h = Some C -> VF h h (oR h) (chash C) (cleafb H C).
  Proof.
    intros EC. exists (h, Lh s h, Some C), (head_node H C h (Lh s h / p2 h) true h).
    split; [apply In_Fh; right; rewrite EC; reflexivity|].
    split; [cbn [place_entry]; apply place_tree_head_in|]. cbn. auto.
  Qed.

  Lemma root_leaf_a h hh : al s h -> VF h h (oR h) hh true -> hh = a.
  Proof.
    intros Ha Hv. destruct (cl_some H HO s a h Ha) as [C EC].
    destruct (v_fun (VF_ok h Ha) Hv (root_in_view h C EC)) as [Eh El].
    destruct C as [x|x cl0 cr0]; [|discriminate]. cbn in Eh. subst hh.
    pose proof (cl_has_a H HO s a h _ Ha EC) as Hin. destruct Hin as [E|[]]. exact E.
  Qed.

  Lemma root_is_root h : RF h h (oR h).
  Proof. exists h, (Lh s h), (cl HO s a h). split; [apply In_Fh; right; reflexivity|auto]. Qed.

  Lemma oR_valid h : al s h -> N.of_nat h <= T /\ oR h < 2 ^ (T - N.of_nat h).
  Proof.
    intros Ha. destruct (v_root (VF_ok h Ha) (root_is_root h)) as (hh & l & Hv).
    exact (v_valid (VF_ok h Ha) Hv).
  Qed.

  (** the deletion of the position of the root of the climbing tree *)
  Lemma del_root_step h (nd : nodemap) (ca : cachemap) (Rc : list H) : al s h ->
    (forall x, In x Rc -> In (Some x) s') ->
    WInvX (VF h) (RF h) Rc T noX nd ca ->
    let st1 := match nodes_get nd (posR h) with
               | Some lf => (nodes_del (posR h) nd, cached_del HO (fst lf) ca)
               | None => (nd, ca)
               end in
    exists Rc1, WInvX (VF h) (RF h) Rc1 T (fun r o => r = h /\ o = oR h) (fst st1) (snd st1) /\
      nodes_get (fst st1) (posR h) = None /\
      (forall x, In x Rc1 -> In x Rc) /\ (forall x, In x Rc -> x <> a -> In x Rc1) /\
      (forall hh, VF h h (oR h) hh true -> ~ In hh Rc1).
  Proof.
    intros Ha HR W. destruct (oR_valid h Ha) as [A B]. pose proof (VF_ok h Ha) as K.
    destruct (nodes_get nd (posR h)) as [[hh b]|] eqn:E; cbn [fst snd].
    - (* stored *)
      assert (Hnode : exists l, VF h h (oR h) hh l).
      { destruct (w_true W _ _ _ (nodes_get_In H _ _ _ E)) as (r & o & Ep & A1 & B1 & [[]|D]).
        destruct (gp_inj T _ _ _ _ A B A1 B1 Ep) as [<- <-]. exact D. }
      destruct Hnode as [l0 Hv0].
      destruct (list_remove_ex H HO HOK hh Rc) as [Rc1 HRc1].
      exists Rc1. split; [|split; [|split; [|split]]].
      + apply (WInvX_ext H (VF h) (VF h) (RF h) (RF h) Rc1 Rc1 T (fun r o => noX r o \/ (r = h /\ o = oR h))).
        * reflexivity.
        * reflexivity.
        * reflexivity.
        * intros r o. cbn. tauto.
        * apply (WInvX_del H HO HOK (VF h) (RF h) Rc Rc1 T noX nd ca h (oR h) hh b K W A B E HRc1).
      + rewrite nodes_get_del, N.eqb_refl. reflexivity.
      + intros x Hx. apply HRc1 in Hx. tauto.
      + intros x Hx Hne. apply HRc1. split; [exact Hx|]. intros ->.
        destruct l0.
        * exact (Hne (root_leaf_a h hh Ha Hv0)).
        * exact (VF_sep h Rc _ _ _ HR Hv0 Hx).
      + intros h2 Hv2 Hin. destruct (v_fun K Hv2 Hv0) as [-> _]. apply HRc1 in Hin. tauto.
    - exists Rc. split; [|split; [|split; [|split]]].
      + apply (WInvX_weaken H (VF h) (RF h) Rc T noX); [intros r o []|exact W].
      + exact E.
      + auto.
      + auto.
      + intros h2 Hv2 Hin. unfold posR in E. rewrite (w_tgt W _ _ _ Hv2 Hin ltac:(intros [])) in E. discriminate.
  Qed.
  (** ** the last step: the added leaf is dropped *)
  Lemma oR_0 : oR 0 = n.
  Proof. unfold oR, Lh. rewrite p2_0, N.div_1_r. lia. Qed.

  Lemma VF0_view r o hh l :
    VF 0 r o hh l <-> Vent HO (forest HO s) r o hh l \/ (r = 0%nat /\ o = n /\ hh = a /\ l = true).
  Proof.
    rewrite (Vent_split H HO (Fh HO s a 0) (forest HO s) [(0%nat, Lh s 0, cl HO s a 0)]).
    2:{ intros e. rewrite In_Fh, In_Fold. cbn [In]. split; [intros [[A _]|A]; auto|intros [A|[A|[]]]; auto].
        left. split; [exact A|lia]. }
    rewrite Vent_single, cl_0. fold (oR 0). rewrite oR_0. unfold Vpt. cbn [place_tree map In pj nrow noff nhash nleaf].
    split; (intros [A|B]; [left; exact A|right]).
    - destruct B as [B|[]]. injection B as <- <- <- <-. auto.
    - destruct B as (-> & -> & -> & ->). left. reflexivity.
  Qed.

  Lemma leaf_step (nd : nodemap) (ca : cachemap) (Rc : list H) :
    WInvX (VF 0) (RF 0) Rc T (fun r o => r = 0%nat /\ o = oR 0) nd ca ->
    nodes_get nd (posR 0) = None -> ~ In a Rc ->
    WInvX (Vlay HO s) (RTlay HO s) Rc T noX nd ca.
  Proof.
    intros W Hnone Ha.
    assert (K : Vok (Vent HO (forest HO s)) (RTent (forest HO s)) T)
      by (apply Vent_ok; [apply forest_ewf; lia|exact HT]).
    assert (HnP : forall hh l, ~ Vent HO (forest HO s) 0 n hh l).
    { intros hh l Hv. apply Vs_bound in Hv. rewrite p2_0 in Hv. lia. }
    apply (WInvX_ext H (Vent HO (forest HO s)) (Vlay HO s) (RTent (forest HO s)) (RTlay HO s) Rc Rc T noX noX).
    - intros r o h l. symmetry. apply Vlay_Vent.
    - intros r o. symmetry. apply RTlay_RTent.
    - reflexivity.
    - reflexivity.
    - apply (WInvX_unexempt H (Vent HO (forest HO s)) (RTent (forest HO s)) Rc T (fun r o => r = 0%nat /\ o = oR 0)).
      + intros r o [-> ->]. right. rewrite oR_0. split; [exact HnP|]. unfold posR in Hnone. rewrite oR_0 in Hnone. exact Hnone.
      + apply (WInvX_shrink H (VF 0) (Vent HO (forest HO s)) (RF 0) (RTent (forest HO s)) Rc T _ nd ca 0%nat (oR 0) a true K).
        * intros r o hh l. rewrite oR_0. apply VF0_view.
        * intros r o Hr. apply (RTent_split H (Fh HO s a 0) (forest HO s) [(0%nat, Lh s 0, cl HO s a 0)]) in Hr.
          2:{ intros e. rewrite In_Fh, In_Fold. cbn [In]. split; [intros [[A _]|A]; auto|intros [A|[A|[]]]; auto].
              left. split; [exact A|lia]. }
          destruct Hr as [Hr|Hr]; [left; exact Hr|right]. apply RTent_single in Hr. exact Hr.
        * rewrite oR_0. exact HnP.
        * intros _. exact Ha.
        * auto.
        * exact W.
  Qed.

  (** ** a step over a root that is not empty: the joined node has been deleted *)
  Lemma stepA_down h' c (nd : nodemap) (ca : cachemap) (Rc : list H) : al s (S h') -> oldt HO s h' = Some c ->
    WInvX (VF (S h')) (RF (S h')) Rc T (fun r o => r = S h' /\ o = oR (S h')) nd ca ->
    nodes_get nd (posR (S h')) = None ->
    WInvX (VF h') (RF h') Rc T noX nd ca.
  Proof.
    intros Ha Ec W Hnone. destruct (al_S_inv H s h' Ha) as [Ha' _].
    destruct (cl_some H HO s a h' Ha') as [C EC].
    destruct (step_coords H s h' Ha) as (E1 & _). fold (oR (S h')) in E1.
    apply (WInvX_unexempt H (VF h') (RF h') Rc T (fun r o => r = S h' /\ o = oR (S h'))).
    - intros r o [-> ->]. right. split; [|exact Hnone]. rewrite E1. intros hh l. apply Vh_free, Ha.
    - apply (WInvX_shrink H (VF (S h')) (VF h') (RF (S h')) (RF h') Rc T _ nd ca (S h') (oR (S h'))
               (hash2 (chash c) (chash C)) false (VF_ok h' Ha')).
      + intros r o hh l. rewrite E1. apply (stepA_view H HO s a h' c C r o hh l Ha Ec EC).
      + intros r o Hr. apply (step_roots_after H HO s a h' r o Ha) in Hr as [Hr|Hr].
        * left. apply (step_roots_before H HO s a h' r o Ha). left. exact Hr.
        * right. rewrite E1. exact Hr.
      + rewrite E1. intros hh l. apply Vh_free, Ha.
      + discriminate.
      + auto.
      + exact W.
  Qed.

  Lemma Vpt_nonemp (C : ctree H) k q r o hh l : cwf H HO C ->
    (forall x, In x (cleaves H C) -> Heqb x empty = false) -> Vpt C k q r o hh l -> Heqb hh empty = false.
  Proof.
    intros Wc Hc Hv. apply Vpt_tnodes in Hv. destruct (tnodes_kind H HO C hh l Wc Hv) as [[_ A]|[_ (x & y & ->)]].
    - exact (Hc _ A).
    - apply Hh2.
  Qed.

  Lemma Fold_root_out h' r o : al s (S h') -> RTent (Fold HO s (S h')) r o -> ~ inReg' h' (n / p2 (S h')) r o.
  Proof.
    intros Ha (k & lo & t & He & -> & ->). destruct (head_in_entry H HO k lo t) as (x & Hx & Er & Eo).
    apply (Fold_out H HO s h' k (lo / p2 k) (nhash x) (nleaf x) Ha).
    exists (k, lo, t), x. repeat split; try assumption; reflexivity.
  Qed.

  (** ** a step over an empty root: the climbing tree is pulled down, the empty root is put back *)
  Lemma stepB_down h' (nd : nodemap) (ca : cachemap) (Rc : list H) : al s (S h') -> oldt HO s h' = None ->
    (forall x, In x Rc -> In (Some x) s') ->
    WInvX (VF (S h')) (RF (S h')) Rc T (fun r o => r = S h' /\ o = oR (S h')) nd ca ->
    nodes_get nd (posR (S h')) = None ->
    (forall hh, VF (S h') (S h') (oR (S h')) hh true -> ~ In hh Rc) ->
    let tp := gp T h' (2 * oR (S h')) in
    exists nd2 ca2, placeEmptyRoot HO T full tp (nd, ca) = ((nd2, ca2), true) /\
      WInvX (VF h') (RF h') Rc T noX (nodes_put tp (empty, true) nd2) ca2.
  Proof.
    intros Ha Ec HR W Hnone HleafP tp. destruct (al_S_inv H s h' Ha) as [Ha' _].
    destruct (cl_some H HO s a h' Ha') as [C EC]. pose proof (cl_height H HO s a h' C EC) as Hc.
    destruct (step_coords H s h' Ha) as (E1 & _). fold (oR (S h')) in E1.
    set (q := n / p2 (S h')) in *. unfold tp. clear tp. unfold posR in Hnone. rewrite E1 in *.
    destruct (oR_valid (S h') Ha) as [A B]. fold (oR (S h')) in B. rewrite E1 in B.
    assert (Hrd : N.of_nat h' < T) by lia.
    assert (Hod : 2 * q < 2 ^ (T - N.of_nat h')).
    { replace (T - N.of_nat h') with (T - N.of_nat (S h') + 1) by lia. rewrite UtilsGeom.pow2_S. lia. }
    pose proof (fun r o hh l => stepB_view_before H HO s a h' C r o hh l Ha Ec EC) as SB.
    pose proof (fun r o hh l => stepB_view_after H HO s a h' C r o hh l Ha Ec EC Hc) as SA.
    fold q in SB, SA.
    assert (Fo : forall r o hh l, Vent HO (Fold HO s (S h')) r o hh l -> ~ inRegG h' (2 * q) r o).
    { intros r o hh l Hv C'. apply (proj1 (inRegG_left h' q r o)) in C'. exact (Fold_out H HO s h' r o hh l Ha Hv C'). }
    assert (Sin : forall r o hh l, Vpt C h' (2 * q + 1) r o hh l -> inSubG h' (2 * q) r o).
    { intros r o hh l Hv. apply (proj2 (inSubG_left h' q r o)). exact (Vpt_in_sub H C h' q r o hh l Hv). }
    assert (Eq2 : 2 * q / 2 = q) by apply div2_2q.
    destruct (Fh_trees h' h' (Lh s h') C ltac:(apply In_Fh; right; rewrite EC; reflexivity)) as [WC LC].
    destruct (pullA H HO HOK full T h' (2 * q) HT Hrd Hod (VF (S h')) (VF h') (Vpt C h' (2 * q + 1))
                (RF (S h')) (RF h') Rc (fun r o => r = S h' /\ o = q) (fun _ _ => False))
      with (nd0 := nd) (ca0 := ca) as (nd2 & ca2 & E & W2 & Hn2).
    - exact (VF_ok h' Ha').
    - exact Sin.
    - intros r o hh l Hv. apply SA. right. exists r, o. auto.
    - intros r o hh l Hv. apply SB. right. right. exact Hv.
    - intros r' o' hh l Hv Hreg. apply SA in Hv as [Hv|(r & o & Hv & -> & ->)]; [destruct (Fo _ _ _ _ Hv Hreg)|].
      exists r, o. auto.
    - intros r o hh l Hv Hreg. apply SB in Hv as [Hv|[(-> & -> & _)|Hv]]; [destruct (Fo _ _ _ _ Hv Hreg)| |left; exact Hv].
      right. left. apply (del_root T h' (2 * q) HT Hrd Hod). reflexivity.
    - intros r o hh l Hv Hout. left. apply SA in Hv as [Hv|(r0 & o0 & Hv & -> & ->)]; [apply SB; left; exact Hv|].
      exfalso. apply Hout. exact (upo_reg T h' (2 * q) HT Hrd Hod _ _ (Sin _ _ _ _ Hv)).
    - intros r o hh l Hv Hout _. apply SB in Hv as [Hv|[(-> & -> & _)|Hv]]; [apply SA; left; exact Hv| |]; exfalso; apply Hout.
      + apply (del_reg T h' (2 * q) HT Hrd Hod). apply (del_root T h' (2 * q) HT Hrd Hod). reflexivity.
      + exact (sub_reg T h' (2 * q) HT Hrd Hod _ _ (Sin _ _ _ _ Hv)).
    - intros r o hh Hv Hout. apply SB in Hv as [Hv|[(_ & _ & _ & C')|Hv]]; [apply SA; left; exact Hv|discriminate|].
      exfalso. apply Hout. exact (sub_reg T h' (2 * q) HT Hrd Hod _ _ (Sin _ _ _ _ Hv)).
    - intros r o hh Hv Hd. apply SB in Hv as [Hv|[(_ & _ & _ & C')|Hv]]; [|discriminate|].
      + destruct (Fo _ _ _ _ Hv (del_reg T h' (2 * q) HT Hrd Hod _ _ Hd)).
      + destruct (sub_del_excl T h' (2 * q) HT Hrd Hod _ _ (Sin _ _ _ _ Hv) Hd).
    - intros r o hh [].
    - intros r o hh [].
    - intros r o Hout Hr. apply (step_roots_after H HO s a h' r o Ha) in Hr as [Hr|[-> ->]].
      + apply (step_roots_before H HO s a h' r o Ha). left. exact Hr.
      + exfalso. apply Hout. fold q. rewrite <- Eq2 at 2. exact (P_reg T h' (2 * q) HT Hrd Hod).
    - intros _. right. rewrite Eq2. intros hh l. apply Vh_free, Ha.
    - intros r o Hr Hs C'. apply (step_roots_after H HO s a h' _ _ Ha) in C' as [C'|[C' _]]; [|lia].
      apply (Fold_root_out h' _ _ Ha) in C'. apply C'. apply (proj1 (inRegG_left h' q _ _)). exact (upo_reg T h' (2 * q) HT Hrd Hod _ _ Hs).
    - intros r o hh Hv. exact (VF_sep (S h') Rc r o hh HR Hv).
    - intros r o [-> ->]. right. rewrite Eq2. auto.
    - intros r o hh [-> ->] Hv. exact (HleafP hh Hv).
    - exact W.
    - intros _. rewrite Eq2. exact Hnone.
    - intros r o hh l Hv. apply (Vpt_nonemp C h' (2 * q + 1) r o hh l WC); [|exact Hv].
      intros x Hx. exact (proj1 (Hlv _ (LC x Hx))).
    - rewrite Eq2. exact Hnone.
    - exists nd2, ca2. split; [exact E|].
      assert (Hroot : VF h' h' (2 * q) empty false) by (apply SB; right; left; auto).
      assert (Vt : N.of_nat h' <= T /\ 2 * q < 2 ^ (T - N.of_nat h')) by (split; [lia|exact Hod]).
      pose proof (WInvX_put H (VF h') (RF h') Rc T _ nd2 ca2 h' (2 * q) empty false true (VF_ok h' Ha') W2 Hroot
                    ltac:(discriminate)) as W3.
      apply (WInvX_unexempt H (VF h') (RF h') Rc T _ noX _ ca2) in W3; [exact W3|].
      intros r o [[[-> ->]|[[]|Hd]] Hnt]; right.
      + (* the parent *)
        split; [intros hh l; apply Vh_free, Ha|]. rewrite nodes_get_put.
        destruct (N.eqb_spec (gp T (S h') q) (gp T h' (2 * q))) as [Ep|_].
        * exfalso. destruct (gp_inj T _ _ _ _ A B (proj1 Vt) (proj2 Vt) Ep). lia.
        * apply Hn2; [rewrite <- Eq2 at 2; exact (P_reg T h' (2 * q) HT Hrd Hod)|]. intros [C' _]. lia.
      + (* strictly below the empty root *)
        assert (Hr : (r < h')%nat).
        { destruct Hd as [Hr Ho]. destruct (Nat.eq_dec r h') as [->|Hne]; [|lia]. exfalso. apply Hnt.
          split; [reflexivity|]. apply (del_root T h' (2 * q) HT Hrd Hod). split; assumption. }
        split.
        * intros hh l Hv. apply SB in Hv as [Hv|[(-> & _)|Hv]]; [|lia|].
          -- exact (Fo _ _ _ _ Hv (del_reg T h' (2 * q) HT Hrd Hod _ _ Hd)).
          -- exact (sub_del_excl T h' (2 * q) HT Hrd Hod _ _ (Sin _ _ _ _ Hv) Hd).
        * rewrite nodes_get_put.
          destruct (regG_valid T h' (2 * q) HT Hrd Hod _ _ (del_reg T h' (2 * q) HT Hrd Hod _ _ Hd)) as [A' B'].
          destruct (N.eqb_spec (gp T r o) (gp T h' (2 * q))) as [Ep|_].
          -- exfalso. destruct (gp_inj T _ _ _ _ A' B' (proj1 Vt) (proj2 Vt) Ep). lia.
          -- apply Hn2; [exact (del_reg T h' (2 * q) HT Hrd Hod _ _ Hd)|].
             intros C'. exact (sub_del_excl T h' (2 * q) HT Hrd Hod _ _ C' Hd).
  Qed.

  (** ** the loop of [undoSingleAdd] *)

  (** the positions of the empty roots of [s] of the rows below [h], highest first *)
  Fixpoint erpl (h : nat) : list N :=
    match h with
    | O => []
    | S h' => (match oldt HO s h' with None => [gp T h' (2 * oR (S h'))] | Some _ => [] end) ++ erpl h'
    end.

  (** an empty root that was written over by an earlier addition lies left of the roots of [s] *)
  Definition staleE (e : N) : Prop := exists r o, e = gp T r o /\ (o + 2) * p2 r <= n.

  Lemma stale_valid r o : (o + 2) * p2 r <= n -> N.of_nat r <= T /\ o < 2 ^ (T - N.of_nat r).
  Proof.
    intros Hs. assert (Hv : (o + 1) * p2 r <= 2 ^ T) by (pose proof (p2_pos r); nia).
    exact (hi_valid T r o Hv).
  Qed.

  Lemma child_coords h' : al s (S h') ->
    let q := oR (S h') in
    N.of_nat h' < T /\ q < 2 ^ (T - N.of_nat h' - 1) /\ q = n / p2 (S h') /\
    RightChild (posR (S h')) T = posR h' /\ LeftChild (posR (S h')) T = gp T h' (2 * q) /\
    (q + 1) * p2 (S h') > n.
  Proof.
    intros Ha q. destruct (oR_valid (S h') Ha) as [A B]. fold q in B.
    destruct (step_coords H s h' Ha) as (E1 & _ & E3 & _). fold (oR (S h')) in E1. fold q in E1.
    fold (oR h') in E3. rewrite <- E1 in E3.
    assert (Hq : q < 2 ^ (T - N.of_nat h' - 1)) by (replace (T - N.of_nat h' - 1) with (T - N.of_nat (S h')) by lia; exact B).
    split; [lia|]. split; [exact Hq|]. split; [exact E1|].
    unfold posR, gp. fold q. replace (N.of_nat (S h')) with (N.of_nat h' + 1) by lia.
    rewrite (RightChild_gpos T (N.of_nat h') q HT ltac:(lia) Hq), (LeftChild_gpos T (N.of_nat h') q HT ltac:(lia) Hq).
    rewrite E3. split; [reflexivity|]. split; [reflexivity|].
    rewrite E1. pose proof (p2_pos (S h')) as Hp.
    pose proof (N.div_mod' n (p2 (S h'))) as Hdm. pose proof (N.mod_lt n (p2 (S h')) ltac:(lia)). nia.
  Qed.

  Lemma erpl_not_row h h' o e : (h <= h')%nat -> al s h -> N.of_nat h' <= T -> o < 2 ^ (T - N.of_nat h') ->
    In e (erpl h) -> e <> gp T h' o.
  Proof.
    induction h as [|h IH]; intros Hle Ha A B Hin; [destruct Hin|].
    destruct (al_S_inv H s h Ha) as [Ha' _]. cbn [erpl] in Hin. apply in_app_or in Hin as [Hin|Hin].
    - destruct (oldt HO s h); [destruct Hin|]. destruct Hin as [<-|[]].
      destruct (child_coords h Ha) as (C1 & C2 & _). intros Ep.
      assert (C3 : 2 * oR (S h) < 2 ^ (T - N.of_nat h)).
      { replace (T - N.of_nat h) with (T - N.of_nat h - 1 + 1) by lia. rewrite UtilsGeom.pow2_S. lia. }
      destruct (gp_inj T h _ h' _ (N.lt_le_incl _ _ C1) C3 A B Ep). lia.
    - apply (IH ltac:(lia) Ha' A B Hin).
  Qed.

  Lemma stale_not_root h' e : al s (S h') -> staleE e -> e <> gp T h' (2 * oR (S h')).
  Proof.
    intros Ha (r & o & -> & Hs) Ep. destruct (stale_valid r o Hs) as [A B].
    destruct (child_coords h' Ha) as (C1 & C2 & _ & _ & _ & C6).
    assert (C3 : 2 * oR (S h') < 2 ^ (T - N.of_nat h')).
    { replace (T - N.of_nat h') with (T - N.of_nat h' - 1 + 1) by lia. rewrite UtilsGeom.pow2_S. lia. }
    destruct (gp_inj T r o h' _ A B (N.lt_le_incl _ _ C1) C3 Ep) as [-> ->]. rewrite p2_S in C6. lia.
  Qed.

  Theorem usa_loop_ok : forall h, al s h -> forall (nd : nodemap) (ca : cachemap) (Rc : list H) rest,
    WInvX (VF h) (RF h) Rc T noX nd ca -> (forall x, In x Rc -> In (Some x) s') -> Forall staleE rest ->
    exists nd' ca' Rc',
      usa_loop HO h T full (posR h) (LeftChild (posR h) T) (erpl h ++ rest) (nd, ca) = Some ((nd', ca'), rest) /\
      WInvX (Vlay HO s) (RTlay HO s) Rc' T noX nd' ca' /\
      (forall x, In x Rc' <-> In x Rc /\ x <> a).
  Proof.
    induction h as [|h' IH]; intros Ha nd ca Rc rest W HR Hst.
    - destruct (del_root_step 0 nd ca Rc Ha HR W) as (Rc1 & W1 & N1 & S1 & S2 & S3).
      cbn [usa_loop erpl app]. cbn [fst snd] in W1, N1 |- *.
      set (st1 := match nodes_get nd (posR 0) with
                  | Some lf => (nodes_del (posR 0) nd, cached_del HO (fst lf) ca)
                  | None => (nd, ca) end) in *. clearbody st1. destruct st1 as [nd1 ca1]. cbn [fst snd] in *.
      assert (Hna : ~ In a Rc1).
      { apply S3. apply VF0_view. right. rewrite oR_0. auto. }
      exists nd1, ca1, Rc1. split; [reflexivity|]. split; [exact (leaf_step _ _ _ W1 N1 Hna)|].
      intros x. split; [intros Hx; split; [exact (S1 _ Hx)|intros ->; exact (Hna Hx)]|intros [A B]; exact (S2 _ A B)].
    - destruct (al_S_inv H s h' Ha) as [Ha' _].
      destruct (del_root_step (S h') nd ca Rc Ha HR W) as (Rc1 & W1 & N1 & S1 & S2 & S3).
      destruct (child_coords h' Ha) as (C1 & C2 & C3 & C4 & C5 & C6).
      cbn [usa_loop erpl]. cbn [fst snd] in W1, N1 |- *.
      set (st1 := match nodes_get nd (posR (S h')) with
                  | Some lf => (nodes_del (posR (S h')) nd, cached_del HO (fst lf) ca)
                  | None => (nd, ca) end) in *. clearbody st1. destruct st1 as [nd1 ca1]. cbn [fst snd] in *.
      assert (HR1 : forall x, In x Rc1 -> In (Some x) s') by (intros x Hx; exact (HR _ (S1 _ Hx))).
      rewrite C4, C5.
      destruct (oldt HO s h') as [c|] eqn:Ec.
      + (* the root of row [h'] is not empty: no entry of the list is its position *)
        cbn [app].
        assert (Hhead : forall e l, erpl h' ++ rest = e :: l -> (e =? gp T h' (2 * oR (S h'))) = false).
        { intros e l El. assert (Hin : In e (erpl h' ++ rest)) by (rewrite El; left; reflexivity).
          destruct (N.eqb_spec e (gp T h' (2 * oR (S h')))) as [Ee|_]; [exfalso|reflexivity].
          apply in_app_or in Hin as [Hin|Hin].
          - assert (C7 : 2 * oR (S h') < 2 ^ (T - N.of_nat h')).
            { replace (T - N.of_nat h') with (T - N.of_nat h' - 1 + 1) by lia. rewrite UtilsGeom.pow2_S. lia. }
            exact (erpl_not_row h' h' _ e (le_n _) Ha' ltac:(lia) C7 Hin Ee).
          - rewrite Forall_forall in Hst. exact (stale_not_root h' e Ha (Hst _ Hin) Ee). }
        pose proof (stepA_down h' c nd1 ca1 Rc1 Ha Ec W1 N1) as W2.
        destruct (IH Ha' nd1 ca1 Rc1 rest W2 HR1 Hst) as (nd' & ca' & Rc' & E & W' & HRc').
        exists nd', ca', Rc'. split; [|split; [exact W'|]].
        * remember (erpl h' ++ rest) as L eqn:EL. destruct L as [|e l].
          -- exact E.
          -- rewrite (Hhead e l eq_refl). exact E.
        * intros x. rewrite HRc'. split; [intros [A B]; split; [exact (S1 _ A)|exact B]|intros [A B]; split; [exact (S2 _ A B)|exact B]].
      + (* the root of row [h'] is empty: it is the head of the list *)
        cbn [app]. rewrite N.eqb_refl.
        destruct (stepB_down h' nd1 ca1 Rc1 Ha Ec HR1 W1 N1 S3) as (nd2 & ca2 & E2 & W2).
        destruct (IH Ha' _ ca2 Rc1 rest W2 HR1 Hst) as (nd' & ca' & Rc' & E & W' & HRc').
        exists nd', ca', Rc'.
        match goal with |- context [placeEmptyRoot ?x1 ?x2 ?x3 ?x4 ?x5] =>
          replace (placeEmptyRoot x1 x2 x3 x4 x5) with ((nd2, ca2), true) by (symmetry; exact E2) end.
        cbn [fst snd]. split; [exact E|]. split; [exact W'|].
        intros x. rewrite HRc'. split; [intros [A B]; split; [exact (S1 _ A)|exact B]|intros [A B]; split; [exact (S2 _ A B)|exact B]].
  Qed.
End UndoOne.
(** * Part 8: [undoSingleAdd] and the loop of [undoAdd] *)
Lemma lowbit_bits u j : N.testbit ((2 * u + 1) * p2 j) (N.of_nat j) = true /\
  forall i, i < N.of_nat j -> N.testbit ((2 * u + 1) * p2 j) i = false.
Proof.
  unfold p2. split.
  - replace (N.of_nat j) with (0 + N.of_nat j) at 2 by lia. rewrite N.mul_pow2_bits_add.
    apply N.testbit_odd_0.
  - intros i Hi. apply N.mul_pow2_bits_low. exact Hi.
Qed.

(** the index of the lowest set bit *)
Fixpoint lowbit (fuel : nat) (m : N) : nat :=
  match fuel with
  | O => O
  | S f => if N.odd m then O else S (lowbit f (m / 2))
  end.

Lemma lowbit_spec : forall j fuel u, (j < fuel)%nat -> lowbit fuel ((2 * u + 1) * p2 j) = j.
Proof.
  induction j as [|j IH]; intros fuel u Hf; (destruct fuel as [|f]; [lia|]); cbn [lowbit].
  - rewrite p2_0, N.mul_1_r. replace (2 * u + 1) with (1 + 2 * u) by lia. rewrite N.odd_add_mul_2. reflexivity.
  - rewrite p2_S. replace ((2 * u + 1) * (2 * p2 j)) with (0 + 2 * ((2 * u + 1) * p2 j)) by lia.
    rewrite N.odd_add_mul_2. cbn [N.odd].
    replace (0 + 2 * ((2 * u + 1) * p2 j)) with ((2 * u + 1) * p2 j * 2) by lia.
    rewrite N.div_mul by lia. rewrite IH by lia. reflexivity.
Qed.

Section UndoSingle.
  Variable H : Type.
  Variable HO : ops H.
  Hypothesis HOK : ops_ok HO.
  Hypothesis Hh2 : forall x y, op_eqb HO (op_hash2 HO x y) (op_empty HO) = false.
  Variable full : bool.
  Variable T : N.
  Hypothesis HT : T <= 63.
  Notation nodemap := (list (N * (H * bool))).
  Notation cachemap := (list (H * N)).

  Definition leaves_ok (s : slots H) : Prop :=
    forall h, In (Some h) s -> op_eqb HO h (op_empty HO) = false /\ forall x y, h <> op_hash2 HO x y.

  (** the row of the tree that holds the last leaf of [s ++ [a]]: the lowest clear bit of the
      leaf count of [s] *)
  Definition lowrow (s : slots H) : nat := lowbit 64 (N.of_nat (length s) + 1).

  Lemma lowrow_spec (s : slots H) : N.of_nat (length s) + 1 <= 2 ^ T ->
    let j := lowrow s in
    al s j /\ N.testbit (N.of_nat (length s)) (N.of_nat j) = false /\ N.of_nat j <= T /\
    getLowestRoot (N.of_nat (length s) + 1) T = N.of_nat j /\
    oR H s j = 2 * (N.of_nat (length s) / 2 ^ (N.of_nat j + 1)).
  Proof.
    intros HnT. set (n := N.of_nat (length s)) in *.
    destruct (lowbit_ex (n + 1) ltac:(lia)) as (j0 & u & Eu).
    destruct (lowbit_bits u j0) as [B1 B2]. rewrite <- Eu in B1, B2.
    pose proof (p2_pos j0) as Hp.
    assert (Hj0T : N.of_nat j0 <= T).
    { destruct (N.le_gt_cases (N.of_nat j0) T) as [A|A]; [exact A|exfalso].
      assert (2 ^ T < 2 ^ N.of_nat j0) by (apply UtilsGeom.pow2_lt; exact A). unfold p2 in *. nia. }
    assert (Ej : lowrow s = j0).
    { unfold lowrow. fold n. rewrite Eu. apply lowbit_spec. lia. }
    rewrite Ej. cbv zeta.
    assert (Ha : al s j0) by (exists (2 * u + 1); exact Eu).
    assert (Hb : N.testbit n (N.of_nat j0) = false).
    { pose proof (al_bit H s j0 (2 * u + 1) Eu) as Hm. fold n in Hm.
      replace (2 * u + 1 - 1) with (0 + u * 2) in Hm by lia. rewrite N.mod_add in Hm by lia.
      change (0 mod 2) with 0 in Hm. destruct (N.testbit n (N.of_nat j0)); [discriminate|reflexivity]. }
    split; [exact Ha|]. split; [exact Hb|]. split; [exact Hj0T|]. split.
    - unfold getLowestRoot. apply glr_loop_spec; try lia. intros i _ Hi. apply B2, Hi.
    - unfold oR, Lh. fold n.
      assert (E1 : n + 1 - p2 j0 = 2 * u * p2 j0) by lia. rewrite E1, N.div_mul by lia. f_equal.
      rewrite UtilsGeom.pow2_S. fold (p2 j0).
      apply (N.div_unique n (2 * p2 j0) u (p2 j0 - 1)); [lia|nia].
  Qed.

  (** one [undoSingleAdd] *)
  Theorem undoSingleAdd_ok (s : slots H) (a : H) (nd : nodemap) (ca : cachemap) (R : list H) rest :
    N.of_nat (length s) + 1 <= 2 ^ T -> leaves_ok (s ++ [Some a]) ->
    WInvX (Vlay HO (s ++ [Some a])) (RTlay HO (s ++ [Some a])) R T noX nd ca ->
    (forall x, In x R -> In (Some x) (s ++ [Some a])) ->
    Forall (staleE H T s) rest ->
    exists nd' ca' R',
      undoSingleAdd HO (N.of_nat (length s) + 1) T full (erpl H HO T s (lowrow s) ++ rest) (nd, ca)
        = Some ((nd', ca'), rest) /\
      WInvX (Vlay HO s) (RTlay HO s) R' T noX nd' ca' /\
      (forall x, In x R' <-> In x R /\ x <> a).
  Proof.
    intros HnT Hlv W HR Hst. destruct (lowrow_spec s HnT) as (Ha & Hb & HjT & Eg & Eo).
    set (j := lowrow s) in *. set (n := N.of_nat (length s)) in *.
    assert (W0 : WInvX (Vent HO (Fh HO s a j)) (RTent (Fh HO s a j)) R T noX nd ca).
    { destruct (Vent_ext H HO (forest HO (s ++ [Some a])) (Fh HO s a j)) as [EV ER].
      { intros e. apply forest_snoc_Fh; assumption. }
      apply (WInvX_ext H (Vlay HO (s ++ [Some a])) _ (RTlay HO (s ++ [Some a])) _ R R T noX noX); try reflexivity; [| |exact W].
      - intros r o h l. rewrite Vlay_Vent. apply EV.
      - intros r o. rewrite RTlay_RTent. apply ER. }
    destruct (usa_loop_ok H HO HOK Hh2 full T HT s a HnT Hlv j Ha nd ca R rest W0 HR Hst)
      as (nd' & ca' & R' & E & W' & HR').
    exists nd', ca', R'. split; [|split; [exact W'|exact HR']].
    unfold undoSingleAdd. rewrite Eg, Nat2N.id.
    assert (Es : sub64 (n + 1) 1 = n).
    { rewrite sub64_small; [lia|lia|]. assert (2 ^ T <= 2 ^ 63) by (apply UtilsGeom.pow2_le; exact HT).
      rewrite W_eq. assert (2 ^ 63 < 2 ^ 64) by (apply UtilsGeom.pow2_lt; lia). lia. }
    rewrite Es. rewrite (rootPosition_gpos n (N.of_nat j) T HT HjT ltac:(lia)).
    rewrite <- Eo. exact E.
  Qed.

  (** ** the loop over the additions, newest first *)
  Fixpoint erpR (s0 : slots H) (radds : list H) : list N :=
    match radds with
    | [] => []
    | a :: r => erpl H HO T (s0 ++ map Some (rev r)) (lowrow (s0 ++ map Some (rev r))) ++ erpR s0 r
    end.

  Lemma erpl_stale (s : slots H) : N.of_nat (length s) + 1 <= 2 ^ T -> forall h, al s h ->
    Forall (fun e => exists r o, e = gp T r o /\ (o + 2) * p2 r <= N.of_nat (length s) + 1) (erpl H HO T s h).
  Proof.
    intros HnT. induction h as [|h IH]; intros Ha; [constructor|]. destruct (al_S_inv H s h Ha) as [Ha' _].
    cbn [erpl]. apply Forall_app. split; [|exact (IH Ha')].
    destruct (oldt HO s h); constructor; [|constructor].
    exists h, (2 * oR H s (S h)). split; [reflexivity|].
    destruct (step_coords H s h Ha) as (E1 & _). fold (oR H s (S h)) in E1.
    destruct Ha as [m E]. destruct (Lh_al H s _ _ E) as [EL Hm]. unfold oR. rewrite EL, N.div_mul by (pose proof (p2_pos (S h)); lia).
    rewrite p2_S in *. nia.
  Qed.

  Lemma erpR_stale (s0 : slots H) : forall radds, N.of_nat (length s0) + N.of_nat (length radds) <= 2 ^ T ->
    Forall (fun e => exists r o, e = gp T r o /\ (o + 2) * p2 r <= N.of_nat (length s0) + N.of_nat (length radds))
           (erpR s0 radds).
  Proof.
    induction radds as [|a r IH]; intros Hfit; [constructor|]. cbn [erpR length] in *.
    assert (El : N.of_nat (length (s0 ++ map Some (rev r))) = N.of_nat (length s0) + N.of_nat (length r)).
    { rewrite app_length, map_length, rev_length. lia. }
    apply Forall_app. split.
    - assert (HnT : N.of_nat (length (s0 ++ map Some (rev r))) + 1 <= 2 ^ T) by lia.
      destruct (lowrow_spec _ HnT) as (Ha & _).
      pose proof (erpl_stale _ HnT _ Ha) as Hs. rewrite El in Hs.
      eapply Forall_impl; [|exact Hs]. intros e (r0 & o & Ee & Hb). exists r0, o. split; [exact Ee|lia].
    - eapply Forall_impl; [|apply IH; lia]. intros e (r0 & o & Ee & Hb). exists r0, o. split; [exact Ee|lia].
  Qed.

  Theorem undoAdd_loop_ok : forall (radds : list H) (s0 : slots H) (nd : nodemap) (ca : cachemap) (R : list H),
    let s1 := s0 ++ map Some (rev radds) in
    N.of_nat (length s1) <= 2 ^ T -> leaves_ok s1 ->
    WInvX (Vlay HO s1) (RTlay HO s1) R T noX nd ca -> (forall x, In x R -> In (Some x) s1) ->
    exists nd' ca' R',
      undoAdd_loop HO (length radds) (N.of_nat (length s1)) T full (erpR s0 radds) (nd, ca)
        = Some (N.of_nat (length s0), (nd', ca')) /\
      WInvX (Vlay HO s0) (RTlay HO s0) R' T noX nd' ca' /\
      (forall x, In x R' <-> In x R /\ ~ In x radds).
  Proof.
    induction radds as [|a r IH]; intros s0 nd ca R s1 Hfit Hlv W HR.
    - unfold s1 in *. cbn [rev map] in *. rewrite app_nil_r in *. exists nd, ca, R.
      split; [reflexivity|]. split; [exact W|]. intros x. cbn [In]. tauto.
    - set (s := s0 ++ map Some (rev r)).
      assert (Es1 : s1 = s ++ [Some a]).
      { unfold s1, s. cbn [rev]. rewrite map_app, app_assoc. reflexivity. }
      assert (El : N.of_nat (length s1) = N.of_nat (length s) + 1).
      { rewrite Es1, app_length. cbn [length]. lia. }
      assert (Els : N.of_nat (length s) = N.of_nat (length s0) + N.of_nat (length r)).
      { unfold s. rewrite app_length, map_length, rev_length. lia. }
      rewrite Es1 in Hlv, W, HR.
      assert (Hst : Forall (staleE H T s) (erpR s0 r)).
      { pose proof (erpR_stale s0 r ltac:(lia)) as Hs. rewrite <- Els in Hs. exact Hs. }
      destruct (undoSingleAdd_ok s a nd ca R (erpR s0 r) ltac:(lia) Hlv W HR Hst) as (nd1 & ca1 & R1 & E1 & W1 & HR1).
      assert (Hlv' : leaves_ok s).
      { intros h Hh. apply Hlv. apply in_or_app. left. exact Hh. }
      assert (HRs : forall x, In x R1 -> In (Some x) s).
      { intros x Hx. apply HR1 in Hx as [Hx Hne]. apply HR in Hx. apply in_app_or in Hx as [Hx|[Hx|[]]]; [exact Hx|].
        injection Hx as ->. contradiction. }
      destruct (IH s0 nd1 ca1 R1 ltac:(fold s; lia) Hlv' W1 HRs) as (nd' & ca' & R' & E2 & W' & HR').
      exists nd', ca', R'. split; [|split; [exact W'|]].
      + cbn [length undoAdd_loop erpR]. fold s. rewrite El, E1.
        assert (Esub : sub64 (N.of_nat (length s) + 1) 1 = N.of_nat (length s)).
        { rewrite sub64_small; [lia|lia|]. assert (2 ^ T <= 2 ^ 63) by (apply UtilsGeom.pow2_le; exact HT).
          rewrite W_eq. assert (2 ^ 63 < 2 ^ 64) by (apply UtilsGeom.pow2_lt; lia). lia. }
        rewrite Esub. exact E2.
      + intros x. rewrite HR', HR1. cbn [In]. split; [intros [[A B] C]; split; [exact A|]; intros [D|D]; [congruence|contradiction]|].
        intros [A B]. split; [split; [exact A|intros ->; apply B; left; reflexivity]|intros C; apply B; right; exact C].
  Qed.
End UndoSingle.
(** * Part 9: the rest of [Undo] for a block without deletions; the previous roots are written back *)
Lemma PP_rows_nil n total : forall fuel row, PP_rows fuel row n total [] = ([], []).
Proof.
  induction fuel as [|f IH]; intros row; [reflexivity|]. cbn [PP_rows].
  destruct (total <? row); [reflexivity|]. cbn [length PP_row]. change (sortN []) with (@nil N).
  rewrite IH. reflexivity.
Qed.

Section UndoTail.
  Variable H : Type.
  Variable HO : ops H.
  Hypothesis HOK : ops_ok HO.
  Variable full : bool.
  Variable T : N.
  Hypothesis HT : T <= 63.
  Notation nodemap := (list (N * (H * bool))).
  Notation cachemap := (list (H * N)).

  Lemma undoDeletion_nil n (st : maps H) : undoDeletion HO n T full [] [] [] st = Some st.
  Proof.
    unfold undoDeletion. cbn [length Nat.eqb negb]. change (sortN []) with (@nil N).
    assert (Ed : deTwin (if TreeRows n =? T then [] else sortN (translatePositions [] (TreeRows n) T)) T = []).
    { destruct (TreeRows n =? T); reflexivity. }
    rewrite Ed. cbn [rev ud_movedown]. destruct st as [nd ca].
    rewrite ProofPositions_fast_eq. unfold ProofPositions. rewrite PP_rows_nil.
    assert (Ep : (if TreeRows n =? T then [] else translatePositions (trimProofPos n (TreeRows n) []) (TreeRows n) T) = @nil N).
    { destruct (TreeRows n =? T); reflexivity. }
    rewrite Ep. cbn [length Nat.eqb ud_fill].
    unfold calculateHashes. cbn [length Nat.eqb negb zip_hp]. change (sortK []) with (@nil (hp H)).
    unfold calc_fuel. cbn [length]. rewrite Nat.mul_1_l.
    replace (N.to_nat (TreeRows n) + 3)%nat with (S (N.to_nat (TreeRows n) + 2)) by lia. cbn [calc_loop c_row c_tp c_np].
    destruct (N.ltb_spec (TreeRows n) 0) as [C|_]; [lia|]. cbn [nextLeast N.eqb].
    cbn [c_all mergeSortedHashAndPos length merge_hp Nat.add].
    destruct (TreeRows n =? T); reflexivity.
  Qed.

  (** the position of the root of a tree of the forest *)
  Definition posE (e : nat * N * option (ctree H)) : N := gp T (fst (fst e)) (snd (fst e) / p2 (fst (fst e))).

  Lemma RootPositions_forest (s : slots H) : N.of_nat (length s) <= 2 ^ T ->
    RootPositions (N.of_nat (length s)) T = map posE (forest HO s).
  Proof.
    intros HnT. rewrite (RootPositions_spec _ _ HT HnT).
    rewrite <- (forest_rows_upto H HO s (N.to_nat T)).
    2:{ assert (Hlt : N.of_nat (length s) < N.of_nat (2 ^ S (N.to_nat T))).
        { rewrite p2_nat, p2_S. unfold p2. rewrite N2Nat.id. pose proof (UtilsGeom.pow2_pos T). lia. }
        lia. }
    rewrite map_map. apply map_ext_in. intros [[k lo] t] He. cbn [fst snd]. unfold posE, gp. cbn [fst snd].
    destruct (root_node H HO s k lo t He) as (_ & _ & Ediv & _). unfold p2. rewrite Ediv. reflexivity.
  Qed.

  Lemma put_roots_ok (s : slots H) (R : list H) : N.of_nat (length s) <= 2 ^ T ->
    forall F (st : maps H), (forall e, In e F -> In e (forest HO s)) ->
    WInvX (Vlay HO s) (RTlay HO s) R T noX (fst st) (snd st) ->
    exists nd', put_roots HO full (map posE F) (map (fun e => root_hash HO (snd e)) F) st = Some (nd', snd st) /\
      WInvX (Vlay HO s) (RTlay HO s) R T noX nd' (snd st) /\
      (forall e, In e F -> nodes_get nd' (posE e) <> None) /\
      (forall p, nodes_get (fst st) p <> None -> nodes_get nd' p <> None).
  Proof.
    intros HnT. pose proof (Vlay_ok H HO s T HnT HT) as K.
    induction F as [|[[k lo] t] F IH]; intros st HF W.
    - exists (fst st). cbn [map put_roots]. split; [destruct st; reflexivity|]. split; [exact W|]. split; [intros e []|auto].
    - cbn [map put_roots]. cbn [snd].
      destruct (root_node H HO s k lo t (HF _ (or_introl eq_refl))) as (_ & _ & _ & x & Hx & Hroot & Hh & _).
      apply tnode_some in Hx as (Hxin & Er & Eo).
      assert (Hv : Vlay HO s k (lo / p2 k) (root_hash HO t) (nleaf x)).
      { exists x. unfold p2. auto. }
      set (b0 := cached_has HO (snd st) (root_hash HO t) || full).
      assert (W1 : WInvX (Vlay HO s) (RTlay HO s) R T noX
                     (nodes_put (gp T k (lo / p2 k)) (root_hash HO t, b0) (fst st)) (snd st)).
      { apply (WInvX_weaken H (Vlay HO s) (RTlay HO s) R T (fun r o => noX r o /\ ~ (r = k /\ o = lo / p2 k))).
        - intros r o [[] _].
        - apply (WInvX_put H (Vlay HO s) (RTlay HO s) R T noX (fst st) (snd st) k (lo / p2 k) (root_hash HO t) (nleaf x) b0 K W Hv).
          intros _ Hin. unfold b0. apply (w_cR W) in Hin. apply (cached_has_true H HO HOK) in Hin. rewrite Hin. reflexivity. }
      destruct (IH (nodes_put (gp T k (lo / p2 k)) (root_hash HO t, b0) (fst st), snd st)
                  (fun e He => HF e (or_intror He)) W1) as (nd' & E & W' & Hst & Hmono).
      cbn [fst snd] in *. exists nd'. split; [exact E|]. split; [exact W'|]. split.
      + intros e [<-|He]; [|exact (Hst e He)]. apply Hmono. unfold posE. cbn [fst snd].
        rewrite nodes_get_put, N.eqb_refl. discriminate.
      + intros p Hp. apply Hmono. rewrite nodes_get_put. destruct (p =? gp T k (lo / p2 k)); [discriminate|exact Hp].
  Qed.
End UndoTail.
(** * Part 10: the invariant of this file, and [Undo] of a block without deletions *)
Section UInvDef.
  Variable H : Type.
  Variable HO : ops H.
  Hypothesis HOK : ops_ok HO.

  Record UInv (s : slots H) (R : list H) (m : mstate H) : Prop := mkUInv {
    u_n : ms_n m = num_leaves s;
    u_n63 : ms_n m <= 2 ^ 63;
    u_rows : TreeRows (ms_n m) <= ms_total m;
    u_T63 : ms_total m <= 63;
    u_nodup : NoDup (live s);
    u_leaves : leaves_ok H HO s;
    u_g : GInv (Vlay HO s) (RTlay HO s) R (ms_total m) (ms_nodes m) (ms_cached m) }.

  Theorem UInv_consistent s R m : UInv s R m -> consistent HO s R m.
  Proof. intros [A B C D E _ G]. apply (GInv_consistent H HO HOK); assumption. Qed.

  Lemma Vlay_sib_par (s : slots H) r o h l : Vlay HO s r o h l -> ~ RTlay HO s r o ->
    (exists h' l', Vlay HO s r (N.lxor o 1) h' l') /\ (exists h' l', Vlay HO s (S r) (o / 2) h' l').
  Proof.
    intros (x & Hx & <- & <- & _) Hn.
    assert (Hnr : nroot x = false).
    { destruct (nroot x) eqn:E; [|reflexivity]. exfalso. apply Hn. exists x. auto. }
    destruct (node_sibling H HO s _ _ x (tnode_in H HO s x Hx) Hnr) as (p & sb & Hp & Hsb & _).
    apply tnode_some in Hp as (Hpin & Epr & Epo). apply tnode_some in Hsb as (Hsin & Esr & Eso).
    split; [exists (nhash sb), (nleaf sb), sb|exists (nhash p), (nleaf p), p]; auto.
  Qed.

  (** from the weak invariant without exemptions, when the roots are stored *)
  Lemma WInvX_GInv_lay (s : slots H) R T nd ca : WInvX (Vlay HO s) (RTlay HO s) R T noX nd ca ->
    (forall r o, RTlay HO s r o -> nodes_get nd (gp T r o) <> None) ->
    GInv (Vlay HO s) (RTlay HO s) R T nd ca.
  Proof.
    intros W Hroots. apply (WInvX_GInv H (Vlay HO s) (RTlay HO s) R T noX nd ca W).
    - intros r o [].
    - exact Hroots.
    - intros r o h l Hv Hn. exact (proj1 (Vlay_sib_par s r o h l Hv Hn)).
    - intros r o h l Hv Hn. exact (proj2 (Vlay_sib_par s r o h l Hv Hn)).
  Qed.
End UInvDef.
Arguments UInv {H} HO s R m.
Arguments u_n {H HO s R m} _.
Arguments u_n63 {H HO s R m} _.
Arguments u_rows {H HO s R m} _.
Arguments u_T63 {H HO s R m} _.
Arguments u_nodup {H HO s R m} _.
Arguments u_leaves {H HO s R m} _.
Arguments u_g {H HO s R m} _.

Section UndoAdds.
  Variable H : Type.
  Variable HO : ops H.
  Hypothesis HOK : ops_ok HO.
  Hypothesis Hh2 : forall x y, op_eqb HO (op_hash2 HO x y) (op_empty HO) = false.

  (** the end of [Undo]: [undoDeletion] of nothing, and the previous roots *)
  Lemma undo_tail (s0 : slots H) (R : list H) full T (nd : list (N * (H * bool))) (ca : list (H * N)) :
    T <= 63 -> N.of_nat (length s0) <= 2 ^ T ->
    WInvX (Vlay HO s0) (RTlay HO s0) R T noX nd ca ->
    exists nd', put_roots HO full (RootPositions (N.of_nat (length s0)) T) (roots HO s0) (nd, ca) = Some (nd', ca) /\
      GInv (Vlay HO s0) (RTlay HO s0) R T nd' ca.
  Proof.
    intros HT HnT W.
    destruct (put_roots_ok H HO HOK full T HT s0 R HnT (forest HO s0) (nd, ca) (fun e He => He) W)
      as (nd' & E & W' & Hst & _).
    cbn [fst snd] in *. exists nd'. rewrite (RootPositions_forest H HO T HT s0 HnT). split; [exact E|].
    apply (WInvX_GInv_lay H HO s0 R T nd' ca W').
    intros r o Hr. apply RTlay_RTent in Hr as (k & lo & t & He & -> & ->).
    exact (Hst (k, lo, t) He).
  Qed.

  Theorem undo_adds_gen (s0 : slots H) (adds : list H) (R1 : list H) (m1 : mstate H) :
    UInv HO (s0 ++ map Some adds) R1 m1 ->
    getWrittenOverEmptyRoots HO (ms_n m1) (ms_total m1) (N.of_nat (length adds)) [] (roots HO s0)
      = Some (erpR H HO (ms_total m1) s0 (rev adds)) ->
    exists m2 R2, mm_undo HO m1 (N.of_nat (length adds)) [] [] [] (roots HO s0) = Some m2 /\
      UInv HO s0 R2 m2 /\ (forall x, In x R2 <-> In x R1 /\ ~ In x adds) /\
      ms_n m2 = N.of_nat (length s0) /\ ms_total m2 = ms_total m1 /\ ms_full m2 = ms_full m1.
  Proof.
    intros U Egw. destruct U as [Un Un63 Urows UT Und Ulv Ug].
    set (T := ms_total m1) in *. set (s1 := s0 ++ map Some adds) in *.
    assert (El1 : N.of_nat (length s1) = N.of_nat (length s0) + N.of_nat (length adds)).
    { unfold s1. rewrite app_length, map_length. lia. }
    unfold num_leaves in Un.
    assert (HnT : N.of_nat (length s1) <= 2 ^ T) by (apply TreeRows_le_iff; rewrite <- Un; exact Urows).
    assert (Es1 : s1 = s0 ++ map Some (rev (rev adds))) by (rewrite rev_involutive; reflexivity).
    pose proof (GInv_WInvX H (Vlay HO s1) (RTlay HO s1) R1 T (ms_nodes m1) (ms_cached m1)
                  (Vlay_ok H HO s1 T HnT UT) Ug) as W1.
    assert (HR1 : forall x, In x R1 -> In (Some x) s1).
    { intros x Hx. destruct (g_Rin Ug x Hx) as (r & o & (y & Hy & _ & _ & Eh & El)).
      rewrite <- Eh. exact (layout_leaf_live H HO s1 y Hy El). }
    rewrite Es1 in HnT, Ulv, W1, HR1.
    destruct (undoAdd_loop_ok H HO HOK Hh2 (ms_full m1) T UT (rev adds) s0 (ms_nodes m1) (ms_cached m1) R1 HnT Ulv W1 HR1)
      as (nd' & ca' & R' & E & W' & HR').
    rewrite <- Es1 in *. rewrite rev_length in E.
    assert (Hn0T : N.of_nat (length s0) <= 2 ^ T) by lia.
    destruct (undo_tail s0 R' (ms_full m1) T nd' ca' UT Hn0T W') as (nd2 & Ep & G2).
    exists (mkM nd2 ca' (N.of_nat (length s0)) T (ms_full m1)), R'.
    split; [|split; [|split; [|auto]]].
    - unfold mm_undo, undoAdd. fold T. rewrite Egw, Nat2N.id, Un, E. rewrite undoDeletion_nil by exact UT.
      match goal with |- context [put_roots ?x1 ?x2 ?x3 ?x4 ?x5] =>
        replace (put_roots x1 x2 x3 x4 x5) with (Some (nd2, ca')) by (symmetry; exact Ep) end.
      reflexivity.
    - constructor; cbn [ms_n ms_total ms_nodes ms_cached].
      + reflexivity.
      + lia.
      + apply TreeRows_le_iff. exact Hn0T.
      + exact UT.
      + unfold s1 in Und. rewrite live_app in Und. exact (proj1 (StumpAddData.NoDup_app_inv H _ _ Und)).
      + intros h Hh. apply Ulv. apply in_or_app. left. exact Hh.
      + exact G2.
    - intros x. rewrite HR'. rewrite <- in_rev. reflexivity.
  Qed.
End UndoAdds.
(** * Part 11: [getWrittenOverEmptyRoots] *)
Section Destroyed.
  Variable H : Type.
  Variable HO : ops H.
  Hypothesis HOK : ops_ok HO.
  Hypothesis Hh2 : forall x y, op_eqb HO (op_hash2 HO x y) (op_empty HO) = false.
  Notation entry := (StumpAdd.entry H).
  Notation carry := (StumpAdd.carry H HO).
  Notation erow := (@StumpAdd.erow H).
  Notation isN := (StumpAddData.isN H).
  Notation td_go := (StumpAddData.td_go H).

  (** one chain of [rootsToDestory] on the emptiness flags (as [StumpAddData.rtd_chain_go]) *)
  Lemma rtd_chainB_go (s : slots H) (R : nat) :
    (R <= 63)%nat -> N.of_nat (length s) <= 2 ^ N.of_nat R ->
    forall d h (l : list entry) fuel lo c,
    (d < fuel)%nat -> (h + d <= 64)%nat -> N.of_nat (length s) < 2 ^ N.of_nat (h + d) ->
    map erow l = filter (bit (N.of_nat (length s))) (seq h d) ->
    (forall e, In e l -> In e (forest HO s)) ->
    rtd_chainB fuel (N.of_nat (length s)) (N.of_nat h) (N.of_nat R) (map isN l)
      = Some (td_go (N.of_nat (length s)) R fuel h l, map isN (fst (carry l h lo (Some c)))).
  Proof.
    intros HR HnR. set (n := N.of_nat (length s)) in *.
    induction d as [|d IH]; intros h l fuel lo c Hf Hh Hn Hrows Hin.
    - cbn [seq filter] in Hrows. apply map_eq_nil in Hrows. subst l.
      destruct fuel as [|f]; [lia|].
      cbn [rtd_chainB StumpAddData.td_go StumpAdd.carry map fst]. rewrite bit_test. rewrite Nat.add_0_r in Hn.
      assert (N.testbit n (N.of_nat h) = false) as ->.
      { rewrite <- (N.mod_small n (2 ^ N.of_nat h)) by exact Hn.
        apply N.mod_pow2_bits_high. lia. }
      reflexivity.
    - destruct fuel as [|f]; [lia|]. cbn [seq filter] in Hrows. cbn [rtd_chainB StumpAddData.td_go].
      rewrite bit_test. fold (bit n h). destruct (bit n h) eqn:Hb.
      + destruct l as [|[[r1 lo1] t1] l]; [discriminate|]. cbn [map] in Hrows.
        injection Hrows as Hr1 Hrows. unfold StumpAdd.erow in Hr1. cbn [fst] in Hr1. subst r1.
        cbn [map]. rewrite add8_succ by lia. cbn [StumpAdd.carry]. rewrite Nat.eqb_refl.
        replace (h + S d)%nat with (S h + d)%nat in Hn by lia.
        assert (Hc : exists c', join HO t1 (Some c) = Some c').
        { destruct t1 as [c1|]; cbn [join]; eexists; reflexivity. }
        destruct Hc as [c' Hc']. rewrite Hc'.
        rewrite (IH (S h) l f lo1 c' ltac:(lia) ltac:(lia) Hn Hrows (fun e He => Hin e (or_intror He))).
        f_equal. f_equal. f_equal. unfold StumpAddData.isN. cbn [snd].
        destruct t1 as [c1|]; [reflexivity|]. f_equal.
        pose proof (root_node H HO s h lo1 None (Hin _ (or_introl eq_refl))) as (Hbit & _ & Ediv & _).
        rewrite Ediv. fold n.
        rewrite pos_gpos. apply rootPosition_gpos; [lia| |exact HnR].
        apply (root_coord_valid n (N.of_nat h) (N.of_nat R) HnR Hbit).
      + f_equal. f_equal. destruct l as [|[[r1 lo1] t1] l]; [reflexivity|].
        cbn [StumpAdd.carry].
        assert (Hne : r1 <> h).
        { assert (Hin' : In r1 (filter (bit n) (seq (S h) d)))
            by (rewrite <- Hrows; left; reflexivity).
          apply filter_In in Hin' as [Hin' _]. apply in_seq in Hin'. lia. }
        destruct (Nat.eqb_spec r1 h) as [Heq|_]; [contradiction|]. reflexivity.
  Qed.

  Lemma rtd_loopB_spec (R : nat) : (R <= 63)%nat ->
    forall (adds : list H) (s : slots H),
    N.of_nat (length s + length adds) <= 2 ^ N.of_nat R ->
    rtd_loopB (length adds) (N.of_nat (length s)) (N.of_nat R) (map isN (rev (forest HO s)))
    = Some (to_destroy HO R s adds).
  Proof.
    intros HR. induction adds as [|a adds IH]; intros s Hb; [reflexivity|].
    cbn [length rtd_loopB to_destroy]. rewrite StumpAddData.trailing_destroyed_go. unfold num_leaves.
    cbn [length] in Hb.
    assert (HsR : N.of_nat (length s) <= 2 ^ N.of_nat R) by lia.
    assert (H63 : N.of_nat (length s) <= 2 ^ 63).
    { eapply N.le_trans; [exact HsR|]. apply N.pow_le_mono_r; lia. }
    pose proof (StumpAddData.log2_le_63 _ H63) as Hlog.
    pose proof (rtd_chainB_go s R HR HsR (S (Nat.log2 (length s))) 0 (rev (forest HO s)) 65
                  (N.of_nat (length s)) (CLeaf a) ltac:(lia) ltac:(lia)) as Hch.
    cbn [Nat.add] in Hch.
    specialize (Hch ltac:(rewrite <- pow2_N; pose proof (forest_len H s); lia)
                    (forest_rows H HO s)
                    (fun e He => proj2 (in_rev _ _) He)).
    change (N.of_nat 0) with 0 in Hch. rewrite Hch.
    assert (Ea : add64 (N.of_nat (length s)) 1 = N.of_nat (length (s ++ [Some a]))).
    { rewrite app_length. cbn [length]. unfold add64. rewrite wrap_small; [lia|].
      rewrite W_eq. assert (2 ^ 63 < 2 ^ 64) by (apply UtilsGeom.pow2_lt; lia). lia. }
    rewrite Ea.
    pose proof (forest_snoc H HO s (Some a)) as Hsn. cbv zeta in Hsn.
    change (compress HO 0 [Some a]) with (Some (CLeaf a)) in Hsn.
    assert (Efl : false :: map isN (fst (carry (rev (forest HO s)) 0 (N.of_nat (length s)) (Some (CLeaf a))))
                  = map isN (rev (forest HO (s ++ [Some a])))).
    { rewrite Hsn. cbn [map]. rewrite StumpAddData.carry_some. reflexivity. }
    rewrite Efl, IH; [reflexivity|]. rewrite app_length. cbn [length]. lia.
  Qed.
End Destroyed.
Section ErpDestroyed.
  Variable H : Type.
  Variable HO : ops H.
  Hypothesis HOK : ops_ok HO.
  Hypothesis Hh2 : forall x y, op_eqb HO (op_hash2 HO x y) (op_empty HO) = false.
  Variable T : N.
  Hypothesis HT : T <= 63.
  Notation entry := (StumpAdd.entry H).
  Notation nones := (StumpAddData.nones H).
  Notation chain_at := (StumpAddData.chain_at H).
  Notation ecoord := (StumpAddData.ecoord H).

  Definition gpT (c : nat * N) : N := gp T (fst c) (snd c).

  Lemma al_low_bits (s : slots H) : forall j, al s j -> forall i, (i < j)%nat ->
    N.testbit (N.of_nat (length s)) (N.of_nat i) = true.
  Proof.
    induction j as [|j IH]; intros Ha i Hi; [lia|]. destruct (al_S_inv H s j Ha) as [Ha' Hb].
    destruct (Nat.eq_dec i j) as [->|Hne]; [exact Hb|apply (IH Ha'); lia].
  Qed.

  Lemma chain_al (s : slots H) : forall ch, chain_at (N.of_nat (length s)) 0 ch -> al s (length ch).
  Proof.
    induction ch as [|e ch IH] using rev_ind; intros Hc; [apply al_0|].
    apply StumpAddData.chain_at_app in Hc as [Hc1 Hc2]. cbn [Nat.add] in Hc2.
    destruct Hc2 as (_ & _ & Hb & _). rewrite app_length. cbn [length].
    replace (length ch + 1)%nat with (S (length ch)) by lia. apply al_S; [exact (IH Hc1)|exact Hb].
  Qed.

  (** the empty roots of the chain, highest first *)
  Lemma erpl_chain (s : slots H) : forall ch, chain_at (N.of_nat (length s)) 0 ch ->
    (forall e, In e ch -> In e (forest HO s)) ->
    erpl H HO T s (length ch) = rev (map gpT (nones ch)).
  Proof.
    induction ch as [|e ch IH] using rev_ind; intros Hc Hin; [reflexivity|].
    pose proof (chain_al s _ Hc) as HaS.
    apply StumpAddData.chain_at_app in Hc as [Hc1 Hc2]. cbn [Nat.add] in Hc2.
    destruct Hc2 as (Hr & Hlo & Hb & _). rewrite app_length in *. cbn [length] in *.
    replace (length ch + 1)%nat with (S (length ch)) in * by lia. cbn [erpl].
    rewrite (IH Hc1 (fun e' He' => Hin e' (in_or_app _ _ _ (or_introl He')))).
    rewrite StumpAddData.nones_app, map_app, rev_app_distr. f_equal.
    destruct e as [[k lo] t]. unfold StumpAdd.erow, StumpAddData.elo in Hr, Hlo. cbn [fst snd] in Hr, Hlo. subst k.
    assert (Hine : In (length ch, lo, t) (forest HO s)) by (apply Hin, in_or_app; right; left; reflexivity).
    destruct (old_entry_unique H HO s (length ch) lo t HaS Hine) as [_ Et]. rewrite <- Et.
    unfold StumpAddData.nones. cbn [flat_map snd]. destruct t as [c|]; [reflexivity|]. cbn [app map rev].
    unfold gpT, StumpAddData.ecoord, StumpAdd.erow, StumpAddData.elo. cbn [fst snd]. f_equal. f_equal.
    destruct (step_coords H s (length ch) HaS) as (E1 & _). unfold oR. rewrite E1, Hlo.
    fold (p2 (length ch)). rewrite N.div_mul by (pose proof (p2_pos (length ch)); lia). reflexivity.
  Qed.

  Lemma lowrow_chain (s : slots H) ch : N.of_nat (length s) + 1 <= 2 ^ T ->
    chain_at (N.of_nat (length s)) 0 ch -> bit (N.of_nat (length s)) (length ch) = false ->
    lowrow H s = length ch.
  Proof.
    intros HnT Hc Hstop. destruct (lowrow_spec H T HT s HnT) as (Ha & Hb & _).
    pose proof (chain_al s ch Hc) as Ha2. unfold bit in Hstop.
    destruct (Nat.lt_trichotomy (lowrow H s) (length ch)) as [Hlt|[E|Hgt]]; [exfalso|exact E|exfalso].
    - rewrite (al_low_bits s _ Ha2 _ Hlt) in Hb. discriminate.
    - rewrite (al_low_bits s _ Ha _ Hgt) in Hstop. discriminate.
  Qed.

  Lemma erpR_snoc (s0 : slots H) a1 : forall r,
    erpR H HO T s0 (r ++ [a1]) = erpR H HO T (s0 ++ [Some a1]) r ++ erpl H HO T s0 (lowrow H s0).
  Proof.
    induction r as [|a r IH].
    - cbn [app erpR rev map]. rewrite !app_nil_r. reflexivity.
    - cbn [app erpR]. rewrite IH, app_assoc. f_equal.
      rewrite rev_app_distr. cbn [rev app map]. rewrite <- app_assoc. reflexivity.
  Qed.

  (** the list of [undoAdd] is the list of the destroyed roots, reversed *)
  Theorem erpR_destroyed : forall adds (s0 : slots H),
    N.of_nat (length s0) + N.of_nat (length adds) <= 2 ^ T ->
    erpR H HO T s0 (rev adds) = rev (map gpT (StumpAddData.to_destroy_c H HO s0 adds)).
  Proof.
    induction adds as [|a t IH]; intros s0 Hfit; [reflexivity|]. cbn [length] in Hfit.
    cbn [rev]. rewrite erpR_snoc.
    assert (H63 : N.of_nat (length s0) <= 2 ^ 63).
    { assert (2 ^ T <= 2 ^ 63) by (apply UtilsGeom.pow2_le; exact HT). lia. }
    destruct (StumpAddData.step_data_ex H HO s0 a t H63) as (ch & un & SD).
    rewrite (StumpAddData.sd_dest H HO s0 a t ch un SD), map_app, rev_app_distr.
    rewrite IH by (rewrite app_length; cbn [length]; lia). f_equal.
    pose proof (StumpAddData.sd_chain H HO _ _ _ _ _ SD) as Hc. unfold num_leaves in Hc.
    rewrite (lowrow_chain s0 ch ltac:(lia) Hc (StumpAddData.sd_stop H HO _ _ _ _ _ SD)).
    apply erpl_chain; [exact Hc|]. intros e He.
    apply (StumpAddData.step_in_forest H HO _ _ _ _ _ e SD). apply in_or_app. left. exact He.
  Qed.
End ErpDestroyed.
Section GwoLoop.
  Variable H : Type.
  Variable HO : ops H.
  Variable A : Type.
  Variables (isNA : A -> bool) (posf : A -> N).
  Notation SSlt := (Sorted.StronglySorted N.lt).

  Definition gwo_here (Dp : list N) (p : N) : list N := map (fun _ => p) (filter (fun d => d =? p) Dp).
  Definition gwo_f (Dp : list N) (e : A) : list N := if isNA e then gwo_here Dp (posf e) else [].

  Lemma gwo_loop_spec Dp : forall (F : list A) (pr : list H) (P0 : list N),
    map (fun r => op_eqb HO r (op_empty HO)) pr = map isNA F ->
    gwo_loop HO (length P0) pr (P0 ++ map posf F) Dp = Some (flat_map (gwo_f Dp) F).
  Proof.
    induction F as [|e F IH]; intros pr P0 Hfl.
    - destruct pr; [reflexivity|discriminate].
    - destruct pr as [|r pr]; [discriminate|]. cbn [map] in Hfl. injection Hfl as Hr Hfl.
      cbn [gwo_loop flat_map map].
      replace (P0 ++ posf e :: map posf F) with ((P0 ++ [posf e]) ++ map posf F) by (rewrite <- app_assoc; reflexivity).
      assert (El : S (length P0) = length (P0 ++ [posf e])) by (rewrite app_length; cbn [length]; lia).
      rewrite El, (IH pr (P0 ++ [posf e]) Hfl). rewrite Hr.
      change (gwo_f Dp e) with (if isNA e then gwo_here Dp (posf e) else []).
      destruct (isNA e); [|reflexivity].
      rewrite <- app_assoc. cbn [app]. rewrite nth_error_app2 by lia. rewrite Nat.sub_diag. cbn [nth_error].
      unfold gwo_here. destruct Dp as [|d Dp']; reflexivity.
  Qed.

  Lemma gwo_here_SSlt Dp p : SSlt Dp ->
    (In p Dp -> gwo_here Dp p = [p]) /\ (~ In p Dp -> gwo_here Dp p = []).
  Proof.
    unfold gwo_here. induction 1 as [|d t Hs IH Hd]; [split; [intros []|reflexivity]|].
    rewrite Forall_forall in Hd. cbn [filter]. destruct (N.eqb_spec d p) as [->|Hne].
    - assert (Hnin : ~ In p t) by (intros C; specialize (Hd p C); lia).
      cbn [map]. rewrite (proj2 IH Hnin). split; [reflexivity|]. intros C. exfalso. apply C. left. reflexivity.
    - split.
      + intros [C|C]; [contradiction|exact (proj1 IH C)].
      + intros C. apply (proj2 IH). intros C'. apply C. right. exact C'.
  Qed.

  Lemma gwo_f_cases Dp e : SSlt Dp -> gwo_f Dp e = [] \/ (gwo_f Dp e = [posf e] /\ isNA e = true /\ In (posf e) Dp).
  Proof.
    intros Hs. unfold gwo_f. destruct (isNA e); [|left; reflexivity].
    destruct (in_dec N.eq_dec (posf e) Dp) as [Hin|Hnin].
    - right. split; [exact (proj1 (gwo_here_SSlt Dp (posf e) Hs) Hin)|auto].
    - left. exact (proj2 (gwo_here_SSlt Dp (posf e) Hs) Hnin).
  Qed.

  Lemma gwo_asc Dp : SSlt Dp -> forall G, SSlt (map posf G) ->
    (forall p, In p Dp -> exists e, In e G /\ isNA e = true /\ posf e = p) ->
    flat_map (gwo_f Dp) G = Dp.
  Proof.
    intros Hs G HG Hsub.
    assert (Hmem : forall G0 p, In p (flat_map (gwo_f Dp) G0) <-> exists e, In e G0 /\ isNA e = true /\ posf e = p /\ In p Dp).
    { intros G0 p. rewrite in_flat_map. split.
      - intros (e & He & Hp). destruct (gwo_f_cases Dp e Hs) as [E|(E & A1 & A2)]; rewrite E in Hp; [destruct Hp|].
        destruct Hp as [<-|[]]. exists e. auto.
      - intros (e & He & A1 & <- & A2). exists e. split; [exact He|].
        unfold gwo_f. rewrite A1, (proj1 (gwo_here_SSlt Dp (posf e) Hs) A2). left. reflexivity. }
    apply pps_SSlt_ext; [|exact Hs|].
    - clear Hsub. induction G as [|g G IH]; [constructor|]. cbn [map] in HG.
      apply Sorted.StronglySorted_inv in HG as [HG Hg]. rewrite Forall_forall in Hg. cbn [flat_map].
      apply pps_SSlt_app; [|exact (IH HG)|].
      + destruct (gwo_f_cases Dp g Hs) as [E|(E & _)]; rewrite E; [constructor|]. constructor; [constructor|constructor].
      + intros x y Hx Hy. apply Hmem in Hy as (e & He & _ & <- & _).
        destruct (gwo_f_cases Dp g Hs) as [E|(E & _)]; rewrite E in Hx; [destruct Hx|]. destruct Hx as [<-|[]].
        apply Hg. apply in_map, He.
    - intros p. rewrite Hmem. split; [intros (e & _ & _ & _ & A2); exact A2|].
      intros Hp. destruct (Hsub p Hp) as (e & He & A1 & A2). exists e. auto.
  Qed.

  Lemma flat_map_rev_small (f : A -> list N) : (forall e, rev (f e) = f e) ->
    forall G, flat_map f (rev G) = rev (flat_map f G).
  Proof.
    intros Hf. induction G as [|g G IH]; [reflexivity|]. cbn [rev flat_map].
    rewrite flat_map_app, IH, rev_app_distr. cbn [flat_map]. rewrite app_nil_r, Hf. reflexivity.
  Qed.

  Theorem gwo_desc Dp (F : list A) : SSlt Dp -> SSlt (map posf (rev F)) ->
    (forall p, In p Dp -> exists e, In e F /\ isNA e = true /\ posf e = p) ->
    flat_map (gwo_f Dp) F = rev Dp.
  Proof.
    intros Hs HF Hsub. rewrite <- (rev_involutive F) at 1. rewrite flat_map_rev_small.
    - f_equal. apply gwo_asc; [exact Hs|exact HF|]. intros p Hp. destruct (Hsub p Hp) as (e & He & B).
      exists e. split; [apply -> in_rev; exact He|exact B].
    - intros e. destruct (gwo_f_cases Dp e Hs) as [E|(E & _)]; rewrite E; reflexivity.
  Qed.
End GwoLoop.
Section GwoSpec.
  Variable H : Type.
  Variable HO : ops H.
  Hypothesis HOK : ops_ok HO.
  Hypothesis Hh2 : forall x y, op_eqb HO (op_hash2 HO x y) (op_empty HO) = false.
  Variable T : N.
  Hypothesis HT : T <= 63.
  Notation entry := (StumpAdd.entry H).
  Notation isN := (StumpAddData.isN H).
  Notation isE := (StumpAddData.isE H HO).
  Notation ecoord := (StumpAddData.ecoord H).
  Notation SSlt := (Sorted.StronglySorted N.lt).
  Notation gT := (gpT T).

  Definition cvalidT (c : nat * N) : Prop := N.of_nat (fst c) <= T /\ snd c < 2 ^ (T - N.of_nat (fst c)).

  Lemma asc_later : forall D b x, StumpAddData.asc_from b D -> In x D -> (b <= fst x)%nat.
  Proof.
    induction D as [|y D IH]; intros b x Ha Hx; [destruct Hx|]. destruct Ha as [Hy Ha].
    destruct Hx as [->|Hx]; [exact Hy|]. specialize (IH _ _ Ha Hx). lia.
  Qed.

  Lemma asc_SSlt : forall D b, StumpAddData.asc_from b D -> (forall d, In d D -> cvalidT d) -> SSlt (map gT D).
  Proof.
    induction D as [|d D IH]; intros b Ha Hv; [constructor|]. destruct Ha as [Hb Ha]. cbn [map].
    constructor; [apply (IH _ Ha); intros x Hx; apply Hv; right; exact Hx|].
    rewrite Forall_forall. intros p Hp. apply in_map_iff in Hp as (x & <- & Hx).
    pose proof (asc_later D _ x Ha Hx) as Hlt.
    destruct (Hv d (or_introl eq_refl)) as [A B]. destruct (Hv x (or_intror Hx)) as [A' B'].
    unfold gpT, gp. apply gpos_row_mono; lia.
  Qed.

  Lemma asc_from_rows (f : nat -> bool) : forall m b (C : list (nat * N)),
    map fst C = filter f (seq b m) -> StumpAddData.asc_from b C.
  Proof.
    induction m as [|m IH]; intros b C E.
    - cbn in E. apply map_eq_nil in E. subst C. exact I.
    - cbn [seq filter] in E. destruct (f b).
      + destruct C as [|c C]; [discriminate|]. cbn [map] in E. injection E as Ec E.
        split; [lia|]. rewrite Ec. exact (IH _ _ E).
      + apply (StumpAddData.asc_from_weaken C (S b)); [lia|exact (IH _ _ E)].
  Qed.

  Variable s0 : slots H.
  Hypothesis HnT : N.of_nat (length s0) <= 2 ^ T.

  Lemma entry_validT e : In e (forest HO s0) -> cvalidT (ecoord e).
  Proof.
    intros He. pose proof (StumpAddData.ecoord_valid H HO (N.to_nat T) s0 e ltac:(rewrite N2Nat.id; exact HnT) He) as [A B].
    rewrite N2Nat.id in B. split; [lia|exact B].
  Qed.

  Lemma posE_ecoord (e : entry) : posE H T e = gT (ecoord e).
  Proof. reflexivity. Qed.

  Lemma forest_pos_sorted : SSlt (map (posE H T) (rev (forest HO s0))).
  Proof.
    assert (E : map (posE H T) (rev (forest HO s0)) = map gT (map ecoord (rev (forest HO s0)))).
    { rewrite map_map. reflexivity. }
    rewrite E. apply (asc_SSlt _ 0%nat).
    - apply (asc_from_rows (bit (N.of_nat (length s0))) (S (Nat.log2 (length s0)))).
      rewrite map_map. exact (forest_rows H HO s0).
    - intros d Hd. apply in_map_iff in Hd as (e & <- & He). apply entry_validT. apply in_rev. exact He.
  Qed.

  Hypothesis Hlive : StumpAdd.live_ok H HO s0.

  Lemma roots_flags : map (fun r => op_eqb HO r (op_empty HO)) (roots HO s0) = map isN (forest HO s0).
  Proof.
    pose proof (StumpAddData.roots_isE H HO HOK s0 Hh2 Hlive) as E. rewrite !map_rev in E.
    apply (f_equal (@rev bool)) in E. rewrite !rev_involutive in E. exact E.
  Qed.

  (** the destroyed roots, translated to the allocated rows *)
  Lemma destroyed_translate (R : nat) (D : list (nat * N)) : (R <= 63)%nat ->
    (forall d, In d D -> StumpAddData.cvalid R d /\ cvalidT d) ->
    (if N.of_nat R =? T then map (StumpAddData.cpos R) D
     else translatePositions (map (StumpAddData.cpos R) D) (N.of_nat R) T) = map gT D.
  Proof.
    intros HR Hv. destruct (N.eqb_spec (N.of_nat R) T) as [E|E].
    - apply map_ext. intros d. unfold StumpAddData.cpos, gpT, gp. rewrite pos_gpos, E. reflexivity.
    - unfold translatePositions. rewrite map_map. apply map_ext_in. intros d Hd.
      destruct (Hv d Hd) as [[A B] [A' B']]. unfold StumpAddData.cpos, gpT, gp. rewrite pos_gpos.
      apply translatePos_gpos; try lia; assumption.
  Qed.

  Theorem gwo_adds (adds : list H) : N.of_nat (length s0) + N.of_nat (length adds) <= 2 ^ T ->
    getWrittenOverEmptyRoots HO (N.of_nat (length s0) + N.of_nat (length adds)) T (N.of_nat (length adds)) []
      (roots HO s0) = Some (erpR H HO T s0 (rev adds)).
  Proof.
    intros Hfit. set (n0 := N.of_nat (length s0)) in *. set (k := N.of_nat (length adds)) in *.
    assert (H63 : n0 + k <= 2 ^ 63).
    { assert (2 ^ T <= 2 ^ 63) by (apply UtilsGeom.pow2_le; exact HT). lia. }
    assert (HW : n0 + k < W).
    { rewrite W_eq. assert (2 ^ 63 < 2 ^ 64) by (apply UtilsGeom.pow2_lt; lia). lia. }
    unfold getWrittenOverEmptyRoots.
    assert (Esub : sub64 (n0 + k) k = n0) by (rewrite sub64_small; lia). rewrite Esub.
    assert (Egr : getRootsAfterDel HO (n0 + k) T k [] (RootPositions n0 T) (roots HO s0) = Some (roots HO s0)).
    { unfold getRootsAfterDel. change (sortN []) with (@nil N). reflexivity. }
    rewrite Egr.
    set (R := rows_of (n0 + k)).
    assert (ER : TreeRows (n0 + k) = N.of_nat R) by (unfold R; symmetry; apply StumpAddData.rows_of_TreeRows).
    assert (HR : (R <= 63)%nat).
    { assert (N.of_nat R <= 63); [|lia]. rewrite <- ER. apply TreeRows_le_63. exact H63. }
    assert (HnR : N.of_nat (length s0 + length adds) <= 2 ^ N.of_nat R).
    { rewrite <- ER. replace (N.of_nat (length s0 + length adds)) with (n0 + k) by (unfold n0, k; lia).
      apply TreeRows_upper. }
    destruct (StumpAddData.to_destroy_struct H HO Hh2 R HR adds s0 HnR) as [Hasc Hmem].
    set (D := StumpAddData.to_destroy_c H HO s0 adds) in *.
    assert (Hd0 : rootsToDestroyB HO k n0 (roots HO s0) = Some (map (StumpAddData.cpos R) D)).
    { unfold rootsToDestroyB. rewrite roots_flags.
      destruct (existsb (fun b => b) (map isN (forest HO s0))) eqn:Eex.
      - unfold k. rewrite Nat2N.id. fold k.
        assert (Ea : add64 n0 k = n0 + k) by (unfold add64; apply wrap_small; exact HW).
        rewrite Ea, ER, <- map_rev. unfold n0.
        etransitivity; [exact (rtd_loopB_spec H HO Hh2 R HR adds s0 HnR)|].
        rewrite StumpAddData.to_destroy_coords. reflexivity.
      - assert (ED : D = []).
        { destruct D as [|d D']; [reflexivity|exfalso].
          destruct (Hmem d (or_introl eq_refl)) as [(e & He & Hn & _) _].
          assert (Ht : existsb (fun b => b) (map isN (forest HO s0)) = true).
          { apply existsb_exists. exists true. split; [|reflexivity]. apply in_map_iff. exists e.
            split; [unfold StumpAddData.isN; rewrite Hn; reflexivity|exact He]. }
          congruence. }
        rewrite ED. reflexivity. }
    rewrite Hd0, ER.
    assert (Hval : forall d, In d D -> StumpAddData.cvalid R d /\ cvalidT d).
    { intros d Hd. destruct (Hmem d Hd) as [(e & He & _ & ->) _]. split.
      - apply (StumpAddData.ecoord_valid H HO R s0 e); [lia|exact He].
      - exact (entry_validT e He). }
    rewrite (destroyed_translate R D HR Hval).
    replace (RootPositions n0 T) with (map (posE H T) (forest HO s0)) by (symmetry; exact (RootPositions_forest H HO T HT s0 HnT)).
    etransitivity; [exact (gwo_loop_spec H HO entry isN (posE H T) (map gT D) (forest HO s0) (roots HO s0) [] roots_flags)|].
    f_equal. rewrite (erpR_destroyed H HO Hh2 T HT adds s0 Hfit). fold D.
    apply gwo_desc.
    - apply (asc_SSlt D 0%nat Hasc). intros d Hd. exact (proj2 (Hval d Hd)).
    - exact forest_pos_sorted.
    - intros p Hp. apply in_map_iff in Hp as (d & <- & Hd). destruct (Hmem d Hd) as [(e & He & Hn & ->) _].
      exists e. split; [exact He|]. split; [unfold StumpAddData.isN; rewrite Hn; reflexivity|reflexivity].
  Qed.
End GwoSpec.
(** * Part 12: [Undo] of a block of additions; any depth *)
Section UndoAddsFinal.
  Variable H : Type.
  Variable HO : ops H.
  Hypothesis HOK : ops_ok HO.
  Hypothesis Hh2 : forall x y, op_eqb HO (op_hash2 HO x y) (op_empty HO) = false.

  (** G1: undoing a block that only added leaves.  [R2] = [R1] without the added leaves. *)
  Theorem undo_adds (s0 : slots H) (adds : list H) (R1 : list H) (m1 : mstate H) :
    UInv HO (s0 ++ map Some adds) R1 m1 ->
    exists m2 R2, mm_undo HO m1 (N.of_nat (length adds)) [] [] [] (roots HO s0) = Some m2 /\
      UInv HO s0 R2 m2 /\ (forall x, In x R2 <-> In x R1 /\ ~ In x adds) /\
      ms_n m2 = N.of_nat (length s0) /\ ms_total m2 = ms_total m1 /\ ms_full m2 = ms_full m1.
  Proof.
    intros U. apply (undo_adds_gen H HO HOK Hh2 s0 adds R1 m1 U).
    pose proof (u_n U) as Un. unfold num_leaves in Un. rewrite app_length, map_length in Un.
    assert (HnT : N.of_nat (length s0) + N.of_nat (length adds) <= 2 ^ ms_total m1).
    { apply TreeRows_le_iff. pose proof (u_rows U) as Hr. rewrite Un in Hr.
      replace (N.of_nat (length s0) + N.of_nat (length adds)) with (N.of_nat (length s0 + length adds)) by lia. exact Hr. }
    replace (ms_n m1) with (N.of_nat (length s0) + N.of_nat (length adds)) by lia.
    apply (gwo_adds H HO HOK Hh2 (ms_total m1) (u_T63 U) s0 ltac:(lia)); [|exact HnT].
    intros h Hh. apply (u_leaves U). apply in_or_app. left. exact Hh.
  Qed.

  (** the bridge from the invariant of Proofs/MapMutAdd.v *)
  Lemma AddInv_UInv (s : slots H) R m : MapMutAdd.Inv H HO s R m ->
    (forall h, In (Some h) s -> forall x y, h <> op_hash2 HO x y) -> UInv HO s R m.
  Proof.
    intros I Hnn. destruct I as [A B C D E F G _]. constructor; try assumption.
    intros h Hh. split; [exact (F h Hh)|exact (Hnn h Hh)].
  Qed.

  (** G4 (blocks of additions): undoing the last [k] blocks, newest first, restores the state
      [k] blocks ago *)
  Fixpoint apply_adds (s : slots H) (bs : list (list H)) : slots H :=
    match bs with
    | [] => s
    | b :: r => apply_adds (s ++ map Some b) r
    end.
  Fixpoint undo_add_blocks (s : slots H) (bs : list (list H)) (m : mstate H) : option (mstate H) :=
    match bs with
    | [] => Some m
    | b :: r =>
        match undo_add_blocks (s ++ map Some b) r m with
        | Some m' => mm_undo HO m' (N.of_nat (length b)) [] [] [] (roots HO s)
        | None => None
        end
    end.

  Theorem undo_adds_depth : forall bs (s : slots H) (R : list H) (m : mstate H),
    UInv HO (apply_adds s bs) R m ->
    exists m' R', undo_add_blocks s bs m = Some m' /\ UInv HO s R' m' /\
      (forall x, In x R' <-> In x R /\ ~ In x (concat bs)) /\
      ms_n m' = N.of_nat (length s) /\ ms_total m' = ms_total m /\ ms_full m' = ms_full m.
  Proof.
    induction bs as [|b r IH]; intros s R m U.
    - exists m, R. cbn [undo_add_blocks concat apply_adds] in *. split; [reflexivity|]. split; [exact U|].
      split; [intros x; cbn [In]; tauto|]. split; [exact (u_n U)|auto].
    - cbn [apply_adds] in U. destruct (IH _ R m U) as (m1 & R1 & E1 & U1 & HR1 & _ & ET1 & EF1).
      destruct (undo_adds s b R1 m1 U1) as (m2 & R2 & E2 & U2 & HR2 & En2 & ET2 & EF2).
      exists m2, R2. cbn [undo_add_blocks]. rewrite E1. split; [exact E2|]. split; [exact U2|].
      split; [|split; [exact En2|split; congruence]].
      intros x. rewrite HR2, HR1. cbn [concat]. rewrite in_app_iff. tauto.
  Qed.

  (** the observable consequences: after the undo the read side answers as before the block *)
  Corollary undo_adds_consistent (s0 : slots H) (adds : list H) (R1 : list H) (m1 : mstate H) :
    UInv HO (s0 ++ map Some adds) R1 m1 ->
    exists m2 R2, mm_undo HO m1 (N.of_nat (length adds)) [] [] [] (roots HO s0) = Some m2 /\
      consistent HO s0 R2 m2 /\ (forall x, In x R2 <-> In x R1 /\ ~ In x adds) /\
      getRoots HO m2 = roots HO s0 /\ ms_n m2 = num_leaves s0.
  Proof.
    intros U. destruct (undo_adds s0 adds R1 m1 U) as (m2 & R2 & E & U2 & HR & En & _).
    pose proof (UInv_consistent H HO HOK s0 R2 m2 U2) as Hc.
    exists m2, R2. split; [exact E|]. split; [exact Hc|]. split; [exact HR|].
    split; [exact (map_getroots H HO s0 R2 m2 Hc)|exact En].
  Qed.
End UndoAddsFinal.
(** * Part 13: a block of additions applied with [Modify] and undone; an example *)
Section ModifyUndo.
  Variable H : Type.
  Variable HO : ops H.
  Hypothesis HOK : ops_ok HO.
  Hypothesis Hh2 : forall x y, op_eqb HO (op_hash2 HO x y) (op_empty HO) = false.

  Lemma Rnext_fold_In (full : bool) : forall (adds : list (H * bool)) (R : list H) x,
    In x (fold_left (Rnext H full) adds R) -> In x R \/ In x (map fst adds).
  Proof.
    induction adds as [|e adds IH]; intros R x Hx; [left; exact Hx|]. cbn [fold_left map In] in *.
    destruct (IH _ _ Hx) as [A|A]; [|right; right; exact A]. unfold Rnext in A.
    destruct (full || snd e); [|left; exact A]. apply in_app_or in A as [A|[A|[]]]; [left; exact A|right; left; exact A].
  Qed.

  Lemma Rnext_fold_mono (full : bool) : forall (adds : list (H * bool)) (R : list H) x,
    In x R -> In x (fold_left (Rnext H full) adds R).
  Proof.
    induction adds as [|e adds IH]; intros R x Hx; [exact Hx|]. cbn [fold_left]. apply IH. unfold Rnext.
    destruct (full || snd e); [apply in_or_app; left; exact Hx|exact Hx].
  Qed.

  Lemma UInv_ext (s : slots H) (R R' : list H) (m : mstate H) : (forall x, In x R <-> In x R') ->
    UInv HO s R m -> UInv HO s R' m.
  Proof.
    intros HR [A B C D E F G]. constructor; try assumption.
    assert (HnT : N.of_nat (length s) <= 2 ^ ms_total m).
    { apply TreeRows_le_iff. unfold num_leaves in A. rewrite <- A. exact C. }
    pose proof (GInv_WInvX H _ _ R _ _ _ (Vlay_ok H HO s (ms_total m) HnT D) G) as W.
    apply (WInvX_GInv_lay H HO s R' (ms_total m)).
    - apply (WInvX_ext H (Vlay HO s) (Vlay HO s) (RTlay HO s) (RTlay HO s) R R' (ms_total m) noX noX); try reflexivity; assumption.
    - intros r o Hr. exact (g_roots G Hr).
  Qed.

  (** C06 for a block of additions, from the state before the block: [Modify] then [Undo] with
      the block's addition count and the previous roots gives a forest that is consistent with the
      reference forest BEFORE the block, remembering exactly what was remembered before *)
  Theorem modify_undo_adds (s : slots H) (R : list H) (m : mstate H) (adds : list (H * bool)) :
    MapMutAdd.Inv H HO s R m ->
    N.of_nat (length s) + N.of_nat (length adds) <= 2 ^ 63 ->
    adds_ok H HO s R (ms_full m) adds ->
    (forall h, In (Some h) (s ++ map Some (map fst adds)) -> forall x y, h <> op_hash2 HO x y) ->
    exists m1 m2, mm_modify HO m adds [] [] [] = Some m1 /\
      mm_undo HO m1 (N.of_nat (length adds)) [] [] [] (roots HO s) = Some m2 /\
      consistent HO s R m2 /\ getRoots HO m2 = roots HO s /\ ms_n m2 = ms_n m /\
      ms_total m <= ms_total m2 /\ ms_full m2 = ms_full m.
  Proof.
    intros I Hfit Hok Hnn.
    destruct (modify_adds_gen H HO HOK Hh2 adds s R m I Hfit Hok) as (m1 & E1 & I1 & HT1 & F1).
    pose proof (AddInv_UInv H HO _ _ _ I1 Hnn) as U1.
    destruct (undo_adds H HO HOK Hh2 s (map fst adds) _ m1 U1) as (m2 & R2 & E2 & U2 & HR2 & En2 & ET2 & EF2).
    rewrite map_length in E2.
    exists m1, m2. split; [exact E1|]. split; [exact E2|].
    assert (HRR : forall x, In x R2 <-> In x R).
    { intros x. rewrite HR2. split.
      - intros [A B]. destruct (Rnext_fold_In _ _ _ _ A) as [C|C]; [exact C|contradiction].
      - intros Hx. split; [apply Rnext_fold_mono; exact Hx|]. intros Hin.
        (* the added leaves are fresh, the remembered leaves are live *)
        pose proof (MapMutAdd.Inv_consistent H HO HOK s R m I) as Hc. pose proof (cs_R_live Hc x Hx) as Hlive.
        clear - Hok Hin Hlive. revert s R Hok Hlive. induction adds as [|e adds IH]; intros s R Hok Hlive; [destruct Hin|].
        cbn [adds_ok] in Hok. destruct Hok as (Hfresh & _ & _ & Hrest). cbn [map In] in Hin.
        destruct Hin as [Ee|Hin]; [rewrite <- Ee in Hlive; exact (Hfresh Hlive)|].
        apply (IH Hin _ _ Hrest). apply in_or_app. left. exact Hlive. }
    pose proof (UInv_ext s R2 R m2 HRR U2) as U3.
    pose proof (UInv_consistent H HO HOK s R m2 U3) as Hc.
    split; [exact Hc|]. split; [exact (map_getroots H HO s R m2 Hc)|].
    pose proof (MapMutAdd.inv_n H HO s R m I) as En. unfold num_leaves in En.
    split; [congruence|]. split; [lia|congruence].
  Qed.
End ModifyUndo.
(** * Part 15: the layout after the deletion of a subtree, conversely *)
Lemma under_iff_range R c r o : MapMutRemove.under (R, c) (r, o) <->
  (r <= R)%nat /\ c * p2 (R - r) <= o < (c + 1) * p2 (R - r).
Proof.
  unfold MapMutRemove.under. cbn [fst snd]. pose proof (p2_pos (R - r)) as Hp. split.
  - intros [Hr E]. split; [exact Hr|]. pose proof (N.div_mod' o (p2 (R - r))) as Hdm.
    pose proof (N.mod_lt o (p2 (R - r)) ltac:(lia)). rewrite E in Hdm. nia.
  - intros [Hr Ho]. split; [exact Hr|]. symmetry. apply (N.div_unique o (p2 (R - r)) c (o - c * p2 (R - r))); lia.
Qed.

Lemma inSubG_under rd od r o : inSubG rd od r o <-> MapMutRemove.under (rd, N.lxor od 1) (r, o).
Proof. rewrite under_iff_range. reflexivity. Qed.
Lemma inDelG_under rd od r o : inDelG rd od r o <-> MapMutRemove.under (rd, od) (r, o).
Proof. rewrite under_iff_range. reflexivity. Qed.
Lemma inRegG_under rd od r o : inRegG rd od r o <-> MapMutRemove.under (S rd, od / 2) (r, o).
Proof. rewrite under_iff_range. reflexivity. Qed.

Lemma anc_under0 r o k : MapMutRemove.under ((r + k)%nat, o / 2 ^ N.of_nat k) (r, o).
Proof. split; [cbn; lia|]. cbn [fst snd]. replace (r + k - r)%nat with k by lia. reflexivity. Qed.

Section LeafBelow.
  Variable H : Type.
  Variable HO : ops H.
  Notation under := MapMutRemove.under.

  (** every node that is no empty root has a leaf below it *)
  Lemma leaf_below (s : slots H) : forall k (y : node H), nrow y = k -> In y (layout HO s) ->
    (exists z, In z (layout HO s) /\ nleaf z = true /\ under (coord y) (coord z)) \/
    (nroot y = true /\ nleaf y = false /\ nhash y = op_empty HO).
  Proof.
    induction k as [k IH] using lt_wf_ind. intros y Ek Hy.
    destruct (node_cases H HO s _ _ y (tnode_in H HO s y Hy))
      as [r' xl xr _ Er Hxl _ _ _ _ Hrl _|Ly _ _|Hr Hl He _ _ _].
    - apply tnode_some in Hxl as (Hxlin & Exr & Exo).
      destruct (IH r' ltac:(lia) xl Exr Hxlin) as [(z & Hz & Lz & Uz)|(C & _)]; [|congruence].
      left. exists z. split; [exact Hz|]. split; [exact Lz|].
      apply (MapMutRemove.under_trans _ (coord xl)); [|exact Uz].
      unfold coord. rewrite Exr, Exo, Er. split; [cbn; lia|]. cbn [fst snd].
      replace (S r' - r')%nat with 1%nat by lia. change (p2 1) with 2. apply pps_div2_double.
    - left. exists y. split; [exact Hy|]. split; [exact Ly|apply MapMutRemove.under_refl].
    - right. auto.
  Qed.
End LeafBelow.
Section KillConv.
  Variable H : Type.
  Variable HO : ops H.
  Hypothesis HOK : ops_ok HO.
  Variable s : slots H.
  Variable L : list H.
  Variable x : node H.
  Variable T : N.
  Hypothesis Hn63 : N.of_nat (length s) <= 2 ^ 63.
  Hypothesis HTlo : TreeRows (N.of_nat (length s)) <= T.
  Hypothesis HT63 : T <= 63.
  Hypothesis Hnd : NoDup (live s).
  Hypothesis Hx : In x (layout HO s).
  Hypothesis Hdel : forall y, In y (layout HO s) -> nleaf y = true ->
    (memH HO (nhash y) L = true <-> MapMutRemove.under (coord x) (coord y)).
  Hypothesis Hroot : nroot x = false.
  Notation under := MapMutRemove.under.
  Notation lay := (layout HO s).
  Notation lay' := (layout HO (kill HO L s)).
  Notation rd := (nrow x).
  Notation od := (noff x).
  Notation Pc := (S (nrow x), noff x / 2).
  Notation sbc := (nrow x, N.lxor (noff x) 1).
  Notation bb := (Nat.eqb (S (nrow x)) (ntree x)).
  Notation upn := (MapMutRemove.upn H).

  Lemma len_kill : length (kill HO L s) = length s.
  Proof. unfold kill. apply map_length. Qed.

  Lemma KI y : In y lay ->
    (~ under Pc (coord y) -> ~ under (coord y) Pc -> In y lay') /\
    (under sbc (coord y) -> In (upn rd bb y) lay') /\
    (under (coord y) Pc -> coord y <> Pc -> exists h', In (MapMutRemove.sethash H y h') lay').
  Proof. exact (MapMutRemove.kill_inner H HO s L x Hx Hdel Hroot y). Qed.

  Lemma coord_upn y : coord (upn rd bb y) = (S (nrow y), rmbit (noff y) (N.of_nat (rd - nrow y))).
  Proof. reflexivity. Qed.

  Lemma rmbit_div_pow o : forall k b, N.of_nat k <= b -> rmbit o b / 2 ^ N.of_nat k = rmbit (o / 2 ^ N.of_nat k) (b - N.of_nat k).
  Proof.
    induction k as [|k IH]; intros b Hb.
    - change (N.of_nat 0) with 0. rewrite N.pow_0_r, !N.div_1_r, N.sub_0_r. reflexivity.
    - replace (N.of_nat (S k)) with (N.of_nat k + 1) by lia. rewrite UtilsGeom.pow2_S.
      replace (2 * 2 ^ N.of_nat k) with (2 ^ N.of_nat k * 2) by lia.
      rewrite <- !N.div_div by (try apply pow2_nz; lia). rewrite (IH b ltac:(lia)).
      rewrite rmbit_div2 by lia. f_equal. lia.
  Qed.

  (** the leaves after the deletion are the leaves that were not deleted, where they were or
      one row higher *)
  Lemma img_leaf z' : In z' lay' -> nleaf z' = true ->
    exists z, In z lay /\ nleaf z = true /\
      ((under sbc (coord z) /\ z' = upn rd bb z) \/
       (~ under Pc (coord z) /\ ~ under (coord z) Pc /\ z' = z)).
  Proof.
    intros Hz' Lz'. pose proof (layout_leaf_live H HO _ z' Hz' Lz') as Hl.
    apply MapMutRemove.kill_live in Hl as [Hl Hm].
    destruct (live_leaf_in_layout H HO s _ Hl) as (z & Hz & Lz & Ez). rewrite <- Ez in Hm.
    assert (Hnx : ~ under (coord x) (coord z)).
    { intros Ux. apply (Hdel z Hz Lz) in Ux. congruence. }
    pose proof (MapMutRemove.kill_nodup H HO L s Hnd) as Hnd'.
    destruct (MapMutRemove.ng_family H HO s x Hx Hroot) as (p & sbn & Hp & Hsbn & _ & Hpl & _ & Ep & _).
    destruct (KI z Hz) as (K1 & K2 & _).
    exists z. split; [exact Hz|]. split; [exact Lz|].
    destruct (MapMutRemove.under_dec Pc (coord z)) as [UP|NP].
    - left. assert (Hne : coord z <> Pc).
      { intros C. rewrite <- Ep in C. rewrite (MapMutRemove.ng_coord_eq H HO s z p Hz Hp C) in Lz. congruence. }
      destruct (MapMutRemove.under_P_split _ _ _ UP Hne) as [Ux|Us]; [destruct (Hnx Ux)|].
      split; [exact Us|].
      apply (live_leaf_unique H HO _ _ _ Hnd' Hz' (K2 Us) Lz' Lz). cbn. congruence.
    - right. split; [exact NP|].
      assert (NP2 : ~ under (coord z) Pc).
      { intros U. rewrite <- Ep in U.
        rewrite (MapMutRemove.ng_leaf_bottom H HO s T Hn63 HTlo HT63 z p Hz Hp Lz U) in Hpl. congruence. }
      split; [exact NP2|].
      apply (live_leaf_unique H HO _ _ _ Hnd' Hz' (K1 NP NP2) Lz' Lz). congruence.
  Qed.

  Lemma anc_under r o k : under ((r + k)%nat, o / 2 ^ N.of_nat k) (r, o).
  Proof. split; [cbn; lia|]. cbn [fst snd]. replace (r + k - r)%nat with k by lia. reflexivity. Qed.

  (** every node after the deletion is the image of a node before, or lies above the parent *)
  Theorem kill_inner_conv y' : In y' lay' ->
    (exists y, In y lay /\ y' = y /\ ~ under Pc (coord y) /\ ~ under (coord y) Pc) \/
    (exists y, In y lay /\ under sbc (coord y) /\ y' = upn rd bb y) \/
    (under (coord y') Pc /\ coord y' <> Pc).
  Proof.
    intros Hy'.
    assert (Hn63' : N.of_nat (length (kill HO L s)) <= 2 ^ 63) by (rewrite len_kill; exact Hn63).
    assert (HTlo' : TreeRows (N.of_nat (length (kill HO L s))) <= T) by (rewrite len_kill; exact HTlo).
    destruct (MapMutRemove.ng_family H HO s x Hx Hroot) as (p & sbn & Hp & Hsbn & Hsr & Hpl & Es & Ep & Etp & Ets & _).
    assert (Hrdt : (rd < ntree x)%nat) by (apply (nonroot_iff_row H HO s Hn63 x Hx); exact Hroot).
    (* a node of the old layout at the coordinate of [y'] that is not below the parent *)
    assert (Hold : forall y, In y lay -> coord y = coord y' -> ~ under Pc (coord y) ->
              (exists y0, In y0 lay /\ y' = y0 /\ ~ under Pc (coord y0) /\ ~ under (coord y0) Pc) \/
              (under (coord y') Pc /\ coord y' <> Pc)).
    { intros y Hy Ec NP. destruct (MapMutRemove.under_dec (coord y) Pc) as [U|NU].
      - right. rewrite <- Ec. split; [exact U|]. intros C. apply NP. rewrite C. apply MapMutRemove.under_refl.
      - left. exists y. split; [exact Hy|]. split; [|auto].
        apply (MapMutRemove.ng_coord_eq H HO _ y' y Hy' (proj1 (KI y Hy) NP NU)). congruence. }
    destruct (leaf_below H HO (kill HO L s) (nrow y') y' eq_refl Hy') as [(z' & Hz' & Lz' & Uz')|(Hr' & _)].
    - destruct (img_leaf z' Hz' Lz') as (z & Hz & Lz & [[Us ->]|(NP & NP2 & ->)]).
      + (* the leaf below [y'] is the image of a leaf below the sibling *)
        rewrite coord_upn in Uz'. destruct Uz' as [Hr Eo]. unfold coord in Hr, Eo. cbn [fst snd] in Hr, Eo.
        pose proof Us as [Hzr _]. unfold coord in Hzr. cbn [fst] in Hzr.
        assert (Etz : ntree z = ntree x).
        { rewrite <- Ets. apply (MapMutRemove.ng_same_tree H HO s sbn z Hsbn Hz). rewrite Es. exact Us. }
        destruct (le_gt_dec (nrow y') (S rd)) as [Hle|Hgt].
        * right. left. set (k := (nrow y' - S (nrow z))%nat).
          destruct (MapMutRemove.ng_ancestor H HO s T Hn63 HTlo HT63 z Hz k ltac:(unfold k; lia))
            as (y & Hy & Ecy & _).
          assert (Uy : under sbc (coord y)).
          { apply (MapMutRemove.under_nested (coord y) sbc (coord z)); [rewrite Ecy; apply anc_under|exact Us|].
            rewrite Ecy. cbn [fst]. unfold k. lia. }
          exists y. split; [exact Hy|]. split; [exact Uy|].
          apply (MapMutRemove.ng_coord_eq H HO _ y' _ Hy' (proj1 (proj2 (KI y Hy)) Uy)).
          rewrite coord_upn. injection Ecy as Er Eoy. unfold coord. rewrite Er, Eoy. f_equal; [unfold k; lia|].
          rewrite <- Eo. replace (nrow y' - S (nrow z))%nat with k by reflexivity. unfold p2.
          rewrite rmbit_div_pow by (unfold k; lia). f_equal. clearbody k. clear. lia.
        * right. right. split; [|intros C; injection C as C _; lia].
          apply (MapMutRemove.under_nested Pc (coord y') (S (nrow z), rmbit (noff z) (N.of_nat (rd - nrow z)))).
          -- apply inRegG_under. replace (N.of_nat (rd - nrow z)) with (N.of_nat rd - N.of_nat (nrow z)) by lia.
             destruct (MapMutRemove.ng_valid H HO s T Hn63 HTlo HT63 x Hx) as [_ Vo].
             destruct (MapMutRemove.ng_valid H HO s T Hn63 HTlo HT63 p Hp) as [Vp _].
             assert (Epr : nrow p = S rd) by (injection Ep as A _; exact A).
             apply (upo_reg T rd od HT63 ltac:(lia) Vo). apply inSubG_under. exact Us.
          -- split; [exact Hr|exact Eo].
          -- unfold coord. cbn [fst]. lia.
      + (* the leaf below [y'] has not moved *)
        destruct Uz' as [Hr Eo]. unfold coord in Hr, Eo. cbn [fst snd] in Hr, Eo.
        set (k := (nrow y' - nrow z)%nat).
        assert (Ht : (nrow y' <= ntree z)%nat).
        { pose proof (node_row_le_tree H HO _ y' Hy').
          rewrite (MapMutRemove.ng_same_tree H HO _ y' z Hy' Hz' (conj Hr Eo)). exact H0. }
        destruct (MapMutRemove.ng_ancestor H HO s T Hn63 HTlo HT63 z Hz k ltac:(unfold k; lia)) as (y & Hy & Ecy & _).
        assert (Ec : coord y = coord y').
        { rewrite Ecy. unfold coord. f_equal; [unfold k; lia|]. rewrite <- Eo. reflexivity. }
        destruct (Hold y Hy Ec) as [A|C]; [|left; exact A|right; right; exact C].
        intros U. apply NP. apply (MapMutRemove.under_trans _ (coord y)); [exact U|]. rewrite Ecy. apply anc_under.
    - (* a root *)
      destruct (MapMutRemove.kill_roots H HO L s y' Hy' Hr') as (y & Hy & Hry & Ec).
      destruct (MapMutRemove.under_dec Pc (coord y)) as [UP|NP].
      + destruct (MapMutRemove.under_dec (coord y) Pc) as [U2|N2].
        * (* the parent is a root: the sibling has moved there *)
          right. left. exists sbn. split; [exact Hsbn|]. rewrite Es. split; [apply MapMutRemove.under_refl|].
          assert (Ecy : coord y = Pc) by (symmetry; exact (MapMutRemove.under_antisym _ _ UP U2)).
          apply (MapMutRemove.ng_coord_eq H HO _ y' _ Hy').
          { pose proof (proj1 (proj2 (KI sbn Hsbn))) as K2. rewrite Es in K2. exact (K2 (MapMutRemove.under_refl _)). }
          rewrite <- Ec, Ecy, coord_upn. injection Es as Esr Eso. rewrite Esr, Eso, Nat.sub_diag.
          change (N.of_nat 0) with 0. rewrite rmbit_0. f_equal. symmetry. apply lxor1_div2.
        * exfalso. assert (Hne : coord y <> Pc).
          { intros C. apply N2. rewrite C. apply MapMutRemove.under_refl. }
          destruct (MapMutRemove.under_P_split _ _ _ UP Hne) as [Ux|Us].
          -- exact (MapMutRemove.ng_root_top H HO s T Hn63 HTlo HT63 x y Hx Hy Hroot Hry Ux).
          -- rewrite <- Es in Us. exact (MapMutRemove.ng_root_top H HO s T Hn63 HTlo HT63 sbn y Hsbn Hy Hsr Hry Us).
      + destruct (Hold y Hy Ec NP) as [A|C]; [left; exact A|right; right; exact C].
  Qed.
End KillConv.
(** * Part 16: one step of [undoDeletion]: the subtree below a node that is no root comes back *)
Section LayKinds.
  Variable H : Type.
  Variable HO : ops H.
  Hypothesis HOK : ops_ok HO.

  Lemma Vlay_kind (s : slots H) r o h l : Vlay HO s r o h l ->
    (l = true /\ In (Some h) s) \/
    (l = false /\ (h = op_empty HO \/ exists x y, h = op_hash2 HO x y)).
  Proof.
    intros Hv. apply Vlay_Vent in Hv.
    apply (Vent_kind H HO (forest HO s) (fun x => In (Some x) s) r o h l); [|exact Hv].
    intros k lo c He. pose proof (forest_entry H HO s _ _ _ He) as (_ & _ & _ & _ & _ & Et). symmetry in Et.
    split; [exact (proj1 (compress_wf H HO _ _ _ Et))|]. intros x Hx.
    exact (StumpAddData.forest_leaves_live H HO s (k, lo, Some c) c x He eq_refl Hx).
  Qed.

  Lemma Vlay_sep (s : slots H) (R : list H) r o h : leaves_ok H HO s -> (forall x, In x R -> In (Some x) s) ->
    Vlay HO s r o h false -> ~ In h R.
  Proof.
    intros Hlv HR Hv Hin. destruct (Vlay_kind s r o h false Hv) as [[C _]|[_ [A|(x & y & A)]]]; [discriminate| |].
    - destruct (Hlv _ (HR _ Hin)) as [B _]. subst h. rewrite (Heqb_refl H HO HOK) in B. discriminate.
    - destruct (Hlv _ (HR _ Hin)) as [_ B]. exact (B x y A).
  Qed.

  Lemma Vlay_bound (s : slots H) r o h l : Vlay HO s r o h l -> (o + 1) * p2 r <= N.of_nat (length s).
  Proof.
    intros Hv. apply Vlay_Vent in Hv. destruct Hv as ([[k lo] t] & x & He & Hx & <- & <- & _).
    pose proof (forest_entry H HO s _ _ _ He) as (_ & _ & E2 & L1 & _).
    destruct (place_entry_range H HO k lo t _ x E2 Hx) as (_ & _ & A). unfold nhi in A. lia.
  Qed.
End LayKinds.

Lemma insbit_0 q c : insbit q 0 c = 2 * q + N.b2n c.
Proof. unfold insbit. change (2 ^ 0) with 1. change (2 ^ (0 + 1)) with 2. rewrite N.div_1_r, N.mod_1_r. lia. Qed.

Section StepDel.
  Variable H : Type.
  Variable HO : ops H.
  Hypothesis HOK : ops_ok HO.
  Hypothesis Hh2 : forall x y, op_eqb HO (op_hash2 HO x y) (op_empty HO) = false.
  Variable full : bool.
  Variable T : N.
  Hypothesis HT : T <= 63.
  Variable s : slots H.
  Hypothesis HnT : N.of_nat (length s) <= 2 ^ T.
  Hypothesis Hnd : NoDup (live s).
  Hypothesis Hlv : leaves_ok H HO s.
  Variable L : list H.
  Variable x : node H.
  Hypothesis Hx : In x (layout HO s).
  Hypothesis Hdel : forall y, In y (layout HO s) -> nleaf y = true ->
    (memH HO (nhash y) L = true <-> MapMutRemove.under (coord x) (coord y)).
  Hypothesis Hroot : nroot x = false.
  Notation under := MapMutRemove.under.
  Notation lay := (layout HO s).
  Notation s' := (kill HO L s).
  Notation lay' := (layout HO (kill HO L s)).
  Notation rd := (nrow x).
  Notation od := (noff x).
  Notation Pc := (S (nrow x), noff x / 2).
  Notation sbc := (nrow x, N.lxor (noff x) 1).
  Notation upn := (MapMutRemove.upn H).
  Notation nodemap := (list (N * (H * bool))).
  Notation cachemap := (list (H * N)).

  Lemma sd_n63 : N.of_nat (length s) <= 2 ^ 63.
  Proof. assert (2 ^ T <= 2 ^ 63) by (apply UtilsGeom.pow2_le; exact HT). lia. Qed.
  Lemma sd_Tlo : TreeRows (N.of_nat (length s)) <= T.
  Proof. apply TreeRows_le_iff. exact HnT. Qed.

  Lemma sd_valid : N.of_nat rd < T /\ od < 2 ^ (T - N.of_nat rd).
  Proof.
    destruct (MapMutRemove.ng_valid H HO s T sd_n63 sd_Tlo HT x Hx) as [_ Vo].
    destruct (MapMutRemove.ng_family H HO s x Hx Hroot) as (p & _ & Hp & _ & _ & _ & _ & Ep & _).
    destruct (MapMutRemove.ng_valid H HO s T sd_n63 sd_Tlo HT p Hp) as [Vp _].
    injection Ep as Epr _. split; [lia|exact Vo].
  Qed.

  Definition VsubD (r : nat) (o : N) (h : H) (l : bool) : Prop := Vlay HO s r o h l /\ inSubG rd od r o.
  Definition XnD (r : nat) (o : N) : Prop := under (r, o) Pc.

  Let KIx := KI H HO s L x Hx Hdel Hroot.
  Let Conv := kill_inner_conv H HO s L x T sd_n63 sd_Tlo HT Hnd Hx Hdel Hroot.

  Lemma Vlay_node r o h l : Vlay HO s r o h l ->
    exists y, In y lay /\ coord y = (r, o) /\ nhash y = h /\ nleaf y = l.
  Proof. intros (y & Hy & <- & <- & <- & <-). exists y. auto. Qed.

  Lemma node_Vlay (s0 : slots H) y : In y (layout HO s0) -> Vlay HO s0 (nrow y) (noff y) (nhash y) (nleaf y).
  Proof. intros Hy. exists y. auto. Qed.

  Lemma upn_Vlay y : In y lay -> under sbc (coord y) ->
    Vlay HO s' (S (nrow y)) (upoG rd (nrow y) (noff y)) (nhash y) (nleaf y).
  Proof.
    intros Hy U. pose proof (proj1 (proj2 (KIx y Hy)) U) as Hin. pose proof U as [Hr _]. unfold coord in Hr. cbn [fst] in Hr.
    exists (upn rd (Nat.eqb (S rd) (ntree x)) y). split; [exact Hin|]. cbn [MapMutRemove.upn nrow noff nhash nleaf].
    split; [reflexivity|]. split; [|auto]. unfold upoG. f_equal. lia.
  Qed.

  Lemma D_HS_up r o h l : VsubD r o h l -> Vlay HO s' (S r) (upoG rd r o) h l.
  Proof.
    intros [Hv Hs]. destruct (Vlay_node _ _ _ _ Hv) as (y & Hy & Ec & <- & <-). injection Ec as <- <-.
    apply upn_Vlay; [exact Hy|]. apply inSubG_under. exact Hs.
  Qed.

  Lemma D_HU_reg r' o' h l : Vlay HO s' r' o' h l -> inRegG rd od r' o' ->
    exists r o, VsubD r o h l /\ r' = S r /\ o' = upoG rd r o.
  Proof.
    intros (y' & Hy' & <- & <- & <- & <-) Hreg. apply inRegG_under in Hreg.
    destruct (Conv y' Hy') as [(y & Hy & -> & NP & _)|[(y & Hy & U & ->)|[U Hne]]].
    - destruct (NP Hreg).
    - pose proof U as [Hr _]. unfold coord in Hr. cbn [fst] in Hr.
      exists (nrow y), (noff y). cbn [MapMutRemove.upn nrow noff nhash nleaf].
      split; [split; [apply node_Vlay, Hy|apply inSubG_under; exact U]|].
      split; [reflexivity|]. unfold upoG. f_equal. lia.
    - destruct Hne. symmetry. exact (MapMutRemove.under_antisym _ _ Hreg U).
  Qed.

  Lemma D_HL_reg r o h l : Vlay HO s r o h l -> inRegG rd od r o -> VsubD r o h l \/ inDelG rd od r o \/ XnD r o.
  Proof.
    destruct sd_valid as [A B]. intros Hv Hreg.
    apply (regG_cases T rd od HT A B) in Hreg as [[-> ->]|[Hs|Hd]].
    - right. right. apply MapMutRemove.under_refl.
    - left. split; assumption.
    - right. left. exact Hd.
  Qed.

  Lemma D_HO_ul r o h l : Vlay HO s' r o h l -> ~ inRegG rd od r o -> Vlay HO s r o h l \/ XnD r o.
  Proof.
    destruct sd_valid as [A B].
    intros (y' & Hy' & <- & <- & <- & <-) Hout.
    destruct (Conv y' Hy') as [(y & Hy & -> & _)|[(y & Hy & U & ->)|[U Hne]]].
    - left. apply node_Vlay, Hy.
    - exfalso. apply Hout. cbn [MapMutRemove.upn nrow noff]. pose proof U as [Hr _]. unfold coord in Hr. cbn [fst] in Hr.
      replace (N.of_nat (rd - nrow y)) with (N.of_nat rd - N.of_nat (nrow y)) by lia.
      apply (upo_reg T rd od HT A B). apply inSubG_under. exact U.
    - right. exact U.
  Qed.

  Lemma D_HO_lu r o h l : Vlay HO s r o h l -> ~ inRegG rd od r o -> ~ XnD r o -> Vlay HO s' r o h l.
  Proof.
    intros Hv Hout HnX. destruct (Vlay_node _ _ _ _ Hv) as (y & Hy & Ec & <- & <-). injection Ec as <- <-.
    apply (node_Vlay s'). apply (proj1 (KIx y Hy)).
    - intros U. apply Hout. apply inRegG_under. exact U.
    - exact HnX.
  Qed.

  Lemma leaf_not_above y : In y lay -> nleaf y = true -> ~ under (coord y) Pc.
  Proof.
    intros Hy Ly U. destruct (MapMutRemove.ng_family H HO s x Hx Hroot) as (p & _ & Hp & _ & _ & Hpl & _ & Ep & _).
    rewrite <- Ep in U. rewrite (MapMutRemove.ng_leaf_bottom H HO s T sd_n63 sd_Tlo HT y p Hy Hp Ly U) in Hpl. congruence.
  Qed.

  Lemma D_HO_leaf r o h : Vlay HO s r o h true -> ~ inRegG rd od r o -> Vlay HO s' r o h true.
  Proof.
    intros Hv Hout. apply D_HO_lu; [exact Hv|exact Hout|].
    destruct (Vlay_node _ _ _ _ Hv) as (y & Hy & Ec & _ & Ly). intros U. unfold XnD in U. rewrite <- Ec in U.
    exact (leaf_not_above y Hy Ly U).
  Qed.

  Lemma D_HDel_leaf (R : list H) r o h : (forall z, In z R -> In (Some z) s') ->
    Vlay HO s r o h true -> inDelG rd od r o -> ~ In h R.
  Proof.
    intros HR Hv Hd Hin. destruct (Vlay_node _ _ _ _ Hv) as (y & Hy & Ec & Eh & Ly).
    apply inDelG_under in Hd. rewrite <- Ec in Hd. apply (Hdel y Hy Ly) in Hd. rewrite Eh in Hd.
    apply HR, MapMutRemove.kill_live in Hin. destruct Hin as [_ Hm]. congruence.
  Qed.

  Lemma D_HXn_inner r o h : XnD r o -> Vlay HO s r o h true -> False.
  Proof.
    intros U Hv. destruct (Vlay_node _ _ _ _ Hv) as (y & Hy & Ec & _ & Ly). unfold XnD in U. rewrite <- Ec in U.
    exact (leaf_not_above y Hy Ly U).
  Qed.

  Lemma D_HXn_inner' r o h : XnD r o -> ~ inRegG rd od r o -> Vlay HO s' r o h true -> False.
  Proof.
    destruct sd_valid as [A B].
    intros U Hout (y' & Hy' & Er & Eo & _ & Ly').
    destruct (img_leaf H HO s L x T sd_n63 sd_Tlo HT Hnd Hx Hdel Hroot y' Hy' Ly') as (z & Hz & Lz & [[Us ->]|(_ & NP2 & ->)]).
    - apply Hout. rewrite <- Er, <- Eo. cbn [MapMutRemove.upn nrow noff].
      pose proof Us as [Hr _]. unfold coord in Hr. cbn [fst] in Hr.
      replace (N.of_nat (rd - nrow z)) with (N.of_nat rd - N.of_nat (nrow z)) by lia.
      apply (upo_reg T rd od HT A B). apply inSubG_under. exact Us.
    - apply NP2. unfold XnD in U. unfold coord. rewrite Er, Eo. exact U.
  Qed.

  Lemma D_HRT r o : RTlay HO s' r o -> RTlay HO s r o.
  Proof.
    intros (y' & Hy' & Hr' & <- & <-).
    destruct (MapMutRemove.kill_roots H HO L s y' Hy' Hr') as (y & Hy & Hry & Ec). injection Ec as Er Eo.
    exists y. auto.
  Qed.

  Lemma D_HRT_sub r o : (r < rd)%nat -> inSubG rd od r o -> ~ RTlay HO s' (S r) (upoG rd r o).
  Proof.
    destruct sd_valid as [A B]. intros Hr Hs C. apply D_HRT in C. destruct C as (y & Hy & Hry & Er & Eo).
    pose proof (upo_reg T rd od HT A B r o Hs) as Hreg. apply inRegG_under in Hreg.
    assert (Ec : coord y = (S r, upoG rd r o)) by (unfold coord; congruence). rewrite <- Ec in Hreg.
    assert (Hne : coord y <> Pc) by (rewrite Ec; intros C; injection C as C _; lia).
    destruct (MapMutRemove.ng_family H HO s x Hx Hroot) as (p & sbn & _ & Hsbn & Hsr & _ & Es & _).
    destruct (MapMutRemove.under_P_split _ _ _ Hreg Hne) as [Ux|Us].
    - exact (MapMutRemove.ng_root_top H HO s T sd_n63 sd_Tlo HT x y Hx Hy Hroot Hry Ux).
    - rewrite <- Es in Us. exact (MapMutRemove.ng_root_top H HO s T sd_n63 sd_Tlo HT sbn y Hsbn Hy Hsr Hry Us).
  Qed.

  Lemma leaves_ok_kill : leaves_ok H HO s'.
  Proof. intros h Hh. apply MapMutRemove.kill_live in Hh as [Hh _]. exact (Hlv h Hh). Qed.

  Lemma D_Hne_sub r o h l : VsubD r o h l -> op_eqb HO h (op_empty HO) = false.
  Proof.
    intros [Hv Hs]. destruct (Vlay_kind H HO s r o h l Hv) as [[_ Hl]|[El [->|(a & b & ->)]]].
    - exact (proj1 (Hlv h Hl)).
    - exfalso. subst l. destruct (Vlay_node _ _ _ _ Hv) as (y & Hy & Ec & Eh & Ly).
      destruct (node_cases H HO s _ _ y (tnode_in H HO s y Hy)) as [r' xl xr _ _ _ _ Ehh _ _ _ _|C _ _|Hry _ _ _ _ _].
      + rewrite Eh in Ehh. pose proof (Hh2 (nhash xl) (nhash xr)) as C. rewrite <- Ehh, (Heqb_refl H HO HOK) in C. discriminate.
      + congruence.
      + destruct (MapMutRemove.ng_family H HO s x Hx Hroot) as (p & sbn & _ & Hsbn & Hsr & _ & Es & _).
        apply inSubG_under in Hs. rewrite <- Ec, <- Es in Hs.
        exact (MapMutRemove.ng_root_top H HO s T sd_n63 sd_Tlo HT sbn y Hsbn Hy Hsr Hry Hs).
    - apply Hh2.
  Qed.

  (** the step on the weak invariant *)
  Theorem stepD_WInvX (R : list H) (X : nat -> N -> Prop) (nd0 : nodemap) (ca0 : cachemap) :
    (forall z, In z R -> In (Some z) s') ->
    (forall r o, X r o -> ~ inRegG rd od r o) ->
    (forall r o h, X r o -> Vlay HO s' r o h true -> ~ In h R) ->
    WInvX (Vlay HO s') (RTlay HO s') R T X nd0 ca0 ->
    exists st1, placeEmptyRoot HO T full (gp T rd od) (nd0, ca0) = (st1, true) /\
      WInvX (Vlay HO s) (RTlay HO s) R T (fun r o => X r o \/ XnD r o \/ inDelG rd od r o)
            (fst (pmove H HO full T rd od st1)) (snd (pmove H HO full T rd od st1)).
  Proof.
    intros HR HXout HXleaf W'. destruct sd_valid as [A B].
    apply (pullB H HO HOK full T rd od HT A B (Vlay HO s') (Vlay HO s) VsubD (RTlay HO s') (RTlay HO s) R X XnD).
    - exact (Vlay_ok H HO s T HnT HT).
    - intros r o h l [_ Hs]. exact Hs.
    - exact D_HS_up.
    - intros r o h l [Hv _]. exact Hv.
    - exact D_HU_reg.
    - exact D_HL_reg.
    - exact D_HO_ul.
    - exact D_HO_lu.
    - exact D_HO_leaf.
    - intros r o h. exact (D_HDel_leaf R r o h HR).
    - exact D_HXn_inner.
    - exact D_HXn_inner'.
    - intros r o _. exact (D_HRT r o).
    - intros C. left. exact (D_HRT _ _ C).
    - exact D_HRT_sub.
    - intros r o h Hv. exact (Vlay_sep H HO HOK s' R r o h leaves_ok_kill HR Hv).
    - intros r o Hx'. left. exact (HXout r o Hx').
    - exact HXleaf.
    - exact W'.
    - intros C. destruct (HXout _ _ C (P_reg T rd od HT A B)).
    - exact D_Hne_sub.
    - intros C. exact (HXout _ _ C (P_reg T rd od HT A B)).
  Qed.
End StepDel.
(** * Part 17: the step of [undoDeletion] for a deleted tree (the target is a root) *)
Section StepRoot.
  Variable H : Type.
  Variable HO : ops H.
  Hypothesis HOK : ops_ok HO.
  Variable T : N.
  Hypothesis HT : T <= 63.
  Variable s : slots H.
  Hypothesis HnT : N.of_nat (length s) <= 2 ^ T.
  Hypothesis Hnd : NoDup (live s).
  Variable L : list H.
  Variable x : node H.
  Hypothesis Hx : In x (layout HO s).
  Hypothesis Hdel : forall y, In y (layout HO s) -> nleaf y = true ->
    (memH HO (nhash y) L = true <-> MapMutRemove.under (coord x) (coord y)).
  Hypothesis Hroot : nroot x = true.
  Notation under := MapMutRemove.under.
  Notation lay := (layout HO s).
  Notation s' := (kill HO L s).
  Notation lay' := (layout HO (kill HO L s)).

  Let n63 : N.of_nat (length s) <= 2 ^ 63.
  Proof. assert (2 ^ T <= 2 ^ 63) by (apply UtilsGeom.pow2_le; exact HT). lia. Qed.
  Let Tlo : TreeRows (N.of_nat (length s)) <= T.
  Proof. apply TreeRows_le_iff. exact HnT. Qed.

  Lemma KR : In (mkNode (nrow x) (noff x) (op_empty HO) false true (nrow x)) lay' /\
    (forall y, In y lay -> ~ under (coord x) (coord y) -> In y lay').
  Proof. exact (MapMutRemove.kill_root H HO s L x Hx Hdel Hroot). Qed.

  Theorem kill_root_conv y' : In y' lay' ->
    y' = mkNode (nrow x) (noff x) (op_empty HO) false true (nrow x) \/
    (In y' lay /\ ~ under (coord x) (coord y')).
  Proof.
    intros Hy'.
    assert (Hn63' : N.of_nat (length (kill HO L s)) <= 2 ^ 63) by (rewrite (len_kill H HO s L); exact n63).
    assert (HTlo' : TreeRows (N.of_nat (length (kill HO L s))) <= T) by (rewrite (len_kill H HO s L); exact Tlo).
    pose proof (MapMutRemove.kill_nodup H HO L s Hnd) as Hnd'.
    assert (Hold : forall y, In y lay -> coord y = coord y' -> ~ under (coord x) (coord y) ->
              In y' lay /\ ~ under (coord x) (coord y')).
    { intros y Hy Ec Hn. rewrite (MapMutRemove.ng_coord_eq H HO _ y' y Hy' (proj2 KR y Hy Hn) (eq_sym Ec)).
      split; assumption. }
    destruct (leaf_below H HO (kill HO L s) (nrow y') y' eq_refl Hy') as [(z' & Hz' & Lz' & Uz')|(Hr' & _)].
    - right. pose proof (layout_leaf_live H HO _ z' Hz' Lz') as Hl.
      apply MapMutRemove.kill_live in Hl as [Hl Hm].
      destruct (live_leaf_in_layout H HO s _ Hl) as (z & Hz & Lz & Ez). rewrite <- Ez in Hm.
      assert (Hnx : ~ under (coord x) (coord z)).
      { intros Ux. apply (Hdel z Hz Lz) in Ux. congruence. }
      assert (Ezz : z' = z) by (apply (live_leaf_unique H HO _ _ _ Hnd' Hz' (proj2 KR z Hz Hnx) Lz' Lz); congruence).
      subst z'. destruct Uz' as [Hr Eo]. unfold coord in Hr, Eo. cbn [fst snd] in Hr, Eo.
      set (k := (nrow y' - nrow z)%nat).
      assert (Ht : (nrow y' <= ntree z)%nat).
      { pose proof (node_row_le_tree H HO _ y' Hy') as Hle.
        rewrite (MapMutRemove.ng_same_tree H HO _ y' z Hy' Hz' (conj Hr Eo)). exact Hle. }
      destruct (MapMutRemove.ng_ancestor H HO s T n63 Tlo HT z Hz k ltac:(unfold k; lia)) as (y & Hy & Ecy & _).
      assert (Ec : coord y = coord y').
      { rewrite Ecy. unfold coord. f_equal; [unfold k; lia|]. rewrite <- Eo. reflexivity. }
      apply (Hold y Hy Ec). intros U. apply Hnx.
      apply (MapMutRemove.under_trans _ (coord y)); [exact U|]. rewrite Ecy. apply anc_under0.
    - destruct (MapMutRemove.kill_roots H HO L s y' Hy' Hr') as (y & Hy & Hry & Ec).
      destruct (MapMutRemove.under_dec (coord x) (coord y)) as [U|NU].
      + left. assert (Exy : coord y = coord x).
        { pose proof (MapMutRemove.ng_same_tree H HO s x y Hx Hy U) as Et.
          apply (root_iff_row H HO s y Hy) in Hry. apply (root_iff_row H HO s x Hx) in Hroot.
          destruct U as [Hr Eo]. unfold coord in *. cbn [fst snd] in *.
          assert (Er : nrow y = nrow x) by lia. rewrite Er, Nat.sub_diag, p2_0, N.div_1_r in Eo. congruence. }
        apply (MapMutRemove.ng_coord_eq H HO _ y' _ Hy' (proj1 KR)). rewrite <- Ec, Exy. reflexivity.
      + right. exact (Hold y Hy Ec NU).
  Qed.

  Lemma R_HRT r o : RTlay HO s' r o -> RTlay HO s r o.
  Proof.
    intros (y' & Hy' & Hr' & <- & <-).
    destruct (MapMutRemove.kill_roots H HO L s y' Hy' Hr') as (y & Hy & Hry & Ec). injection Ec as Er Eo.
    exists y. auto.
  Qed.

  Theorem stepR_WInvX (R : list H) (X : nat -> N -> Prop) nd ca :
    (forall z, In z R -> In (Some z) s') ->
    WInvX (Vlay HO s') (RTlay HO s') R T X nd ca ->
    WInvX (Vlay HO s) (RTlay HO s) R T (fun r o => X r o \/ under (coord x) (r, o)) nd ca.
  Proof.
    intros HR W.
    assert (Hfw : forall r o h l, Vlay HO s r o h l -> ~ under (coord x) (r, o) -> Vlay HO s' r o h l).
    { intros r o h l (y & Hy & <- & <- & <- & <-) Hn. exists y. split; [exact (proj2 KR y Hy Hn)|auto]. }
    assert (Hleaf : forall r o h, Vlay HO s r o h true -> In h R -> ~ under (coord x) (r, o)).
    { intros r o h (y & Hy & <- & <- & <- & Ly) Hh U. apply (Hdel y Hy Ly) in U.
      apply HR, MapMutRemove.kill_live in Hh. destruct Hh as [_ Hm]. congruence. }
    assert (Hkn : forall r o, known (Vlay HO s) (RTlay HO s) R r o ->
              known (Vlay HO s') (RTlay HO s') R r o /\ ~ under (coord x) (r, o)).
    { intros r o Hk. induction Hk as [r o h Hv Hh|r o _ [IH1 IH2] Hn].
      - pose proof (Hleaf _ _ _ Hv Hh) as Hnu. split; [|exact Hnu].
        exact (kn_leaf _ _ _ _ _ h (Hfw _ _ _ _ Hv Hnu) Hh).
      - split.
        + apply kn_up; [exact IH1|]. intros C. exact (Hn (R_HRT _ _ C)).
        + intros U. apply IH2. apply (MapMutRemove.under_trans _ (S r, o / 2)); [exact U|].
          replace (S r) with (r + 1)%nat by lia. change 2 with (2 ^ N.of_nat 1). apply anc_under0. }
    constructor.
    - exact (w_nodup W).
    - intros p h b Hin. destruct (w_true W _ _ _ Hin) as (r & o & Ep & A & B & [C|(l & (y' & Hy' & Er & Eo & Eh & El))]);
        exists r, o; repeat split; auto.
      destruct (kill_root_conv y' Hy') as [->|[Hy _]].
      + left. right. cbn [nrow noff] in Er, Eo. rewrite <- Er, <- Eo. apply MapMutRemove.under_refl.
      + right. exists l, y'. auto.
    - exact (w_cR W).
    - intros h p Hin. destruct (w_cpos W _ _ Hin) as (r & o & (y' & Hy' & Er & Eo & Eh & El) & Ep).
      exists r, o. split; [|exact Ep]. destruct (kill_root_conv y' Hy') as [->|[Hy _]]; [discriminate El|].
      exists y'. auto.
    - intros r o h Hv Hh HnX. apply (w_tgt W _ _ _ (Hfw _ _ _ _ Hv ltac:(tauto)) Hh). tauto.
    - intros r o Hk Hn h l Hv HnX. destruct (Hkn _ _ Hk) as [Hk' _].
      apply (w_sibs W r o Hk') with (h := h) (l := l).
      + intros C. exact (Hn (R_HRT _ _ C)).
      + apply Hfw; [exact Hv|tauto].
      + tauto.
  Qed.
End StepRoot.
(** * Part 18: the loop of [undoDeletion] that moves the subtrees down: its body

    Remark (what the induction over the targets needs).  [stepD_WInvX] exempts ALL coordinates
    above the parent of the target and ALL coordinates below the target; only those that hold a
    node of the layout are written by [put_calculated] at the end.  The others hold nothing
    ([placeEmptyRoot_coords]: [pc_del]; the truth clause for coordinates above the root of the
    tree), so they can be dropped with [WInvX_unexempt] step by step; the loop invariant is then
    the weak invariant with the exempt set "node coordinates of [s] that lie below a later
    target, or above the parent of a later target that is no root". *)
Section MoveDownGeo.
  Variable H : Type.
  Variable HO : ops H.
  Variable full : bool.
  Variable T : N.
  Hypothesis HT : T <= 63.
  Variable s : slots H.
  Hypothesis HnT : N.of_nat (length s) <= 2 ^ T.
  Notation n := (N.of_nat (length s)).
  Notation lay := (layout HO s).

  Definition posN (y : node H) : N := gp T (nrow y) (noff y).

  Let n63 : n <= 2 ^ 63.
  Proof. assert (2 ^ T <= 2 ^ 63) by (apply UtilsGeom.pow2_le; exact HT). lia. Qed.
  Let Tlo : TreeRows n <= T.
  Proof. apply TreeRows_le_iff. exact HnT. Qed.

  Lemma ud_movedown_app : forall l1 l2 (st : maps H),
    ud_movedown HO n T full (l1 ++ l2) st =
    match ud_movedown HO n T full l1 st with
    | (st1, true) => ud_movedown HO n T full l2 st1
    | (st1, false) => (st1, false)
    end.
  Proof.
    induction l1 as [|t l1 IH]; intros l2 st; [reflexivity|]. cbn [app ud_movedown].
    destruct (if inForest (sibling t) n T then placeEmptyRoot HO T full t st else (st, true)) as [st1 [|]]; [|reflexivity].
    apply IH.
  Qed.

  Lemma nonroot_geo y : In y lay -> nroot y = false ->
    N.of_nat (nrow y) < T /\ noff y < 2 ^ (T - N.of_nat (nrow y)) /\
    inForest (sibling (posN y)) n T = true /\
    Parent (posN y) T = gp T (S (nrow y)) (noff y / 2) /\
    calcPrevPosition (gp T (S (nrow y)) (noff y / 2)) (posN y) T = gp T (nrow y) (N.lxor (noff y) 1).
  Proof.
    intros Hy Hr. destruct (MapMutRemove.ng_valid H HO s T n63 Tlo HT y Hy) as [_ Vo].
    destruct (MapMutRemove.ng_family H HO s y Hy Hr) as (p & sbn & Hp & Hsbn & _ & _ & Es & Ep & _).
    destruct (MapMutRemove.ng_valid H HO s T n63 Tlo HT p Hp) as [Vp _]. injection Ep as Epr Epo.
    assert (Hrd : N.of_nat (nrow y) < T) by lia.
    split; [exact Hrd|]. split; [exact Vo|].
    assert (Hsv : N.lxor (noff y) 1 < 2 ^ (T - N.of_nat (nrow y))) by (apply sib_offsets_lt; assumption).
    unfold posN, gp. rewrite sibling_gpos by lia. split.
    - apply inForest_spec; [exact HT|lia|exact Hsv|].
      injection Es as Esr Eso. pose proof (Vlay_bound H HO s (nrow sbn) (noff sbn) (nhash sbn) (nleaf sbn) ltac:(exists sbn; auto)) as Hb.
      rewrite Esr, Eso in Hb. exact Hb.
    - rewrite (Parent_gpos T _ _ HT Hrd Vo). split; [f_equal; lia|].
      assert (Hq : noff y / 2 < 2 ^ (T - N.of_nat (nrow y) - 1)).
      { replace (T - N.of_nat (nrow y)) with (T - N.of_nat (nrow y) - 1 + 1) in Vo by lia.
        rewrite UtilsGeom.pow2_S in Vo. apply N.div_lt_upper_bound; lia. }
      replace (N.of_nat (S (nrow y))) with (N.of_nat (nrow y) + 1) by lia.
      rewrite (calcPrevPosition_gpos T (N.of_nat (nrow y)) (noff y / 2) _ (N.of_nat (nrow y)) HT (N.le_refl _) Hrd Hq).
      2:{ apply DetectRow_gpos; [exact HT|lia|exact Vo]. }
      f_equal. rewrite N.sub_diag, insbit_0, isLeftNiece_gpos by lia.
      rewrite lxor_1. pose proof (N.div_mod' (noff y) 2) as Hdm. pose proof (mod2_even (noff y)) as Hm.
      destruct (N.even (noff y)); cbn [N.b2n]; lia.
  Qed.

  Lemma step_nonroot_eq y (st st1 : maps H) : In y lay -> nroot y = false ->
    placeEmptyRoot HO T full (posN y) st = (st1, true) ->
    ud_movedown HO n T full [posN y] st = (pmove H HO full T (nrow y) (noff y) st1, true).
  Proof.
    intros Hy Hr E. destruct (nonroot_geo y Hy Hr) as (_ & _ & G1 & G2 & G3).
    cbn [ud_movedown]. rewrite G1, E, G2, G3. unfold pmove.
    destruct (nodes_get (fst st1) (gp T (S (nrow y)) (noff y / 2))) as [v|]; reflexivity.
  Qed.

  (** a root: the sibling is not in the forest, the parent position is no position of a coordinate
      unless the root is below the top row *)
  Lemma root_geo y : In y lay -> nroot y = true ->
    inForest (sibling (posN y)) n T = false /\
    (forall r o, N.of_nat r <= T -> o < 2 ^ (T - N.of_nat r) -> gp T r o = Parent (posN y) T ->
       r = S (nrow y) /\ o = noff y / 2).
  Proof.
    intros Hy Hr. destruct (MapMutRemove.ng_valid H HO s T n63 Tlo HT y Hy) as [Vr Vo].
    destruct (root_node_conv H HO s y Hy Hr) as (k & lo & t & He & Ek & Eo & _).
    destruct (root_node H HO s k lo t He) as (Hbit & _ & Ediv & _). rewrite Ediv in Eo. subst k.
    set (rd := N.of_nat (nrow y)) in *. set (q := n / 2 ^ (rd + 1)) in *.
    assert (Hlx : N.lxor (noff y) 1 = 2 * q + 1) by (rewrite Eo; apply lxor_2q).
    assert (Hgt : n < (q + 1) * 2 ^ (rd + 1)).
    { pose proof (N.div_mod' n (2 ^ (rd + 1))) as Hdm. pose proof (N.mod_lt n (2 ^ (rd + 1)) (pow2_nz _)). fold q in Hdm. lia. }
    destruct (N.eq_dec rd T) as [ET|NT].
    - (* the top row *)
      assert (Eq0 : noff y = 0) by (rewrite ET, N.sub_diag in Vo; change (2 ^ 0) with 1 in Vo; lia).
      assert (Epos : posN y = 2 ^ (T + 1) - 2).
      { unfold posN, gp. fold rd. rewrite ET, Eq0. unfold UtilsGeom.gpos, UtilsGeom.gstart.
        replace (T + 1 - T) with 1 by lia. change (2 ^ 1) with 2. lia. }
      pose proof (UtilsGeom.pow2_pos T) as HpT. rewrite UtilsGeom.pow2_S in Epos.
      assert (Esib : sibling (posN y) = 2 * 2 ^ T - 1).
      { rewrite Epos. unfold sibling, xor64. rewrite lxor_1.
        replace (2 * 2 ^ T - 2) with (2 * (2 ^ T - 1)) by lia. rewrite N.even_mul. change (N.even 2) with true. cbn [orb]. lia. }
      assert (EPar : Parent (posN y) T = 2 * 2 ^ T - 1).
      { rewrite Epos. unfold Parent, or64, shr. rewrite shl_1 by exact HT.
        replace (2 * 2 ^ T - 2) with (2 * (2 ^ T - 1)) by lia. rewrite N.shiftr_spec' || idtac.
        replace (N.shiftr (2 * (2 ^ T - 1)) 1) with (2 ^ T - 1).
        2:{ rewrite N.shiftr_div_pow2. change (2 ^ 1) with 2. rewrite N.mul_comm, N.div_mul by lia. reflexivity. }
        rewrite lor_pow2_add by lia. lia. }
      split.
      + unfold inForest. cbv zeta. rewrite Esib.
        destruct (N.ltb_spec (2 * 2 ^ T - 1) n) as [C|_]; [lia|].
        rewrite shl_1 by exact HT. rewrite shl_pow2_1 by exact HT. fold (mask T).
        rewrite mask_spec by exact HT. rewrite UtilsGeom.pow2_S.
        destruct (N.leb_spec (2 * 2 ^ T - 1) (2 * 2 ^ T - 1)) as [_|C]; [reflexivity|lia].
      + intros r o A B Ep. exfalso. rewrite EPar in Ep.
        pose proof (gpos_range T (N.of_nat r) o A B) as Hrange. rewrite UtilsGeom.pow2_S in Hrange.
        unfold gp in Ep. lia.
    - assert (Hrd : rd < T) by lia.
      assert (Hsv : N.lxor (noff y) 1 < 2 ^ (T - rd)) by (apply sib_offsets_lt; assumption).
      split.
      + unfold posN, gp. fold rd. rewrite sibling_gpos by lia.
        destruct (inForest (gpos T rd (N.lxor (noff y) 1)) n T) eqn:Ei; [exfalso|reflexivity].
        apply (inForest_spec T rd _ n HT ltac:(lia) Hsv) in Ei. rewrite Hlx in Ei.
        rewrite UtilsGeom.pow2_S in Hgt. lia.
      + intros r o A B Ep. unfold posN, gp in Ep. fold rd in Ep. rewrite (Parent_gpos T rd _ HT Hrd Vo) in Ep.
        assert (Hq : noff y / 2 < 2 ^ (T - (rd + 1))).
        { replace (T - rd) with (T - (rd + 1) + 1) in Vo by lia. rewrite UtilsGeom.pow2_S in Vo.
          apply N.div_lt_upper_bound; lia. }
        assert (Hr1 : rd + 1 <= T) by lia.
        destruct (gpos_inj T _ _ _ _ A B Hr1 Hq Ep) as [Er Eo']. split; [unfold rd in Er; lia|exact Eo'].
  Qed.

  Lemma step_root_eq y (st : maps H) : In y lay -> nroot y = true ->
    nodes_get (fst st) (Parent (posN y) T) = None ->
    ud_movedown HO n T full [posN y] st = (st, true).
  Proof.
    intros Hy Hr E. destruct (root_geo y Hy Hr) as [G1 _]. cbn [ud_movedown]. rewrite G1, E. reflexivity.
  Qed.
End MoveDownGeo.
(** Example: seven slots, the last three dead: the trees of rows 1 and 0 are empty roots; the leaf
    [Atom 2] is remembered.  Two leaves are added (the first is written over both empty roots and
    joined with the tree of row 2, the forest is re-mapped to 4 rows), and the block is undone. *)
From Utreexo Require Import Spec.Term Proofs.MapMutPrune Proofs.MapMutUnify.

Definition mmu_ex_s : slots term := [Some (Atom 1); Some (Atom 2); Some (Atom 3); Some (Atom 4); None; None; None].
Definition mmu_ex_m : mstate term :=
  mkM [(12, (Node (Node (Atom 1) (Atom 2)) (Node (Atom 3) (Atom 4)), false)); (10, (Zero, false));
       (6, (Zero, false)); (1, (Atom 2, true)); (0, (Atom 1, false)); (9, (Node (Atom 3) (Atom 4), false))]
      [(Atom 2, 1)] 7 3 false.
Definition mmu_ex_adds : list (term * bool) := [(Atom 8, true); (Atom 9, false)].

Lemma mmu_ex_Inv : MapMutAdd.Inv term term_ops mmu_ex_s [Atom 2] mmu_ex_m.
Proof.
  apply (prune_to_Inv term term_ops term_ops_ok).
  - apply (MapMutPrune.Invb_sound term term_ops term_ops_ok). vm_compute. reflexivity.
  - intros _. apply (MapMutPrune.tidyb_sound term term_ops term_ops_ok). vm_compute. reflexivity.
  - unfold keys_nodup. cbn. repeat constructor; cbn; intuition discriminate.
  - cbn. repeat constructor; cbn; intuition discriminate.
  - intros h Hin. cbn in Hin. repeat (destruct Hin as [E|Hin]; [try discriminate; injection E as <-; reflexivity|]). destruct Hin.
Qed.

Example mmu_ex_undo :
  exists m1 m2, mm_modify term_ops mmu_ex_m mmu_ex_adds [] [] [] = Some m1 /\
    mm_undo term_ops m1 2 [] [] [] (roots term_ops mmu_ex_s) = Some m2 /\
    consistent term_ops mmu_ex_s [Atom 2] m2 /\ getRoots term_ops m2 = roots term_ops mmu_ex_s /\
    ms_n m2 = 7.
Proof.
  destruct (modify_undo_adds term term_ops term_ops_ok term_node_nonzero mmu_ex_s [Atom 2] mmu_ex_m mmu_ex_adds mmu_ex_Inv)
    as (m1 & m2 & E1 & E2 & Hc & Hr & En & _).
  - cbn. discriminate.
  - apply (adds_okb_sound term term_ops term_ops_ok). vm_compute. reflexivity.
  - intros h Hin x y. cbn in Hin.
    repeat (destruct Hin as [E|Hin]; [try discriminate; injection E as <-; discriminate|]). destruct Hin.
  - exists m1, m2. auto.
Qed.

(** the computed states: after the block (4 rows) and after the undo *)
Example mmu_ex_run :
  match mm_modify term_ops mmu_ex_m mmu_ex_adds [] [] [] with
  | Some m1 => ms_total m1 = 4 /\ ms_n m1 = 9 /\
      match mm_undo term_ops m1 2 [] [] [] (roots term_ops mmu_ex_s) with
      | Some m2 => consistentb term_ops mmu_ex_s [Atom 2] m2 = true /\ ms_total m2 = 4
      | None => False
      end
  | None => False
  end.
Proof. vm_compute. auto. Qed.

Print Assumptions placeEmptyRoot_spec.
Print Assumptions pulldown_WInvX.
Print Assumptions usa_loop_ok.
Print Assumptions undoAdd_loop_ok.
Print Assumptions gwo_adds.
Print Assumptions undo_adds.
Print Assumptions undo_adds_depth.
Print Assumptions undo_adds_consistent.
Print Assumptions modify_undo_adds.
Print Assumptions mmu_ex_undo.
Print Assumptions kill_inner_conv.
Print Assumptions kill_root_conv.
Print Assumptions pullB.
Print Assumptions stepD_WInvX.
Print Assumptions stepR_WInvX.
Print Assumptions step_nonroot_eq.
Print Assumptions step_root_eq.
