(** Deletion blocks ([mm_modify HO m [] dels targets proof] = [remove]) preserve the ONE invariant
    [MapMutAdd.Inv] of Proofs/MapMutAdd.v / Proofs/MapMutUnify.v, TIDINESS of partial forests
    included ("a set flag marks only remembered leaves; every stored node is a root, a known
    coordinate or the sibling of a known non-root"), from the theorems of Proofs/MapMutRemove.v about
    [MapMutRemove.Inv].

    Results (all closed under the global context, for every [H], [HO] with a correct [op_eqb]):
    - [delete_leaves_AInv] (the lemma for a [DelBlock] of a history), [delete_hashes_AInv] (targets =
      [GetLeafHashPositions]): [MapMutAdd.Inv s R m] -> the side conditions of
      [MapMutRemove.mm_modify_delete_leaves] -> [mm_modify HO m [] dels targets proof = Some m'] and
      [MapMutAdd.Inv (kill dels s) (R - dels) m'], [ms_n], [ms_total], [ms_full] unchanged; full and
      partial forests.  [delete_leaves_AInv_full]: full forests only (no tidiness needed).
    - [modify_block_AInv]: a whole block [mm_modify HO m adds dels targets proof] (the deletions, then
      the additions: [MapMutAdd.modify_adds_gen]).
    Side condition beyond those of the two files: no live leaf is a [hash2] image (field
    [i_live_nn] of [MapMutRemove.Inv]; a condition on [s] alone, kept by [kill]).

    - Part 1: [MapMutAdd.Inv] does not say that the keys of the cached map are pairwise distinct
      ([MapMutRemove.Inv] does): [sim_modify] runs the block on the cache with the repeated keys
      dropped ([dedupc]) and on the cache itself in lock step ([ceq]: same answers; [dupok]: all
      bindings of a key agree).
    - Part 2: the bridges [AInv_RInv] and [RInv_AInv] ([known_path]: the inductive [known] of
      [MapMutAdd] = the ancestors of the remembered leaves inside their trees).
    - Part 3: [delete_leaves_bridge]: a deletion block preserves [MapMutAdd.Inv] provided the node
      map it leaves behind is tidy.
    - Parts 4-9, tidiness on the layout ([Tidy2]/[tidy2x E]: tidy outside the exceptions [E]):
      [prune_pair_tidy] ([prunePosition] at a node removes the exception at the node and its sibling),
      [fud_node_tidy]/[fud_from_del_tidy] ([forgetUnneededDel] removes the exceptions along the path
      to the root), [t_src] (where a binding of the node map after the moves and [updateHashes] comes
      from), [t_tidy4] (that map is tidy outside the path), [removeSingle_node_tidy],
      [remove_fold_tidy], [remove_leaves_tidy].
    - Part 10: [needed_nneed], [Tidy_Tidy2], [Tidy2_Tidy]: the two formulations of tidiness. *)
From Utreexo Require Import Base.Hash Model.Utils Model.UtilsFast Model.Verify Model.MapRead
  Model.MapMut Spec.Forest Spec.Oracle Spec.Geometry
  Proofs.UtilsGeom Proofs.UtilsGeom2 Proofs.SpecBasics Proofs.StumpAdd Proofs.LayoutStruct
  Proofs.ProofPosSpec Proofs.MapReadSpec Proofs.MapMutAdd Proofs.MapMutRemove.
From Utreexo Require Proofs.RefTheory.
From Coq Require Import List Arith PeanoNat NArith Lia ZifyNat ZifyN ZifyBool Sorted Permutation Bool.
Import ListNotations.
Open Scope N_scope.
Local Notation gpos := UtilsGeom.gpos.

(** * 1. [remove] on a cache with repeated keys *)
Section CacheSim.
  Variable H : Type.
  Variable HO : ops H.
  Hypothesis HOK : ops_ok HO.

  (** the cache with the repeated keys dropped (the first binding of a key wins) *)
  Fixpoint dedupc (l : cachemap H) : cachemap H :=
    match l with
    | [] => []
    | e :: t => e :: cached_del HO (fst e) (dedupc t)
    end.

  Lemma dedupc_get l h : cached_get HO (dedupc l) h = cached_get HO l h.
  Proof.
    induction l as [|[k p] l IH]; [reflexivity|]. cbn [dedupc fst cached_get].
    destruct (op_eqb HO k h) eqn:E; [reflexivity|]. rewrite (cg_del H HO HOK), IH.
    destruct (op_eqb HO h k) eqn:E'; [|reflexivity]. apply HOK in E'. subst k.
    rewrite (heqb_refl H HO HOK) in E. discriminate.
  Qed.

  Lemma dedupc_nodup l : NoDup (map fst (dedupc l)).
  Proof.
    induction l as [|[k p] l IH]; [constructor|]. cbn [dedupc fst map]. constructor.
    - intros Hin. apply in_map_iff in Hin as (e & Ee & He). unfold cached_del in He.
      apply filter_In in He as [_ Hb]. rewrite Ee, (heqb_refl H HO HOK) in Hb. discriminate.
    - apply (ckeys_del H HO), IH.
  Qed.

  (** two caches that answer alike; in the first one all bindings of a key agree *)
  Definition ceq (a b : cachemap H) : Prop := forall h, cached_get HO a h = cached_get HO b h.
  Definition dupok (a : cachemap H) : Prop := forall h p, In (h, p) a -> cached_get HO a h = Some p.
  Definition msim (st st' : maps H) : Prop :=
    fst st = fst st' /\ ceq (snd st) (snd st') /\ dupok (snd st).

  Lemma ceq_has a b h : ceq a b -> cached_has HO a h = cached_has HO b h.
  Proof. intros E. unfold cached_has. rewrite (E h). reflexivity. Qed.

  Lemma sim_del a b h : ceq a b -> dupok a ->
    ceq (cached_del HO h a) (cached_del HO h b) /\ dupok (cached_del HO h a).
  Proof.
    intros E D. split.
    - intros k. rewrite !(cg_del H HO HOK), (E k). reflexivity.
    - intros k p Hin. unfold cached_del in Hin. apply filter_In in Hin as [Hin Hb]. cbn [fst] in Hb.
      rewrite (cg_del H HO HOK). destruct (op_eqb HO k h); [discriminate|]. exact (D k p Hin).
  Qed.

  Lemma sim_put a b h p : ceq a b -> dupok a ->
    ceq (cached_put HO h p a) (cached_put HO h p b) /\ dupok (cached_put HO h p a).
  Proof.
    intros E D. split.
    - intros k. rewrite !(cg_put H HO HOK), (E k). reflexivity.
    - intros k q Hin. rewrite (cg_put H HO HOK). unfold cached_put in Hin. destruct Hin as [Ei|Hin].
      + injection Ei as <- <-. rewrite (heqb_refl H HO HOK). reflexivity.
      + unfold cached_del in Hin. apply filter_In in Hin as [Hin Hb]. cbn [fst] in Hb.
        destruct (op_eqb HO k h); [discriminate|]. exact (D k q Hin).
  Qed.

  Lemma sim_move a b h p : ceq a b -> dupok a ->
    ceq (cached_move HO h p a) (cached_move HO h p b) /\ dupok (cached_move HO h p a).
  Proof.
    intros E D. unfold cached_move. rewrite (ceq_has a b h E).
    destruct (cached_has HO b h); [apply sim_put; assumption|auto].
  Qed.

  Lemma sim_one T delp c (st st' : maps H) : msim st st' ->
    msim (fst (moveUp_one HO T delp c st)) (fst (moveUp_one HO T delp c st')) /\
    snd (moveUp_one HO T delp c st) = snd (moveUp_one HO T delp c st').
  Proof.
    destruct st as [nd ca], st' as [nd' ca']. intros (En & E & D). cbn [fst snd] in En, E, D. subst nd'.
    unfold moveUp_one. destruct (calcNextPosition c delp T) as [np|]; [|repeat split; assumption].
    cbn [fst snd]. destruct (nodes_get nd c) as [v|]; [|repeat split; assumption].
    cbn [fst snd]. destruct (sim_move ca ca' (fst v) np E D) as [E' D'].
    split; [|reflexivity]. split; [reflexivity|]. split; assumption.
  Qed.

  Lemma sim_row T delp ps : forall (st st' : maps H), msim st st' ->
    msim (fst (fst (moveUp_row HO T delp ps st))) (fst (fst (moveUp_row HO T delp ps st'))) /\
    snd (fst (moveUp_row HO T delp ps st)) = snd (fst (moveUp_row HO T delp ps st')) /\
    snd (moveUp_row HO T delp ps st) = snd (moveUp_row HO T delp ps st').
  Proof.
    induction ps as [|p ps IH]; intros st st' S; [cbn; auto|]. cbn [moveUp_row].
    destruct (DetectRow p T =? 0); [apply IH, S|].
    destruct (sim_one T delp (LeftChild p T) st st' S) as [S1 F1].
    destruct (moveUp_one HO T delp (LeftChild p T) st) as [st1 f1].
    destruct (moveUp_one HO T delp (LeftChild p T) st') as [st1' f1']. cbn [fst snd] in S1, F1. subst f1'.
    destruct f1; [|cbn; auto].
    destruct (sim_one T delp (RightChild p T) st1 st1' S1) as [S2 F2].
    destruct (moveUp_one HO T delp (RightChild p T) st1) as [st2 f2].
    destruct (moveUp_one HO T delp (RightChild p T) st1') as [st2' f2']. cbn [fst snd] in S2, F2. subst f2'.
    destruct f2; [|cbn; auto].
    destruct (IH st2 st2' S2) as (S3 & C3 & F3).
    destruct (moveUp_row HO T delp ps st2) as [[st3 cs] ok].
    destruct (moveUp_row HO T delp ps st2') as [[st3' cs'] ok']. cbn [fst snd] in *. subst. auto.
  Qed.

  Lemma sim_mud T delp : forall k ps (st st' : maps H), msim st st' ->
    msim (fst (mud_loop HO k T delp ps st)) (fst (mud_loop HO k T delp ps st')) /\
    snd (mud_loop HO k T delp ps st) = snd (mud_loop HO k T delp ps st').
  Proof.
    induction k as [|k IH]; intros ps st st' S; [cbn; auto|]. cbn [mud_loop].
    destruct (sim_row T delp ps st st' S) as (S1 & C1 & F1).
    destruct (moveUp_row HO T delp ps st) as [[st1 cs] ok].
    destruct (moveUp_row HO T delp ps st') as [[st1' cs'] ok']. cbn [fst snd] in *. subst.
    destruct ok'; [apply IH, S1|cbn; auto].
  Qed.

  Lemma sim_removeSingle n T full d (st st' : maps H) : msim st st' ->
    msim (removeSingle HO n T full d st) (removeSingle HO n T full d st').
  Proof.
    destruct st as [nd ca], st' as [nd' ca']. intros (En & E & D). cbn [fst snd] in En, E, D. subst nd'.
    unfold removeSingle. cbv zeta. cbn [fst snd].
    destruct (isRootPositionTotalRows d n T); [repeat split; assumption|].
    destruct (nodes_get (nodes_del d (forgetBelow T d nd)) (sibling d)) as [node|];
      [|repeat split; assumption].
    rewrite (ceq_has _ _ (fst node) E).
    destruct (cached_has HO ca' (fst node)) eqn:Eh.
    - destruct (calcNextPosition (sibling d) d T) as [np|]; [|repeat split; assumption].
      destruct (sim_put ca ca' (fst node) np E D) as [E' D'].
      unfold moveUpDescendants. destruct (DetectRow (sibling d) T =? 0); [repeat split; assumption|].
      match goal with |- msim (let (_, _) := mud_loop HO ?k T d ?ps ?s1 in _) (let (_, _) := mud_loop HO _ _ _ _ ?s2 in _) =>
        destruct (sim_mud T d k ps s1 s2) as [S3 F3]; [repeat split; assumption|];
        destruct (mud_loop HO k T d ps s1) as [st3 f3]; destruct (mud_loop HO k T d ps s2) as [st3' f3'] end.
      cbn [fst snd] in S3, F3. subst f3'.
      destruct st3 as [nd3 ca3], st3' as [nd3' ca3']. destruct f3; [|exact S3].
      destruct S3 as (En3 & E3 & D3). cbn [fst snd] in *.
      subst nd3'. repeat split; assumption.
    - unfold moveUpDescendants. destruct (DetectRow (sibling d) T =? 0); [repeat split; assumption|].
      match goal with |- msim (let (_, _) := mud_loop HO ?k T d ?ps ?s1 in _) (let (_, _) := mud_loop HO _ _ _ _ ?s2 in _) =>
        destruct (sim_mud T d k ps s1 s2) as [S3 F3]; [repeat split; assumption|];
        destruct (mud_loop HO k T d ps s1) as [st3 f3]; destruct (mud_loop HO k T d ps s2) as [st3' f3'] end.
      cbn [fst snd] in S3, F3. subst f3'.
      destruct st3 as [nd3 ca3], st3' as [nd3' ca3']. destruct f3; [|exact S3].
      destruct S3 as (En3 & E3 & D3). cbn [fst snd] in *.
      subst nd3'. repeat split; assumption.
  Qed.

  Lemma sim_fold n T full ds : forall (st st' : maps H), msim st st' ->
    msim (fold_left (fun st d => removeSingle HO n T full d st) ds st)
         (fold_left (fun st d => removeSingle HO n T full d st) ds st').
  Proof. induction ds as [|d ds IH]; intros st st' S; [exact S|]. cbn [fold_left]. apply IH, sim_removeSingle, S. Qed.

  Lemma sim_uncache dels : forall a b, ceq a b -> dupok a ->
    ceq (fold_left (fun c h => cached_del HO h c) dels a) (fold_left (fun c h => cached_del HO h c) dels b) /\
    dupok (fold_left (fun c h => cached_del HO h c) dels a).
  Proof.
    induction dels as [|h dels IH]; intros a b E D; [auto|]. cbn [fold_left].
    destruct (sim_del a b h E D) as [E' D']. exact (IH _ _ E' D').
  Qed.

  (** a block without additions on the two states *)
  Theorem sim_modify nd ca ca' n T full dels targets proof m' :
    ceq ca ca' -> dupok ca ->
    mm_modify HO (mkM nd ca' n T full) [] dels targets proof = Some m' ->
    exists ca1, mm_modify HO (mkM nd ca n T full) [] dels targets proof =
                  Some (mkM (ms_nodes m') ca1 (ms_n m') (ms_total m') (ms_full m')) /\
                ceq ca1 (ms_cached m') /\ dupok ca1.
  Proof.
    intros E D. unfold mm_modify, MapMut.remove. cbn [ms_n ms_total ms_nodes ms_cached ms_full].
    assert (Ef : forallb (cached_has HO ca) dels = forallb (cached_has HO ca') dels).
    { induction dels as [|h t IHd]; [reflexivity|]. cbn [forallb]. rewrite (ceq_has ca ca' h E), IHd. reflexivity. }
    rewrite Ef. destruct (forallb (cached_has HO ca') dels); cbn [negb]; [|discriminate].
    destruct (sim_uncache dels ca ca' E D) as [E1 D1].
    set (ds := deTwin (if T =? TreeRows n then sortN targets
                       else translatePositions (sortN targets) (TreeRows n) T) T).
    pose proof (sim_fold n T full ds (nd, fold_left (fun c h => cached_del HO h c) dels ca)
                  (nd, fold_left (fun c h => cached_del HO h c) dels ca')
                  (conj eq_refl (conj E1 D1))) as S.
    destruct (fold_left (fun st d => removeSingle HO n T full d st) ds
                (nd, fold_left (fun c h => cached_del HO h c) dels ca)) as [nd1 ca1].
    destruct (fold_left (fun st d => removeSingle HO n T full d st) ds
                (nd, fold_left (fun c h => cached_del HO h c) dels ca')) as [nd1' ca1'].
    destruct S as (En & E2 & D2). cbn [fst snd] in En, E2, D2. subst nd1'.
    cbn [add_all]. intros [= <-]. cbn [ms_n ms_total ms_nodes ms_cached ms_full].
    exists ca1. auto.
  Qed.
End CacheSim.

(** * 2. The two invariants *)
Section Bridge.
  Variable H : Type.
  Variable HO : ops H.
  Hypothesis HOK : ops_ok HO.
  Notation AInv := (MapMutAdd.Inv H HO).
  Notation RInv := (MapMutRemove.Inv HO).
  Notation kn s R := (known (Vlay HO s) (RTlay HO s) R).

  (** the known coordinates are the ancestors of the remembered leaves inside their trees *)
  Lemma known_path s R r o : N.of_nat (length s) <= 2 ^ 63 ->
    (kn s R r o <->
     exists x (k : nat), In x (layout HO s) /\ nleaf x = true /\ In (nhash x) R /\
       r = (nrow x + k)%nat /\ o = noff x / 2 ^ N.of_nat k /\ (nrow x + k <= ntree x)%nat).
  Proof.
    intros Hn63. assert (HT : TreeRows (N.of_nat (length s)) <= 63) by exact (TreeRows_le_63 _ Hn63).
    split.
    - intros Hk. induction Hk as [r o h (x & Hx & <- & <- & Eh & El) Hh|r o _ IH Hn].
      + exists x, 0%nat. rewrite Nat.add_0_r, N.pow_0_r, N.div_1_r. rewrite <- Eh in Hh.
        pose proof (node_row_le_tree H HO s x Hx). auto 10.
      + destruct IH as (x & k & Hx & Lx & Hh & -> & -> & Hle).
        destruct (ng_ancestor H HO s _ Hn63 (N.le_refl _) HT x Hx k Hle) as (y & Hy & Ey & Ety & _).
        destruct (coord_eq _ _ _ Ey) as [Er Eo].
        assert (Hnr : nroot y = false).
        { destruct (nroot y) eqn:E; [|reflexivity]. exfalso. apply Hn. exists y. auto. }
        apply (nonroot_iff_row H HO s Hn63 y Hy) in Hnr.
        exists x, (S k). repeat split; try assumption; try lia.
        rewrite Nat2N.inj_succ, <- N.add_1_r, N.pow_add_r, N.pow_1_r.
        rewrite N.div_div by (try apply pow2_nz; lia). reflexivity.
    - intros (x & k & Hx & Lx & Hh & -> & -> & Hle). induction k as [|k IH].
      + rewrite Nat.add_0_r, N.pow_0_r, N.div_1_r. apply (kn_leaf _ _ _ _ _ (nhash x)); [|exact Hh].
        exists x. auto.
      + replace (nrow x + S k)%nat with (S (nrow x + k)) by lia.
        replace (noff x / 2 ^ N.of_nat (S k)) with (noff x / 2 ^ N.of_nat k / 2).
        2:{ rewrite Nat2N.inj_succ, <- N.add_1_r, N.pow_add_r, N.pow_1_r.
            rewrite N.div_div by (try apply pow2_nz; lia). reflexivity. }
        apply kn_up; [apply IH; lia|].
        intros (y' & Hy' & Ry' & Er' & Eo').
        destruct (ng_ancestor H HO s _ Hn63 (N.le_refl _) HT x Hx k ltac:(lia)) as (y & Hy & Ey & Ety & _).
        destruct (coord_eq _ _ _ Ey) as [Er Eo].
        assert (y' = y) by (apply (ng_coord_eq H HO s y' y Hy' Hy); unfold coord; congruence). subst y'.
        apply (root_iff_row H HO s y Hy) in Ry'. lia.
  Qed.

  Lemma AInv_n63 s R m : AInv s R m -> N.of_nat (length s) <= 2 ^ 63.
  Proof. intros I. pose proof (inv_n H HO s R m I) as E. pose proof (inv_n63 H HO s R m I). unfold num_leaves in E. lia. Qed.

  (** from the invariant of [MapMutAdd] (the cache may repeat keys) *)
  Theorem AInv_RInv s R nd ca n T full :
    (forall h a b, In (Some h) s -> h <> op_hash2 HO a b) ->
    AInv s R (mkM nd ca n T full) -> RInv s R (mkM nd (dedupc H HO ca) n T full).
  Proof.
    intros Hnn I. pose proof (AInv_n63 _ _ _ I) as Hn63.
    pose proof (inv_g H HO _ _ _ I) as G. cbn [ms_total ms_nodes ms_cached] in G.
    pose proof (inv_nodup H HO _ _ _ I) as Hnd.
    assert (Hpos : forall h p, In (h, p) ca -> exists x, In x (layout HO s) /\ nleaf x = true /\
                     nhash x = h /\ p = gp T (nrow x) (noff x)).
    { intros h p Hin. destruct (g_cpos G _ _ Hin) as (r & o & (x & Hx & <- & <- & Eh & El) & ->).
      exists x. auto. }
    constructor; cbn [ms_n ms_total ms_nodes ms_cached].
    - exact (inv_n H HO _ _ _ I).
    - exact (inv_n63 H HO _ _ _ I).
    - exact (inv_rows H HO _ _ _ I).
    - exact (inv_T63 H HO _ _ _ I).
    - exact Hnd.
    - exact Hnn.
    - intros h Hin E. pose proof (inv_live H HO _ _ _ I h Hin) as Hne. unfold nonemp in Hne.
      rewrite E, (heqb_refl H HO HOK) in Hne. discriminate.
    - exact (g_nodup G).
    - apply dedupc_nodup, HOK.
    - intros p h b E. apply (nodes_get_In H) in E.
      destruct (g_true G _ _ _ E) as (r & o & l & -> & (x & Hx & <- & <- & Eh & _)). exists x. auto.
    - intros h Hh. destruct (g_Rin G _ Hh) as (r & o & (x & Hx & _ & _ & <- & Lx)).
      exact (layout_leaf_live H HO s x Hx Lx).
    - auto.
    - intros h p. rewrite (dedupc_get H HO HOK). split.
      + intros E. apply (cached_get_In H HO HOK) in E. split.
        * apply (g_cR G). apply in_map_iff. exists (h, p). auto.
        * destruct (Hpos h p E) as (x & A & B & C & D). exists x. auto.
      + intros (Hh & x & Hx & Lx & Ex & ->). apply (g_cR G) in Hh.
        destruct (cached_get_some_of_key H HO HOK _ _ Hh) as [p' Ep]. rewrite Ep. f_equal.
        destruct (Hpos h p' (cached_get_In H HO HOK _ _ _ Ep)) as (x' & Hx' & Lx' & Ex' & ->).
        rewrite (live_leaf_unique H HO s x x' Hnd Hx Hx' Lx Lx' ltac:(congruence)). reflexivity.
    - intros x Hx Rx. apply (g_roots G). exists x. auto.
    - intros x Hx Lx Hh. apply (g_tgt G); [|exact Hh]. exists x. auto.
    - intros x Hx Lx Hh k Hk. apply (g_sibs G).
      + apply (known_path s R _ _ Hn63). exists x, k. repeat split; try assumption. lia.
      + intros (y' & Hy' & Ry' & Er' & Eo').
        destruct (ng_ancestor H HO s _ Hn63 (N.le_refl _) (TreeRows_le_63 _ Hn63) x Hx k ltac:(lia))
          as (y & Hy & Ey & Ety & _).
        destruct (coord_eq _ _ _ Ey) as [Er Eo].
        assert (y' = y) by (apply (ng_coord_eq H HO s y' y Hy' Hy); unfold coord; congruence). subst y'.
        apply (root_iff_row H HO s y Hy) in Ry'. lia.
  Qed.

  (** ... and back *)
  Theorem RInv_AInv s R nd ca ca' n T full :
    RInv s R (mkM nd ca' n T full) -> ceq H HO ca ca' -> dupok H HO ca ->
    (full = false -> Tidy (Vlay HO s) (RTlay HO s) R T nd) ->
    AInv s R (mkM nd ca n T full).
  Proof.
    intros I E D Ht. pose proof (pi_n63 H HO s R R _ I) as Hn63.
    constructor; cbn [ms_n ms_total ms_nodes ms_cached ms_full].
    - exact (i_n I).
    - exact (i_n63 I).
    - exact (i_rows I).
    - exact (i_T63 I).
    - exact (i_live_nd I).
    - intros h Hin. unfold nonemp. apply (heqb_neq H HO HOK). exact (i_live_nz I h Hin).
    - constructor.
      + exact (i_keys I).
      + intros p h b Hin. apply (rg_in_get H _ _ _ (i_keys I)) in Hin.
        destruct (i_true I _ _ _ Hin) as (x & Hx & -> & Eh). exists (nrow x), (noff x), (nleaf x).
        split; [reflexivity|]. exists x. auto.
      + intros h. split.
        * intros Hh. destruct (live_leaf_in_layout H HO s h (i_Rn I h Hh)) as (x & Hx & Lx & Ex).
          assert (Ec : cached_get HO ca' h = Some (gp T (nrow x) (noff x))).
          { apply (i_cached I). split; [exact Hh|]. exists x. auto. }
          rewrite <- (E h) in Ec. apply (cached_get_In H HO HOK) in Ec.
          apply in_map_iff. exists (h, gp T (nrow x) (noff x)). auto.
        * intros Hin. apply in_map_iff in Hin as ([h' p] & Eh & Hin). cbn [fst] in Eh. subst h'.
          pose proof (D h p Hin) as Ec. rewrite (E h) in Ec. apply (i_cached I) in Ec. apply Ec.
      + intros h p Hin. pose proof (D h p Hin) as Ec. rewrite (E h) in Ec.
        apply (i_cached I) in Ec as (_ & x & Hx & Lx & Ex & ->). exists (nrow x), (noff x).
        split; [exists x; auto|reflexivity].
      + intros h Hh. destruct (live_leaf_in_layout H HO s h (i_Rn I h Hh)) as (x & Hx & Lx & Ex).
        exists (nrow x), (noff x), x. auto.
      + intros r o (x & Hx & Rx & <- & <-). exact (i_roots I x Hx Rx).
      + intros r o h (x & Hx & <- & <- & Eh & Lx) Hh. rewrite <- Eh in *. exact (i_leaf I x Hx Lx Hh).
      + intros r o Hk Hn. apply (known_path s R _ _ Hn63) in Hk as (x & k & Hx & Lx & Hh & -> & -> & Hle).
        apply (i_sibs I x Hx Lx Hh k).
        destruct (Nat.eq_dec (nrow x + k) (ntree x)) as [Eq|]; [|lia]. exfalso. apply Hn.
        destruct (ng_ancestor H HO s _ Hn63 (N.le_refl _) (TreeRows_le_63 _ Hn63) x Hx k Hle)
          as (y & Hy & Ey & Ety & _).
        destruct (coord_eq _ _ _ Ey) as [Er Eo]. exists y. split; [exact Hy|]. split; [|auto].
        apply (root_iff_row H HO s y Hy). lia.
    - exact Ht.
  Qed.
End Bridge.

(** * 3. Deletion blocks keep the invariant of [MapMutAdd]: full forests *)
Section DeleteAInv.
  Variable H : Type.
  Variable HO : ops H.
  Hypothesis HOK : ops_ok HO.
  Notation AInv := (MapMutAdd.Inv H HO).
  Notation keep L := (fun h => negb (memH HO h L)).

  Lemma mm_modify_fields m dels targets proof m' :
    mm_modify HO m [] dels targets proof = Some m' ->
    ms_n m' = ms_n m /\ ms_total m' = ms_total m /\ ms_full m' = ms_full m.
  Proof.
    unfold mm_modify. destruct (MapMut.remove HO m dels targets) as [[nd ca]|]; [|discriminate].
    cbn [add_all]. intros [= <-]. auto.
  Qed.

  (** the deletion block, given that the node map it leaves behind is tidy *)
  Theorem delete_leaves_bridge s R m xs dels targets proof : AInv s R m ->
    (forall h a b, In (Some h) s -> h <> op_hash2 HO a b) ->
    NoDup xs ->
    (forall x, In x xs -> In x (layout HO s) /\ nleaf x = true /\ In (nhash x) R) ->
    (forall h, In h dels <-> exists x, In x xs /\ nhash x = h) ->
    Permutation targets (map (npos (rows_of (num_leaves s))) xs) ->
    (ms_full m = false -> forall m', mm_modify HO m [] dels targets proof = Some m' ->
       Tidy (Vlay HO (kill HO dels s)) (RTlay HO (kill HO dels s)) (filter (keep dels) R)
            (ms_total m') (ms_nodes m')) ->
    exists m', mm_modify HO m [] dels targets proof = Some m' /\
               AInv (kill HO dels s) (filter (keep dels) R) m' /\
               ms_n m' = ms_n m /\ ms_total m' = ms_total m /\ ms_full m' = ms_full m.
  Proof.
    intros I Hnn Hnd Hxs Hdels Hperm Htidy. destruct m as [nd ca n T full].
    pose proof (AInv_RInv H HO HOK s R nd ca n T full Hnn I) as IR.
    destruct (mm_modify_delete_leaves H HO HOK s R _ xs dels targets proof IR Hnd Hxs Hdels Hperm)
      as (m0 & E0 & I0).
    assert (Ece : ceq H HO ca (dedupc H HO ca)) by (intros h; symmetry; apply dedupc_get, HOK).
    assert (Dca : dupok H HO ca).
    { intros h p Hin. pose proof (inv_g H HO _ _ _ I) as G. cbn [ms_total ms_nodes ms_cached] in G.
      assert (Hk : In h (map fst ca)) by (apply in_map_iff; exists (h, p); auto).
      destruct (cached_get_some_of_key H HO HOK _ _ Hk) as [p' Ep]. rewrite Ep. f_equal.
      destruct (g_cpos G _ _ Hin) as (r & o & (x & Hx & <- & <- & Eh & Lx) & ->).
      destruct (g_cpos G _ _ (cached_get_In H HO HOK _ _ _ Ep)) as (r' & o' & (x' & Hx' & <- & <- & Eh' & Lx') & ->).
      rewrite (live_leaf_unique H HO s x x' (inv_nodup H HO _ _ _ I) Hx Hx' Lx Lx' ltac:(congruence)).
      reflexivity. }
    destruct (sim_modify H HO HOK nd ca (dedupc H HO ca) n T full dels targets proof m0 Ece Dca E0)
      as (ca1 & E1 & Ec1 & Dc1).
    destruct (mm_modify_fields _ _ _ _ _ E0) as (Fn & FT & Ff). cbn [ms_n ms_total ms_full] in Fn, FT, Ff.
    destruct m0 as [nd0 ca0 n0 T0 full0]. cbn [ms_n ms_total ms_nodes ms_cached ms_full] in *. subst n0 T0 full0.
    exists (mkM nd0 ca1 n T full). split; [exact E1|]. split; [|auto].
    apply (RInv_AInv H HO HOK _ _ nd0 ca1 ca0 n T full I0 Ec1 Dc1).
    intros Hf. exact (Htidy Hf _ E1).
  Qed.

  (** ** full forests *)
  Theorem delete_leaves_AInv_full s R m xs dels targets proof : AInv s R m -> ms_full m = true ->
    (forall h a b, In (Some h) s -> h <> op_hash2 HO a b) ->
    NoDup xs ->
    (forall x, In x xs -> In x (layout HO s) /\ nleaf x = true /\ In (nhash x) R) ->
    (forall h, In h dels <-> exists x, In x xs /\ nhash x = h) ->
    Permutation targets (map (npos (rows_of (num_leaves s))) xs) ->
    exists m', mm_modify HO m [] dels targets proof = Some m' /\
               AInv (kill HO dels s) (filter (keep dels) R) m' /\
               ms_n m' = ms_n m /\ ms_total m' = ms_total m /\ ms_full m' = ms_full m.
  Proof.
    intros I Hfull Hnn Hnd Hxs Hdels Hperm.
    apply (delete_leaves_bridge s R m xs dels targets proof I Hnn Hnd Hxs Hdels Hperm).
    intros Hf. congruence.
  Qed.
End DeleteAInv.

(** * 4. Tidiness in terms of the layout, and pruning *)
Definition sibc (c : nat * N) : nat * N := (fst c, N.lxor (snd c) 1).

Lemma sibc_invol c : sibc (sibc c) = c.
Proof. destruct c as [r o]. unfold sibc. cbn [fst snd]. rewrite pps_lxor_invol. reflexivity. Qed.

Lemma under_child_sib c r o : under c (r, o) -> (r < fst c)%nat -> under c (sibc (r, o)).
Proof. intros U Hlt. exact (under_sib c r o U Hlt). Qed.

Section TidyDefs.
  Variable H : Type.
  Variable HO : ops H.

  (** a remembered leaf lies at or below the coordinate *)
  Definition onp (s : slots H) (Rn : list H) (c : nat * N) : Prop :=
    exists w, In w (layout HO s) /\ nleaf w = true /\ In (nhash w) Rn /\ under c (coord w).
  Definition nneed (s : slots H) (Rn : list H) (y : node H) : Prop :=
    nroot y = true \/ onp s Rn (coord y) \/ onp s Rn (sibc (coord y)).

  (** the flag marks remembered leaves only; every stored node outside [E] is needed *)
  Definition tidy2x (s : slots H) (Rn : list H) (m : mstate H) (E : nat * N -> Prop) : Prop :=
    (forall y h, In y (layout HO s) ->
       nodes_get (ms_nodes m) (gp (ms_total m) (nrow y) (noff y)) = Some (h, true) ->
       nleaf y = true /\ In (nhash y) Rn) /\
    (forall y, In y (layout HO s) -> ~ E (coord y) ->
       nodes_get (ms_nodes m) (gp (ms_total m) (nrow y) (noff y)) <> None -> nneed s Rn y).
  Definition Tidy2 s Rn m := tidy2x s Rn m (fun _ => False).

  Lemma tidy2x_weaken s Rn m (E E' : nat * N -> Prop) : (forall c, E c -> E' c) ->
    tidy2x s Rn m E -> tidy2x s Rn m E'.
  Proof.
    intros HE [T1 T2]. split; [exact T1|]. intros y Hy Hn Hs. apply (T2 y Hy); [|exact Hs].
    intros C. exact (Hn (HE _ C)).
  Qed.
End TidyDefs.

Section PruneTidy.
  Variable H : Type.
  Variable HO : ops H.
  Hypothesis HOK : ops_ok HO.
  Variable s : slots H.
  Variables Rc Rn : list H.
  Notation lay := (layout HO s).

  (** [prunePosition] at the node [q] (no root) removes the exception at [q] and its sibling;
      the other exceptions [F] lie in higher rows *)
  Lemma prune_pair_tidy m q (F : nat * N -> Prop) : Inv2 HO s Rc Rn m -> In q lay -> nroot q = false ->
    (forall c, F c -> (nrow q < fst c)%nat) ->
    tidy2x H HO s Rn m (fun c => c = coord q \/ c = sibc (coord q) \/ F c) ->
    tidy2x H HO s Rn (set_nodes m (prunePosition HO (ms_total m) (ms_nodes m)
                                     (gp (ms_total m) (nrow q) (noff q)))) F.
  Proof.
    intros I Hq Hr HF [T1 T2].
    destruct (ng_family H HO s q Hq Hr) as (p & sq & _ & Hsq & Hsr & _ & Esq & _).
    destruct (coord_eq _ _ _ Esq) as [Er Eo].
    assert (Esib : sibling (gp (ms_total m) (nrow q) (noff q)) = gp (ms_total m) (nrow sq) (noff sq)).
    { destruct (pi_valid H HO s Rc Rn m I q Hq) as [A _]. unfold gp. rewrite sibling_gpos by exact A.
      rewrite Er, Eo. reflexivity. }
    assert (Ecsq : coord sq = sibc (coord q)) by (rewrite Esq; reflexivity).
    assert (Ecq : coord q = sibc (coord sq)) by (rewrite Ecsq, sibc_invol; reflexivity).
    (* a stored child of a node [b] makes [b] known *)
    assert (Hchild : forall b, In b lay -> nroot b = false -> nrow b = nrow q ->
              niecesPresent (ms_total m) (ms_nodes m) (sibling (gp (ms_total m) (nrow b) (noff b))) = true -> onp H HO s Rn (coord b)).
    { intros b Hb Rb Ebr Hnp. unfold niecesPresent in Hnp.
      destruct (ng_family H HO s b Hb Rb) as (_ & sb & _ & Hsb & _ & _ & Esb & _).
      destruct (coord_eq _ _ _ Esb) as [Esr Eso].
      assert (Es2 : sibling (gp (ms_total m) (nrow b) (noff b)) = gp (ms_total m) (nrow sb) (noff sb)).
      { destruct (pi_valid H HO s Rc Rn m I b Hb) as [A _]. unfold gp. rewrite sibling_gpos by exact A.
        rewrite Esr, Eso. reflexivity. }
      assert (Es3 : sibling (gp (ms_total m) (nrow sb) (noff sb)) = gp (ms_total m) (nrow b) (noff b)).
      { destruct (pi_valid H HO s Rc Rn m I sb Hsb) as [A _]. unfold gp. rewrite sibling_gpos by exact A.
        rewrite Esr, Eso, pps_lxor_invol. reflexivity. }
      rewrite Es2, Es3 in Hnp.
      destruct (nrow b) as [|r'] eqn:Erb.
      { exfalso. destruct (pi_valid H HO s Rc Rn m I sb Hsb) as [A B].
        unfold gp in Hnp. rewrite DetectRow_gpos in Hnp; [|exact (i_T63 I)|exact A|exact B].
        rewrite Esr in Hnp. cbn in Hnp. discriminate. }
      destruct (pi_children H HO s Rc Rn m I b r' Hb Erb) as (EL & ER & _).
      destruct (pi_children H HO s Rc Rn m I sb r' Hsb ltac:(lia)) as (_ & _ & ED).
      rewrite Erb in EL, ER. rewrite ED, EL, ER in Hnp.
      destruct (N.eqb_spec (N.of_nat (S r')) 0) as [E0|_]; [lia|].
      assert (Hc : forall e, e < 2 -> nodes_get (ms_nodes m) (gp (ms_total m) r' (2 * noff b + e)) <> None -> onp H HO s Rn (coord b)).
      { intros e He Hs. destruct (nodes_get (ms_nodes m) (gp (ms_total m) r' (2 * noff b + e))) as [[hc bc]|] eqn:Ec; [|congruence].
        destruct (i_true I _ _ _ Ec) as (c & Hcl & Epc & _).
        destruct (pi_valid H HO s Rc Rn m I c Hcl) as [Ac Bc].
        destruct (pi_valid H HO s Rc Rn m I b Hb) as [Ab Bb]. rewrite Erb in Ab, Bb.
        assert (Hv : 2 * noff b + e < 2 ^ ((ms_total m) - N.of_nat r')).
        { replace ((ms_total m) - N.of_nat r') with ((ms_total m) - N.of_nat (S r') + 1) by lia. rewrite UtilsGeom.pow2_S. lia. }
        assert (Hr' : N.of_nat r' <= ms_total m) by lia.
        unfold gp in Epc. destruct (gpos_inj (ms_total m) _ _ _ _ Hr' Hv Ac Bc Epc) as [Erc Eoc].
        assert (Ucb : under (coord b) (coord c)).
        { apply (under_compose (coord b) (coord c) e); unfold coord; cbn [fst snd]; [lia| |].
          - rewrite Erb. replace (S r' - nrow c)%nat with 1%nat by lia. change (2 ^ N.of_nat 1) with 2. lia.
          - rewrite Erb. replace (S r' - nrow c)%nat with 1%nat by lia. exact He. }
        assert (Hnc : ~ (coord c = coord q \/ coord c = sibc (coord q) \/ F (coord c))).
        { intros [C|[C|C]].
          - pose proof (f_equal fst C) as C1. unfold coord in C1. cbn in C1. lia.
          - pose proof (f_equal fst C) as C1. unfold coord, sibc in C1. cbn in C1. lia.
          - apply HF in C. unfold coord in C. cbn [fst] in C. lia. }
        assert (Hsc : nodes_get (ms_nodes m) (gp (ms_total m) (nrow c) (noff c)) <> None).
        { unfold gp. rewrite <- Epc. fold (gp (ms_total m) r' (2 * noff b + e)). rewrite Ec. discriminate. }
        destruct (T2 c Hcl Hnc Hsc) as [Rc'|[(w & Hw & Lw & Hh & Uw)|(w & Hw & Lw & Hh & Uw)]].
        - exfalso. exact (ng_root_top H HO s (ms_total m) (pi_n63 H HO s Rc Rn m I) (pi_Tlo H HO s Rc Rn m I) (i_T63 I)
                            b c Hb Hcl Rb Rc' Ucb).
        - exists w. split; [exact Hw|]. split; [exact Lw|]. split; [exact Hh|]. exact (under_trans _ _ _ Ucb Uw).
        - exists w. split; [exact Hw|]. split; [exact Lw|]. split; [exact Hh|].
          assert (Ucs : under (coord b) (sibc (coord c))).
          { unfold coord at 2. apply under_child_sib; [exact Ucb|]. unfold coord. cbn [fst]. lia. }
          exact (under_trans _ _ _ Ucs Uw). }
      apply orb_true_iff in Hnp as [Hn1|Hn1]; unfold nodes_has in Hn1.
      - apply (Hc 0); [lia|]. rewrite N.add_0_r. destruct (nodes_get (ms_nodes m) (gp (ms_total m) r' (2 * noff b))); [discriminate|discriminate].
      - apply (Hc 1); [lia|]. destruct (nodes_get (ms_nodes m) (gp (ms_total m) r' (2 * noff b + 1))); [discriminate|discriminate]. }
    split.
    - intros y h Hy E. cbn [set_nodes ms_nodes ms_total] in E. apply prunePosition_sub in E. exact (T1 y h Hy E).
    - intros y Hy HnF Hst. cbn [set_nodes ms_nodes ms_total] in Hst.
      destruct (nodes_get (prunePosition HO (ms_total m) (ms_nodes m) (gp (ms_total m) (nrow q) (noff q))) (gp (ms_total m) (nrow y) (noff y))) as [v|] eqn:Ev;
        [clear Hst|congruence].
      pose proof (prunePosition_sub H HO _ _ _ _ _ Ev) as Ev0.
      assert (Hst0 : nodes_get (ms_nodes m) (gp (ms_total m) (nrow y) (noff y)) <> None) by (rewrite Ev0; discriminate).
      assert (Hdq : coord y = coord q \/ coord y <> coord q).
      { destruct (Nat.eq_dec (nrow y) (nrow q)) as [E1|E1]; [|right; intros C; apply E1; exact (f_equal fst C)].
        destruct (N.eq_dec (noff y) (noff q)) as [E2|E2]; [left; unfold coord; congruence|].
        right. intros C. apply E2. exact (f_equal snd C). }
      assert (Hds : coord y = coord sq \/ coord y <> coord sq).
      { destruct (Nat.eq_dec (nrow y) (nrow sq)) as [E1|E1]; [|right; intros C; apply E1; exact (f_equal fst C)].
        destruct (N.eq_dec (noff y) (noff sq)) as [E2|E2]; [left; unfold coord; congruence|].
        right. intros C. apply E2. exact (f_equal snd C). }
      assert (Hflag : forall b, In b lay -> snd (nodes_get0 HO (ms_nodes m) (gp (ms_total m) (nrow b) (noff b))) = true ->
                onp H HO s Rn (coord b)).
      { intros b Hb Fb. unfold nodes_get0 in Fb.
        destruct (nodes_get (ms_nodes m) (gp (ms_total m) (nrow b) (noff b))) as [[hb fb]|] eqn:Eb; [|discriminate].
        cbn [snd] in Fb. subst fb. destruct (T1 b hb Hb Eb) as [Lb Hh].
        exists b. split; [exact Hb|]. split; [exact Lb|]. split; [exact Hh|]. apply under_refl. }
      assert (Hne : gp (ms_total m) (nrow sq) (noff sq) <> gp (ms_total m) (nrow q) (noff q)).
      { intros E. pose proof (pi_inj H HO s Rc Rn m I sq q Hsq Hq E) as Eqs. rewrite Eqs in Eo.
        pose proof (lxor_1 (noff q)) as Hx. destruct (N.even (noff q)) eqn:Ev'; [lia|].
        pose proof (odd_nz _ Ev'). lia. }
      destruct Hdq as [Eyq|Nyq]; [|destruct Hds as [Eys|Nys]].
      + (* the position itself *)
        rewrite (ng_coord_eq H HO s y q Hy Hq Eyq) in *. clear Eyq.
        unfold prunePosition in Ev. rewrite Esib in Ev.
        destruct (snd (nodes_get0 HO (ms_nodes m) (gp (ms_total m) (nrow q) (noff q)))) eqn:F1; cbn [negb andb] in Ev.
        { right. left. exact (Hflag q Hq F1). }
        destruct (snd (nodes_get0 HO (ms_nodes m) (gp (ms_total m) (nrow sq) (noff sq)))) eqn:F2; cbn [negb andb] in Ev.
        { right. right. rewrite <- Ecsq. exact (Hflag sq Hsq F2). }
        right. right. rewrite <- Ecsq. apply (Hchild sq Hsq Hsr Er).
        assert (Es3 : sibling (gp (ms_total m) (nrow sq) (noff sq)) = gp (ms_total m) (nrow q) (noff q)).
        { destruct (pi_valid H HO s Rc Rn m I sq Hsq) as [A _]. unfold gp. rewrite sibling_gpos by exact A.
          rewrite Er, Eo, pps_lxor_invol. reflexivity. }
        rewrite Es3.
        destruct (niecesPresent (ms_total m) (ms_nodes m) (gp (ms_total m) (nrow sq) (noff sq))) eqn:N1.
        * destruct (niecesPresent (ms_total m) (ms_nodes m) (gp (ms_total m) (nrow q) (noff q))) eqn:N2; [reflexivity|].
          rewrite rg_del, N.eqb_refl in Ev. discriminate.
        * destruct (niecesPresent (ms_total m) (nodes_del (gp (ms_total m) (nrow sq) (noff sq)) (ms_nodes m)) (gp (ms_total m) (nrow q) (noff q))) eqn:N2.
          -- exact (nieces_del_mono H _ _ _ _ N2).
          -- rewrite rg_del, N.eqb_refl in Ev. discriminate.
      + (* its sibling *)
        rewrite (ng_coord_eq H HO s y sq Hy Hsq Eys) in *. clear Eys.
        unfold prunePosition in Ev. rewrite Esib in Ev.
        destruct (snd (nodes_get0 HO (ms_nodes m) (gp (ms_total m) (nrow q) (noff q)))) eqn:F1; cbn [negb andb] in Ev.
        { right. right. rewrite <- Ecq. exact (Hflag q Hq F1). }
        destruct (snd (nodes_get0 HO (ms_nodes m) (gp (ms_total m) (nrow sq) (noff sq)))) eqn:F2; cbn [negb andb] in Ev.
        { right. left. exact (Hflag sq Hsq F2). }
        right. right. rewrite <- Ecq. apply (Hchild q Hq Hr eq_refl). rewrite Esib.
        destruct (niecesPresent (ms_total m) (ms_nodes m) (gp (ms_total m) (nrow sq) (noff sq))) eqn:N1; [reflexivity|].
        exfalso. destruct (niecesPresent (ms_total m) (nodes_del (gp (ms_total m) (nrow sq) (noff sq)) (ms_nodes m)) (gp (ms_total m) (nrow q) (noff q))).
        * rewrite rg_del, N.eqb_refl in Ev. discriminate.
        * rewrite !rg_del, N.eqb_refl in Ev.
          destruct (N.eqb_spec (gp (ms_total m) (nrow sq) (noff sq)) (gp (ms_total m) (nrow q) (noff q))); discriminate.
      + apply (T2 y Hy); [|exact Hst0]. intros [C|[C|C]]; [exact (Nyq C)| |exact (HnF C)].
        apply Nys. rewrite Ecsq. exact C.
  Qed.
End PruneTidy.

(** * 5. [forgetUnneededDel] removes the exceptions along a path *)
Section FudTidy.
  Variable H : Type.
  Variable HO : ops H.
  Hypothesis HOK : ops_ok HO.
  Variable s : slots H.
  Variables Rc Rn : list H.
  Notation lay := (layout HO s).

  (** the nodes strictly above [y] that are no roots, and their siblings *)
  Definition Ex (y : node H) (c : nat * N) : Prop :=
    exists a, In a lay /\ nroot a = false /\ under (coord a) (coord y) /\ (nrow y < nrow a)%nat /\
              (c = coord a \/ c = sibc (coord a)).

  Lemma fud_node_tidy : forall (fuel : nat) m y, Inv2 HO s Rc Rn m -> In y lay -> nroot y = false ->
    tidy2x H HO s Rn m (Ex y) -> (ntree y - nrow y <= fuel)%nat ->
    Tidy2 H HO s Rn (set_nodes m (fud_loop HO fuel (ms_n m) (ms_total m) (N.of_nat (nrow y))
                                    (gp (ms_total m) (nrow y) (noff y)) (ms_nodes m))).
  Proof.
    induction fuel as [|f IH]; intros m y I Hy Hr Ht Hf.
    - pose proof (pi_n63 H HO s Rc Rn m I) as Hn63.
      apply (nonroot_iff_row H HO s Hn63 y Hy) in Hr. lia.
    - cbn [fud_loop]. pose proof (pi_n63 H HO s Rc Rn m I) as Hn63.
      pose proof (pi_Tlo H HO s Rc Rn m I) as HTlo. pose proof (i_T63 I) as HT.
      destruct (ng_family H HO s y Hy Hr) as (p & _ & Hp & _ & _ & _ & _ & Ep & Etp & _).
      destruct (coord_eq _ _ _ Ep) as [Epr Epo].
      destruct (pi_valid H HO s Rc Rn m I y Hy) as [A B]. destruct (pi_valid H HO s Rc Rn m I p Hp) as [C _].
      destruct (N.ltb_spec (ms_total m) (N.of_nat (nrow y))) as [Lt|_]; [lia|].
      assert (Epar : Parent (gp (ms_total m) (nrow y) (noff y)) (ms_total m) = gp (ms_total m) (nrow p) (noff p)).
      { unfold gp. rewrite Parent_gpos; [|exact HT|lia|exact B]. rewrite Epr, Epo. f_equal. lia. }
      rewrite Epar.
      assert (Eroot : isRootPositionTotalRows (gp (ms_total m) (nrow p) (noff p)) (ms_n m) (ms_total m) = nroot p).
      { pose proof (i_n I) as En. unfold num_leaves in En. rewrite En.
        exact (ng_isroot H HO s (ms_total m) Hn63 HTlo HT p Hp). }
      rewrite Eroot.
      assert (Uyp : under (coord p) (coord y)).
      { rewrite Ep. exact (proj2 (under_sib_par (nrow y) (noff y))). }
      assert (Habove : forall a, In a lay -> under (coord a) (coord y) -> (nrow y < nrow a)%nat ->
                under (coord a) (coord p)).
      { intros a Ha Ua Hlt. rewrite Ep. unfold coord at 2 in Ua. apply under_par; [exact Ua|].
        unfold coord. cbn [fst]. exact Hlt. }
      destruct (nroot p) eqn:Rp.
      + (* the parent is a root: no exception is left *)
        destruct m as [nd ca n T full]. cbn [set_nodes ms_nodes ms_cached ms_n ms_total ms_full] in *.
        apply (tidy2x_weaken H HO s Rn _ (Ex y)); [|exact Ht].
        intros c (a & Ha & Ra & Ua & Hlt & _).
        exact (ng_root_top H HO s T Hn63 HTlo HT a p Ha Hp Ra Rp (Habove a Ha Ua Hlt)).
      + pose proof (prunePosition_Inv2 H HO s Rc Rn m p I Hp Rp) as I1.
        assert (Ht1 : tidy2x H HO s Rn (set_nodes m (prunePosition HO (ms_total m) (ms_nodes m)
                                                 (gp (ms_total m) (nrow p) (noff p)))) (Ex p)).
        { apply (prune_pair_tidy H HO s Rc Rn m p (Ex p) I Hp Rp).
          - intros c (a & _ & _ & _ & Hlt & [-> | ->]); unfold coord, sibc; cbn [fst]; exact Hlt.
          - apply (tidy2x_weaken H HO s Rn m (Ex y)); [|exact Ht].
            intros c (a & Ha & Ra & Ua & Hlt & Hc).
            destruct (Nat.eq_dec (nrow a) (nrow p)) as [Era|Era].
            + assert (a = p).
              { apply (ng_coord_eq H HO s a p Ha Hp). pose proof (Habove a Ha Ua Hlt) as [_ Eo].
                unfold coord in *. cbn [fst snd] in *. rewrite Era, Nat.sub_diag, p2_0, N.div_1_r in Eo. congruence. }
              subst a. destruct Hc as [-> | ->]; auto.
            + right. right. exists a. split; [exact Ha|]. split; [exact Ra|].
              split; [exact (Habove a Ha Ua Hlt)|]. split; [lia|exact Hc]. }
        pose proof (IH _ p I1 Hp Rp Ht1 ltac:(cbn [set_nodes]; lia)) as R.
        cbn [set_nodes ms_nodes ms_cached ms_n ms_total ms_full] in R |- *.
        replace (add8 (N.of_nat (nrow y)) 1) with (N.of_nat (nrow p)); [exact R|].
        rewrite add8_small by lia. lia.
  Qed.

  (** from the deleted position, whose parent position holds the node [y0] *)
  Lemma fud_from_del_tidy nd ca n T full r o y0 : Inv2 HO s Rc Rn (mkM nd ca n T full) -> In y0 lay ->
    r < T -> o < 2 ^ (T - r) ->
    gp T (nrow y0) (noff y0) = gpos T (r + 1) (o / 2) ->
    isRootPositionTotalRows (gpos T r o) n T = false ->
    tidy2x H HO s Rn (mkM nd ca n T full)
      (fun c => nroot y0 = false /\ (c = coord y0 \/ c = sibc (coord y0) \/ Ex y0 c)) ->
    Tidy2 H HO s Rn (mkM (forgetUnneededDel HO n T (gpos T r o) nd) ca n T full).
  Proof.
    intros I Hy0 Hr Ho Eg Hnr Ht. pose proof (i_T63 I) as HT. cbn [ms_total] in HT.
    pose proof (pi_n63 H HO s Rc Rn _ I) as Hn63.
    unfold forgetUnneededDel. rewrite Hnr.
    rewrite DetectRow_gpos by (try assumption; lia).
    change 300%nat with (S 299). assert (Hf64 : (64 <= 299)%nat) by (apply Nat.leb_le; reflexivity).
    revert Hf64. generalize 299%nat. intros f Hf64. cbn [fud_loop].
    destruct (N.ltb_spec T r) as [Lt|_]; [lia|].
    rewrite Parent_gpos by assumption. rewrite <- Eg.
    assert (Eroot : isRootPositionTotalRows (gp T (nrow y0) (noff y0)) n T = nroot y0).
    { pose proof (i_n I) as En. cbn [ms_n] in En. unfold num_leaves in En. rewrite En.
      exact (ng_isroot H HO s T Hn63 (pi_Tlo H HO s Rc Rn _ I) HT y0 Hy0). }
    rewrite Eroot. destruct (nroot y0) eqn:Ry.
    - apply (tidy2x_weaken H HO s Rn _ _ (fun _ => False)) in Ht; [exact Ht|]. intros c [C _]. discriminate.
    - pose proof (prunePosition_Inv2 H HO s Rc Rn _ y0 I Hy0 Ry) as I5.
      assert (Ht1 : tidy2x H HO s Rn (set_nodes (mkM nd ca n T full)
                       (prunePosition HO T nd (gp T (nrow y0) (noff y0)))) (Ex y0)).
      { apply (prune_pair_tidy H HO s Rc Rn _ y0 (Ex y0) I Hy0 Ry).
        - intros c (a & _ & _ & _ & Hlt & [-> | ->]); unfold coord, sibc; cbn [fst]; exact Hlt.
        - apply (tidy2x_weaken H HO s Rn _ (fun c => false = false /\ (c = coord y0 \/ c = sibc (coord y0) \/ Ex y0 c)));
            [intros c [_ Hc]; exact Hc|exact Ht]. }
      assert (Hrow : add8 r 1 = N.of_nat (nrow y0)).
      { rewrite add8_small by lia. destruct (pi_valid H HO s Rc Rn _ I y0 Hy0) as [A B]. cbn [ms_total] in A, B.
        unfold gp in Eg.
        assert (Hv : o / 2 < 2 ^ (T - (r + 1))).
        { apply N.div_lt_upper_bound; [lia|]. rewrite <- UtilsGeom.pow2_S. replace (T - (r + 1) + 1) with (T - r) by lia. exact Ho. }
        assert (Hr1 : r + 1 <= T) by lia.
        destruct (gpos_inj T _ _ _ _ A B Hr1 Hv Eg) as [E1 _]. lia. }
      rewrite Hrow.
      pose proof (node_tree_63 H HO s Hn63 y0 Hy0) as H63.
      exact (fud_node_tidy f _ y0 I5 Hy0 Ry Ht1 ltac:(lia)).
  Qed.
End FudTidy.

(** * 6. The coordinates of the subtree that moves up *)
Definition liftc (rd : nat) (c : nat * N) : nat * N :=
  (S (fst c), rmbit (snd c) (N.of_nat (rd - fst c))).

Lemma lxor1_half o : N.lxor o 1 / 2 = o / 2.
Proof. destruct (pps_bit0 o) as (k & [(E1 & E2 & _ & E4)|(E1 & E2 & _ & E4)]); rewrite E2, E4; lia. Qed.

Lemma lift_form rd od c : under (rd, N.lxor od 1) c ->
  exists b, b < 2 ^ N.of_nat (rd - fst c) /\
    snd c = N.lxor od 1 * 2 ^ N.of_nat (rd - fst c) + b /\
    liftc rd c = (S (fst c), od / 2 * 2 ^ N.of_nat (rd - fst c) + b).
Proof.
  intros U. destruct (under_decomp _ _ U) as [E Hb]. cbn [fst snd] in E, Hb.
  exists (snd c mod 2 ^ N.of_nat (rd - fst c)). split; [exact Hb|]. split; [exact E|].
  unfold liftc. f_equal. rewrite E at 1. rewrite rmbit_block by exact Hb. rewrite lxor1_half. reflexivity.
Qed.

Lemma lift_underP rd od c : under (rd, N.lxor od 1) c -> under (S rd, od / 2) (liftc rd c).
Proof.
  intros U. destruct (lift_form rd od c U) as (b & Hb & _ & ->). destruct U as [Hr _]. cbn [fst] in Hr.
  apply (under_compose (S rd, od / 2) (S (fst c), _) b); cbn [fst snd]; [lia| |];
    replace (S rd - S (fst c))%nat with (rd - fst c)%nat by lia; [reflexivity|exact Hb].
Qed.

Lemma lift_under rd od c d : under (rd, N.lxor od 1) c -> under (rd, N.lxor od 1) d -> under c d ->
  under (liftc rd c) (liftc rd d).
Proof.
  intros Uc Ud Ucd. destruct (lift_form rd od c Uc) as (bc & Hbc & Ec & ->).
  destruct (lift_form rd od d Ud) as (bd & Hbd & Ed & ->).
  destruct Uc as [Hrc _], Ud as [Hrd _], Ucd as [Hle Eo]. cbn [fst snd] in *.
  split; cbn [fst snd]; [lia|]. unfold p2 in *.
  replace (S (fst c) - S (fst d))%nat with (fst c - fst d)%nat by lia.
  set (k := N.of_nat (fst c - fst d)) in *. set (jc := N.of_nat (rd - fst c)) in *.
  set (jd := N.of_nat (rd - fst d)) in *.
  assert (Ej : jd - k = jc) by lia. assert (Hk : k <= jd) by lia.
  destruct (block_div (N.lxor od 1) jd bd k Hbd Hk) as [D1 D2].
  destruct (block_div (od / 2) jd bd k Hbd Hk) as [D1' _].
  rewrite Ed, D1, Ej, Ec in Eo. rewrite D1', Ej. rewrite Ej in D2.
  assert (bd / 2 ^ k = bc) by lia. lia.
Qed.

Lemma lift_sib rd od c : under (rd, N.lxor od 1) c -> (fst c < rd)%nat ->
  under (rd, N.lxor od 1) (sibc c) /\ liftc rd (sibc c) = sibc (liftc rd c).
Proof.
  intros U Hlt. destruct c as [r o]. cbn [fst] in Hlt.
  assert (Us : under (rd, N.lxor od 1) (sibc (r, o))) by (apply under_child_sib; [exact U|exact Hlt]).
  split; [exact Us|].
  destruct (lift_form rd od _ U) as (b & Hb & Ec & ->).
  destruct (lift_form rd od _ Us) as (b' & Hb' & Ec' & ->). unfold sibc in *. cbn [fst snd] in *.
  f_equal.
  destruct (block_lxor (N.lxor od 1) (N.of_nat (rd - r)) b ltac:(lia) Hb) as [X1 X2].
  destruct (block_lxor (od / 2) (N.of_nat (rd - r)) b ltac:(lia) Hb) as [X1' _].
  rewrite Ec, X1 in Ec'. rewrite X1'. assert (b' = N.lxor b 1) by lia. subst b'. reflexivity.
Qed.

(** * 7. One [removeSingle] on a node that is no root keeps a partial forest tidy *)
Section StepTidy.
  Variable H : Type.
  Variable HO : ops H.
  Hypothesis HOK : ops_ok HO.
  Variable s : slots H.
  Variables Rc Rn : list H.
  Variable m : mstate H.
  Hypothesis I : Inv2 HO s Rc Rn m.
  Variable L : list H.
  Variable x : node H.
  Hypothesis Hx : In x (layout HO s).
  Hypothesis Hxr : nroot x = false.
  Hypothesis Hdel : forall y, In y (layout HO s) -> nleaf y = true ->
    (memH HO (nhash y) L = true <-> under (coord x) (coord y)).
  Hypothesis HLc : forall y, In y (layout HO s) -> nleaf y = true -> under (coord x) (coord y) ->
    ~ In (nhash y) Rc.
  Variable z : node H.
  Hypothesis Hz : In z (layout HO s).
  Hypothesis Lz : nleaf z = true.
  Hypothesis Uz : under (coord x) (coord z).
  Hypothesis Rz : In (nhash z) Rn.
  Variables p sb : node H.
  Hypothesis Hp : In p (layout HO s).
  Hypothesis Hsb : In sb (layout HO s).
  Hypothesis Hsbr : nroot sb = false.
  Hypothesis Hpl : nleaf p = false.
  Hypothesis Esb : coord sb = (nrow x, N.lxor (noff x) 1).
  Hypothesis Ep : coord p = (S (nrow x), noff x / 2).
  Hypothesis Etp : ntree p = ntree x.
  Hypothesis Ets : ntree sb = ntree x.
  Variable bsb : bool.
  Variable nd3 : nodemap H.
  Variable ca3 : cachemap H.
  Hypothesis Hvsb : nodes_get (ms_nodes m) (gp (ms_total m) (nrow sb) (noff sb)) = Some (nhash sb, bsb).
  Hypothesis M : moved HO (ms_total m) (N.of_nat (nrow x)) (noff x) (ms_nodes m) (ms_cached m)
                   (nhash sb, bsb) nd3 ca3.
  Hypothesis Hfull : ms_full m = false.
  Hypothesis HT2 : Tidy2 H HO s Rn m.

  Notation lay := (layout HO s).
  Notation s' := (kill HO L s).
  Notation lay' := (layout HO (kill HO L s)).
  Notation T := (ms_total m).
  Notation N0 := (ms_nodes m).
  Notation rd := (nrow x).
  Notation od := (noff x).
  Notation rdN := (N.of_nat (nrow x)).
  Notation Pc := (S (nrow x), noff x / 2).
  Notation sbc := (nrow x, N.lxor (noff x) 1).
  Notation fl := (S (nrow x) =? ntree x)%nat.
  Notation J := (ntree x - S (nrow x))%nat.
  Notation Rn' := (filter (fun h => negb (memH HO h L)) Rn).
  Notation nd4 := (updateHashes HO (ms_n m) (ms_total m) (ms_full m)
                     (gp (ms_total m) (nrow x) (noff x)) (nhash sb) nd3).
  Notation m4 := (mkM nd4 ca3 (ms_n m) (ms_total m) (ms_full m)).
  Notation pU := (posU (ms_total m) (N.of_nat (nrow x)) (noff x)).
  Notation pS := (posS (ms_total m) (N.of_nat (nrow x)) (noff x)).
  Notation y0 := (upn H (nrow x) (S (nrow x) =? ntree x)%nat sb).

  Definition t_I4 := st_Inv H HO s Rc Rn m I L x Hx Hxr Hdel HLc z Hz Lz Uz Rz p sb Hp Hsb Hsbr Hpl
                       Esb Ep Etp Ets bsb nd3 ca3 Hvsb M.
  Definition t_sum := sum_all H HO s Rc Rn m I L x Hx Hxr Hdel HLc z Hz Lz Uz Rz p sb Hp Hsb Hsbr Hpl
                       Esb Ep Etp Ets bsb nd3 ca3 M.
  Definition t_new := new_node H HO s Rc Rn m I L x Hx Hxr Hdel HLc z Lz p sb Hp Hsb Hsbr Hpl Esb Ep Etp Ets.

  Lemma t_n63' : N.of_nat (length (kill HO L s)) <= 2 ^ 63.
  Proof. exact (pi_n63 H HO _ Rc Rn' _ t_I4). Qed.
  Lemma t_n63 : N.of_nat (length s) <= 2 ^ 63. Proof. exact (pi_n63 H HO s Rc Rn m I). Qed.
  Lemma t_Tlo : TreeRows (N.of_nat (length s)) <= T. Proof. exact (pi_Tlo H HO s Rc Rn m I). Qed.
  Lemma t_rd : rdN < T.
  Proof. destruct (pi_valid H HO s Rc Rn m I p Hp) as [A _]. destruct (coord_eq _ _ _ Ep) as [Er _]. lia. Qed.
  Lemma t_od : od < 2 ^ (T - rdN). Proof. exact (proj2 (pi_valid H HO s Rc Rn m I x Hx)). Qed.

  Lemma t_inj' a b : In a lay' -> In b lay' -> gp T (nrow a) (noff a) = gp T (nrow b) (noff b) -> a = b.
  Proof. exact (pi_inj H HO _ Rc Rn' _ t_I4 a b). Qed.

  Lemma t_ref_other y : In y lay -> ~ under Pc (coord y) -> ~ under (coord y) Pc -> In y lay'.
  Proof. intros Hy. exact (proj1 (kill_inner H HO s L x Hx Hdel Hxr y Hy)). Qed.
  Lemma t_ref_sb y : In y lay -> under sbc (coord y) -> In (upn H rd fl y) lay'.
  Proof. intros Hy. exact (proj1 (proj2 (kill_inner H HO s L x Hx Hdel Hxr y Hy))). Qed.

  Lemma t_upn_coord y : coord (upn H rd fl y) = liftc rd (coord y).
  Proof. reflexivity. Qed.

  Lemma t_y0 : In y0 lay' /\ coord y0 = Pc /\ gp T (nrow y0) (noff y0) = gpos T (rdN + 1) (od / 2).
  Proof.
    assert (Hin : In y0 lay') by (apply t_ref_sb; [exact Hsb|rewrite Esb; apply under_refl]).
    assert (Ec : coord y0 = Pc).
    { rewrite t_upn_coord, Esb. unfold liftc. cbn [fst snd]. rewrite Nat.sub_diag. f_equal.
      unfold rmbit. cbn [N.of_nat]. rewrite N.add_0_l, N.pow_1_r, N.pow_0_r, N.mul_1_r, N.mod_1_r, N.add_0_r.
      apply lxor1_half. }
    split; [exact Hin|]. split; [exact Ec|]. destruct (coord_eq _ _ _ Ec) as [Er Eo]. rewrite Er, Eo.
    unfold gp. f_equal. lia.
  Qed.

  (** the chain above the parent, in the new layout *)
  Lemma t_chain_E k y' : (k < J)%nat -> In y' lay' ->
    (coord y' = ((S rd + k)%nat, ao H x k) \/ coord y' = sibc ((S rd + k)%nat, ao H x k)) ->
    nroot y0 = false /\ (coord y' = coord y0 \/ coord y' = sibc (coord y0) \/ Ex H HO (kill HO L s) y0 (coord y')).
  Proof.
    intros Hk Hy' Hc. destruct t_y0 as (Hy0 & Ec0 & _).
    assert (Hfl : nroot y0 = false).
    { unfold upn. cbn [nroot]. destruct (coord_eq _ _ _ Esb) as [Er _]. rewrite Er, Nat.eqb_refl. cbn [andb].
      apply Nat.eqb_neq. lia. }
    split; [exact Hfl|]. rewrite Ec0. destruct (Nat.eq_dec k 0) as [->|Hk0].
    - unfold ao in Hc. cbn [N.of_nat] in Hc. rewrite N.pow_0_r, N.div_1_r, Nat.add_0_r in Hc.
      destruct Hc as [-> | ->]; auto.
    - right. right. destruct (t_new k ltac:(lia)) as (a & Ha & Eca & _ & _ & Hin).
      destruct (Hin ltac:(lia)) as [_ Ra]. exists a. split; [exact Ha|]. split.
      + rewrite Ra. apply Nat.eqb_neq. lia.
      + split; [|split].
        * rewrite Eca, Ec0. split; cbn [fst snd]; [lia|]. unfold ao, p2. f_equal. f_equal. lia.
        * destruct (coord_eq _ _ _ Eca) as [Er _]. destruct (coord_eq _ _ _ Ec0) as [Er0 _]. lia.
        * rewrite Eca. exact Hc.
  Qed.

  (** where a stored binding of the new node map comes from *)
  Lemma t_src y' h b : In y' lay' -> nodes_get nd4 (gp T (nrow y') (noff y')) = Some (h, b) ->
    (exists k, (1 <= k)%nat /\ (k <= J)%nat /\ coord y' = ((S rd + k)%nat, ao H x k) /\ b = ms_full m) \/
    (y' = y0 /\ b = bsb) \/
    (exists yo, In yo lay /\ under sbc (coord yo) /\ (nrow yo < rd)%nat /\ y' = upn H rd fl yo /\
                nodes_get N0 (gp T (nrow yo) (noff yo)) = Some (h, b)) \/
    (exists yo, In yo lay /\ ~ under Pc (coord yo) /\ ~ under (coord yo) Pc /\ y' = yo /\
                nodes_get N0 (gp T (nrow yo) (noff yo)) = Some (h, b)).
  Proof.
    intros Hy' E. destruct t_sum as (_ & _ & _ & _ & _ & S5). destruct t_y0 as (Hy0 & Ec0 & Eg0).
    pose proof t_rd as Hrd. pose proof t_od as Hod. pose proof (i_T63 I) as HT.
    destruct (S5 _ _ E) as [(k & A & B & Ep' & _ & Ev)|[E3 Hno]].
    - left. exists k. injection Ev as _ ->. split; [exact A|]. split; [exact B|]. split; [|reflexivity].
      destruct (t_new k B) as (a & Ha & Eca & _).
      rewrite <- (apos_node H HO (kill HO L s) m x k a Ha Eca) in Ep'.
      rewrite (t_inj' y' a Hy' Ha Ep'). exact Eca.
    - right.
      assert (Hnr : isRootPositionTotalRows (gpos T rdN od) (ms_n m) T = false)
        by exact (si_notroot H HO s Rc Rn m I x Hx Hxr).
      destruct (moved_src H HO (ms_n m) T rdN od HT Hrd Hod N0 (ms_cached m) (nhash sb, bsb) Hnr
                  (si_uniq H HO s Rc Rn m I) nd3 ca3 M _ _ E3)
        as [[Epar Ev]|[(j & c & Hj1 & Hj & Hc & Epu & Es)|[E0 Hout]]].
      + left. injection Ev as _ ->. split; [|reflexivity]. apply (t_inj' y' y0 Hy' Hy0). congruence.
      + right. left. destruct (i_true I _ _ _ Es) as (yo & Hyo & Eyo & _).
        destruct (pi_valid H HO s Rc Rn m I yo Hyo) as [A B]. unfold gp in Eyo. symmetry in Eyo.
        destruct (cp_S_inv T rd od HT Hrd Hod (nrow yo) (noff yo) j c A B ltac:(lia) Hc Eyo) as [Uy Ery].
        exists yo. split; [exact Hyo|]. split; [exact Uy|]. split; [lia|]. split.
        * apply (t_inj' y' _ Hy' (t_ref_sb yo Hyo Uy)). rewrite Epu.
          destruct (cp_S T rd od HT Hrd Hod (nrow yo) (noff yo) Uy) as (j' & c' & Hj' & Hc' & _ & E1 & E2).
          unfold upn. cbn [nrow noff]. unfold gp. rewrite E2. rewrite Eyo in E1.
          destruct (N.eq_dec j j') as [<-|Hne].
          -- rewrite (posS_inj T rdN od HT Hrd Hod j c c' ltac:(lia) Hc Hc' E1). reflexivity.
          -- exfalso. exact (posS_row_neq T rdN od HT Hrd Hod j c j' c' ltac:(lia) Hc Hj' Hc' Hne E1).
        * unfold gp. rewrite Eyo. exact Es.
      + right. right. destruct (i_true I _ _ _ E0) as (yo & Hyo & Eyo & _).
        assert (Hn1 : ~ under Pc (coord yo)).
        { intros U. destruct (pi_valid H HO s Rc Rn m I yo Hyo) as [A B].
          assert (Hcd : coord yo = Pc \/ coord yo <> Pc).
          { destruct (Nat.eq_dec (nrow yo) (S rd)) as [Er|Er]; [|right; intros C; apply Er; exact (f_equal fst C)].
            destruct (N.eq_dec (noff yo) (od / 2)) as [Eo|Eo]; [left; unfold coord; congruence|].
            right. intros C. apply Eo. exact (f_equal snd C). }
          destruct Hcd as [Ec|Hne].
          - destruct (coord_eq _ _ _ Ec) as [Er Eo]. apply (Hout 0 0); [lia|cbn; lia|].
            rewrite Eyo, Er, Eo. exact (cp_U0 T rd od HT Hrd Hod).
          - destruct (cp_U T rd od HT Hrd Hod (nrow yo) (noff yo) U Hne) as (j & c & Hj1 & Hj & Hc' & Ec).
            apply (Hout j c Hj Hc'). rewrite Eyo. exact Ec. }
        assert (Hn2 : ~ under (coord yo) Pc).
        { intros U. destruct U as [Hle Eo]. unfold coord in Hle, Eo. cbn [fst snd] in Hle, Eo.
          pose proof (ng_same_tree H HO s yo p Hyo Hp ltac:(rewrite Ep; split; [exact Hle|exact Eo])) as Et.
          pose proof (node_row_le_tree H HO s yo Hyo) as Hrt.
          assert (Hk1 : (1 <= nrow yo - S rd)%nat).
          { destruct (Nat.eq_dec (nrow yo) (S rd)) as [Er|]; [|lia]. exfalso. apply Hn1.
            rewrite Er, Nat.sub_diag, p2_0, N.div_1_r in Eo. unfold coord. rewrite Er, <- Eo. apply under_refl. }
          apply (Hno (nrow yo - S rd)%nat Hk1 ltac:(lia)). rewrite Eyo. unfold apos, ao. unfold p2 in Eo.
          rewrite Eo. f_equal. lia. }
        exists yo. split; [exact Hyo|]. split; [exact Hn1|]. split; [exact Hn2|]. split.
        * apply (t_inj' y' yo Hy' (t_ref_other yo Hyo Hn1 Hn2)). exact Eyo.
        * rewrite <- Eyo. exact E0.
  Qed.

  Lemma t_notL w : In w lay -> nleaf w = true -> ~ under (coord x) (coord w) -> memH HO (nhash w) L = false.
  Proof.
    intros Hw Lw Hn. destruct (memH HO (nhash w) L) eqn:E; [|reflexivity].
    exfalso. apply Hn. apply (Hdel w Hw Lw). exact E.
  Qed.

  Lemma t_sb_not_x c : under sbc c -> ~ under (coord x) c.
  Proof.
    intros Us Ux. destruct Us as [Hr1 E1], Ux as [_ E2]. unfold coord in E2. cbn [fst snd] in *.
    rewrite E1 in E2. pose proof (lxor_1 od) as Hx'. destruct (N.even od) eqn:Ev; [lia|].
    pose proof (odd_nz _ Ev). lia.
  Qed.

  Lemma t_x_under_P : under Pc (coord x). Proof. exact (proj2 (under_sib_par rd od)). Qed.
  Lemma t_sb_under_P c : under sbc c -> under Pc c.
  Proof. intros U. exact (under_trans _ _ _ (proj1 (under_sib_par rd od)) U). Qed.

  Lemma t_Rn' w : In w lay -> nleaf w = true -> In (nhash w) Rn -> ~ under (coord x) (coord w) ->
    In (nhash w) Rn'.
  Proof. intros Hw Lw Hh Hn. apply filter_In. split; [exact Hh|]. rewrite (t_notL w Hw Lw Hn). reflexivity. Qed.

  (** a remembered leaf below an untouched node stays below it *)
  Lemma t_onp_other c : ~ under Pc c -> ~ under c Pc -> onp H HO s Rn c -> onp H HO (kill HO L s) Rn' c.
  Proof.
    intros N1 N2 (w & Hw & Lw & Hh & Uw). destruct (other_below _ _ _ N1 N2 Uw) as [M1 M2].
    exists w. split; [exact (t_ref_other w Hw M1 M2)|]. split; [exact Lw|]. split; [|exact Uw].
    apply (t_Rn' w Hw Lw Hh). intros Ux. apply M1. exact (under_trans _ _ _ t_x_under_P Ux).
  Qed.

  (** ... and one below the sibling moves up with it *)
  Lemma t_onp_sb c : under sbc c -> onp H HO s Rn c -> onp H HO (kill HO L s) Rn' (liftc rd c).
  Proof.
    intros Uc (w & Hw & Lw & Hh & Uw). pose proof (under_trans _ _ _ Uc Uw) as Usw.
    exists (upn H rd fl w). split; [exact (t_ref_sb w Hw Usw)|]. split; [exact Lw|]. split.
    - exact (t_Rn' w Hw Lw Hh (t_sb_not_x _ Usw)).
    - rewrite t_upn_coord. exact (lift_under rd od _ _ Uc Usw Uw).
  Qed.

  Theorem t_tidy4 : tidy2x H HO (kill HO L s) Rn' m4
    (fun c => nroot y0 = false /\ (c = coord y0 \/ c = sibc (coord y0) \/ Ex H HO (kill HO L s) y0 c)).
  Proof.
    destruct HT2 as [T1 T2]. destruct t_y0 as (Hy0 & Ec0 & Eg0).
    pose proof t_n63 as Hn63. pose proof t_Tlo as HTlo. pose proof (i_T63 I) as HT.
    assert (Hrt : (rd < ntree x)%nat) by (apply (nonroot_iff_row H HO s Hn63 x Hx); exact Hxr).
    split; cbn [ms_nodes ms_total].
    - (* the flag *)
      intros y' h Hy' E. destruct (t_src y' h true Hy' E)
        as [(k & _ & _ & _ & Eb)|[[-> Eb]|[(yo & Hyo & Uy & Hlt & -> & Eo)|(yo & Hyo & N1 & N2 & -> & Eo)]]].
      + rewrite Hfull in Eb. discriminate.
      + subst bsb. destruct (T1 sb _ Hsb Hvsb) as [Ls Hh]. split; [exact Ls|].
        apply (t_Rn' sb Hsb Ls Hh). apply t_sb_not_x. rewrite Esb. apply under_refl.
      + destruct (T1 yo _ Hyo Eo) as [Lo Hh]. split; [exact Lo|]. exact (t_Rn' yo Hyo Lo Hh (t_sb_not_x _ Uy)).
      + destruct (T1 yo _ Hyo Eo) as [Lo Hh]. split; [exact Lo|]. apply (t_Rn' yo Hyo Lo Hh).
        intros Ux. apply N1. exact (under_trans _ _ _ t_x_under_P Ux).
    - (* what is stored *)
      intros y' Hy' HnE Hst.
      destruct (nodes_get nd4 (gp T (nrow y') (noff y'))) as [[h b]|] eqn:E; [clear Hst|congruence].
      destruct (t_src y' h b Hy' E)
        as [(k & Hk1 & Hk & Ec & _)|[[-> _]|[(yo & Hyo & Uy & Hlt & -> & Eo)|(yo & Hyo & N1 & N2 & -> & Eo)]]].
      + (* a node of the chain *)
        destruct (Nat.eq_dec k J) as [->|Hne].
        * left. destruct (t_new J (le_n _)) as (a & Ha & Eca & _ & _ & Hin).
          destruct (Hin Hk1) as [_ Ra]. rewrite Nat.eqb_refl in Ra.
          rewrite (ng_coord_eq H HO _ y' a Hy' Ha ltac:(congruence)). exact Ra.
        * exfalso. apply HnE. apply (t_chain_E k y' ltac:(lia) Hy'). left. exact Ec.
      + (* the node on the parent's place *)
        destruct (nroot y0) eqn:R0; [left; exact R0|]. exfalso. apply HnE. auto.
      + (* a node that has moved up *)
        assert (Hso : nodes_get N0 (gp T (nrow yo) (noff yo)) <> None) by (rewrite Eo; discriminate).
        destruct (T2 yo Hyo (fun C => C) Hso) as [Ro|[Ho|Ho]].
        * exfalso. rewrite <- Esb in Uy.
          exact (ng_root_top H HO s T Hn63 HTlo HT sb yo Hsb Hyo Hsbr Ro Uy).
        * right. left. rewrite t_upn_coord. exact (t_onp_sb _ Uy Ho).
        * right. right. rewrite t_upn_coord.
          destruct (lift_sib rd od (coord yo) Uy ltac:(unfold coord; cbn [fst]; exact Hlt)) as [Us El].
          rewrite <- El. exact (t_onp_sb _ Us Ho).
      + (* a node that has not moved *)
        assert (Hso : nodes_get N0 (gp T (nrow yo) (noff yo)) <> None) by (rewrite Eo; discriminate).
        destruct (T2 yo Hyo (fun C => C) Hso) as [Ro|[Ho|Ho]].
        * left. exact Ro.
        * right. left. exact (t_onp_other _ N1 N2 Ho).
        * destruct (nroot yo) eqn:Ryo; [left; exact Ryo|]. right. right.
          destruct (ng_family H HO s yo Hyo Ryo) as (py & ys & Hpy & Hys & Rys & _ & Eys & Epy & _).
          assert (Ecs : sibc (coord yo) = coord ys) by (rewrite Eys; reflexivity).
          rewrite Ecs in Ho |- *.
          (* the sibling is untouched as well, or [yo] is an exception *)
          assert (M1 : ~ under Pc (coord ys)).
          { intros U. apply N1. destruct (Nat.eq_dec (nrow ys) (S rd)) as [Er|Er].
            - (* the sibling is the parent: [yo] is beside it *)
              exfalso. assert (Ecp : coord ys = Pc).
              { destruct U as [_ Eo']. unfold coord in *. cbn [fst snd] in *.
                rewrite Er, Nat.sub_diag, p2_0, N.div_1_r in Eo'. congruence. }
              destruct (Nat.eq_dec J 0) as [HJ|HJ].
              + rewrite <- Ep in Ecp. rewrite (ng_coord_eq H HO s ys p Hys Hp Ecp) in Rys.
                assert (Rp : nroot p = true) by (apply (root_iff_row H HO s p Hp); destruct (coord_eq _ _ _ Ep) as [Epr _]; lia).
                congruence.
              + apply HnE. apply (t_chain_E 0 yo ltac:(lia) Hy'). right.
                unfold ao. cbn [N.of_nat]. rewrite N.pow_0_r, N.div_1_r, Nat.add_0_r.
                rewrite <- Ecp, <- Ecs, sibc_invol. reflexivity.
            - rewrite <- (sibc_invol (coord yo)), Ecs. change (coord ys) with (nrow ys, noff ys).
              apply under_child_sib; [exact U|]. destruct U as [Hle _]. unfold coord in *. cbn [fst] in *. lia. }
          assert (M2 : ~ under (coord ys) Pc).
          { intros U. destruct (coord_eq _ _ _ Eys) as [Esr Eso].
            destruct U as [Hle Eo']. unfold coord in Hle, Eo'. cbn [fst snd] in Hle, Eo'.
            destruct (Nat.eq_dec (nrow ys) (S rd)) as [Er|Er].
            { apply M1. rewrite Er, Nat.sub_diag, p2_0, N.div_1_r in Eo'. unfold coord. rewrite Er, <- Eo'. apply under_refl. }
            pose proof (ng_same_tree H HO s ys p Hys Hp ltac:(rewrite Ep; split; [exact Hle|exact Eo'])) as Et.
            assert (Hlt' : (nrow ys < ntree ys)%nat) by (apply (nonroot_iff_row H HO s Hn63 ys Hys); exact Rys).
            apply HnE. apply (t_chain_E (nrow ys - S rd) yo ltac:(lia) Hy'). right.
            rewrite <- (sibc_invol (coord yo)), Ecs. f_equal. unfold coord, ao. unfold p2 in Eo'. rewrite Eo'.
            f_equal. lia. }
          exact (t_onp_other _ M1 M2 Ho).
  Qed.

  (** the state after [forgetUnneededDel] *)
  Theorem t_tidy5 :
    Tidy2 H HO (kill HO L s) Rn'
      (mkM (forgetUnneededDel HO (ms_n m) T (gp T (nrow x) (noff x)) nd4) ca3 (ms_n m) T (ms_full m)).
  Proof.
    pose proof t_I4 as I4. pose proof t_tidy4 as T4. set (N4 := nd4) in *. clearbody N4.
    destruct t_y0 as (Hy0 & _ & Eg0).
    exact (fud_from_del_tidy H HO _ Rc Rn' N4 ca3 (ms_n m) T (ms_full m) rdN od y0 I4 Hy0 t_rd t_od Eg0
             (si_notroot H HO s Rc Rn m I x Hx Hxr) T4).
  Qed.
End StepTidy.

(** * 8. [removeSingle] on any node keeps a partial forest tidy *)
Section NodeTidy.
  Variable H : Type.
  Variable HO : ops H.
  Hypothesis HOK : ops_ok HO.
  Notation keep L := (fun h => negb (memH HO h L)).

  (** the node has a sibling *)
  Theorem removeSingle_inner_tidy s Rc Rn m L x z : Inv2 HO s Rc Rn m ->
    ms_full m = false -> Tidy2 H HO s Rn m ->
    In x (layout HO s) -> nroot x = false ->
    (forall y, In y (layout HO s) -> nleaf y = true ->
               (memH HO (nhash y) L = true <-> under (coord x) (coord y))) ->
    (forall y, In y (layout HO s) -> nleaf y = true -> under (coord x) (coord y) -> ~ In (nhash y) Rc) ->
    In z (layout HO s) -> nleaf z = true -> under (coord x) (coord z) -> In (nhash z) Rn ->
    exists nd' ca',
      removeSingle HO (ms_n m) (ms_total m) (ms_full m) (gp (ms_total m) (nrow x) (noff x))
        (ms_nodes m, ms_cached m) = (nd', ca') /\
      Inv2 HO (kill HO L s) Rc (filter (keep L) Rn) (mkM nd' ca' (ms_n m) (ms_total m) (ms_full m)) /\
      Tidy2 H HO (kill HO L s) (filter (keep L) Rn) (mkM nd' ca' (ms_n m) (ms_total m) (ms_full m)).
  Proof.
    intros I Hfull HT2 Hx Hxr Hdel HLc Hz Lz Uz Rz.
    destruct (ng_family H HO s x Hx Hxr) as (p & sb & Hp & Hsb & Hsbr & Hpl & Esb & Ep & Etp & Ets & _).
    pose proof (si_rd H HO s Rc Rn m I L x Hx Hxr Hdel HLc z Lz) as Hrd.
    pose proof (si_od H HO s Rc Rn m I x Hx) as Hod.
    pose proof (si_rd_tree H HO s Rc Rn m I x Hx Hxr) as Hrt.
    pose proof (si_sib_stored H HO s Rc Rn m I L x Hx Hxr Hdel HLc z Hz Lz Uz Rz 0 ltac:(lia)) as Hs.
    rewrite Nat.add_0_r in Hs. cbn [N.of_nat] in Hs. rewrite N.pow_0_r, N.div_1_r in Hs.
    destruct (coord_eq _ _ _ Esb) as [Esr Eso].
    assert (Eg : gp (ms_total m) (nrow x) (N.lxor (noff x) 1) = gp (ms_total m) (nrow sb) (noff sb))
      by (rewrite Esr, Eso; reflexivity).
    rewrite Eg in Hs.
    destruct (nodes_get (ms_nodes m) (gp (ms_total m) (nrow sb) (noff sb))) as [[h b]|] eqn:Evs; [clear Hs|congruence].
    pose proof (si_stored_node H HO s Rc Rn m I sb (h, b) Hsb Evs) as Eh. cbn [fst] in Eh. subst h.
    assert (Evs' : nodes_get (ms_nodes m) (gpos (ms_total m) (N.of_nat (nrow x)) (N.lxor (noff x) 1))
                   = Some (nhash sb, b)).
    { rewrite <- Evs. unfold gp. rewrite Esr, Eso. reflexivity. }
    destruct (removeSingle_moves H HO HOK (ms_n m) (ms_total m) (N.of_nat (nrow x)) (noff x) (ms_full m)
                (i_T63 I) Hrd Hod (ms_nodes m) (ms_cached m) (nhash sb, b) (i_keys I) (i_ckeys I)
                (si_notroot H HO s Rc Rn m I x Hx Hxr) Evs' (si_uniq H HO s Rc Rn m I))
      as (nd3 & ca3 & M & Eq).
    eexists. exists ca3. split; [exact Eq|]. cbn [fst]. split.
    - exact (st_fud H HO s Rc Rn m I L x Hx Hxr Hdel HLc z Hz Lz Uz Rz p sb Hp Hsb Hsbr Hpl Esb Ep Etp Ets
               b nd3 ca3 Evs M).
    - exact (t_tidy5 H HO s Rc Rn m I L x Hx Hxr Hdel HLc z Hz Lz Uz Rz p sb Hp Hsb Hsbr Hpl Esb Ep Etp Ets
               b nd3 ca3 Evs M Hfull HT2).
  Qed.

  (** the node is a root *)
  Theorem removeSingle_root_tidy s Rc Rn m L x : Inv2 HO s Rc Rn m ->
    ms_full m = false -> Tidy2 H HO s Rn m ->
    In x (layout HO s) -> nroot x = true ->
    (forall y, In y (layout HO s) -> nleaf y = true ->
               (memH HO (nhash y) L = true <-> under (coord x) (coord y))) ->
    (forall y, In y (layout HO s) -> nleaf y = true -> under (coord x) (coord y) -> ~ In (nhash y) Rc) ->
    Tidy2 H HO (kill HO L s) (filter (keep L) Rn)
      (mkM (nodes_put (gp (ms_total m) (nrow x) (noff x)) (op_empty HO, ms_full m)
              (forgetBelow (ms_total m) (gp (ms_total m) (nrow x) (noff x)) (ms_nodes m)))
           (ms_cached m) (ms_n m) (ms_total m) (ms_full m)).
  Proof.
    intros I Hfull [T1 T2] Hx Rx Hdel HLc.
    pose proof (sr_Inv H HO s Rc Rn m I L x Hx Rx Hdel HLc) as I'.
    pose proof (pi_n63 H HO s Rc Rn m I) as Hn63. pose proof (pi_Tlo H HO s Rc Rn m I) as HTlo.
    pose proof (i_T63 I) as HT.
    assert (Hsame : forall y' yo, In y' (layout HO (kill HO L s)) -> In yo (layout HO s) ->
              ~ under (coord x) (coord yo) ->
              gp (ms_total m) (nrow y') (noff y') = gp (ms_total m) (nrow yo) (noff yo) -> y' = yo).
    { intros y' yo Hy' Hyo Hn E.
      exact (pi_inj H HO _ Rc _ _ I' y' yo Hy' (sr_keep H HO s L x Hx Rx Hdel yo Hyo Hn) E). }
    assert (Hw : forall c, ~ under (coord x) c -> (forall w, In w (layout HO s) -> under c (coord w) ->
                   ~ under (coord x) (coord w)) ->
              onp H HO s Rn c -> onp H HO (kill HO L s) (filter (keep L) Rn) c).
    { intros c _ Hno (w & Hwl & Lw & Hh & Uw). pose proof (Hno w Hwl Uw) as Hnw.
      exists w. split; [exact (sr_keep H HO s L x Hx Rx Hdel w Hwl Hnw)|]. split; [exact Lw|]. split; [|exact Uw].
      apply filter_In. split; [exact Hh|]. destruct (memH HO (nhash w) L) eqn:Em; [|reflexivity].
      exfalso. apply Hnw. apply (Hdel w Hwl Lw). exact Em. }
    split; cbn [ms_nodes ms_total].
    - intros y' h Hy' E.
      destruct (sr_src H HO s Rc Rn m I L x Hx Rx Hdel HLc _ _ E) as [[_ Ev]|(yo & Hyo & Hn & Ep & E0)].
      + injection Ev as _ Ef. rewrite Hfull in Ef. discriminate.
      + rewrite (Hsame y' yo Hy' Hyo Hn Ep). rewrite Ep in E0. destruct (T1 yo h Hyo E0) as [Lo Hh].
        split; [exact Lo|]. apply filter_In. split; [exact Hh|].
        destruct (memH HO (nhash yo) L) eqn:Em; [|reflexivity]. exfalso. apply Hn. apply (Hdel yo Hyo Lo). exact Em.
    - intros y' Hy' _ Hst.
      destruct (nodes_get _ (gp (ms_total m) (nrow y') (noff y'))) as [v|] eqn:E; [clear Hst|congruence].
      destruct (sr_src H HO s Rc Rn m I L x Hx Rx Hdel HLc _ _ E) as [[Ep _]|(yo & Hyo & Hn & Ep & E0)].
      + left. pose proof (sr_er H HO s L x Hx Rx Hdel) as Her.
        rewrite (pi_inj H HO _ Rc _ _ I' y' _ Hy' Her Ep). reflexivity.
      + rewrite (Hsame y' yo Hy' Hyo Hn Ep). rewrite Ep in E0.
        assert (Hso : nodes_get (ms_nodes m) (gp (ms_total m) (nrow yo) (noff yo)) <> None) by (rewrite E0; discriminate).
        assert (Hxno : forall a, In a (layout HO s) -> under (coord a) (coord x) -> a = x).
        { intros a Ha U. pose proof (ng_same_tree H HO s a x Ha Hx U) as Et.
          pose proof (node_row_le_tree H HO s a Ha) as Hle. apply (root_iff_row H HO s x Hx) in Rx.
          destruct U as [Hr Eo]. unfold coord in *. cbn [fst snd] in *.
          assert (Er : nrow a = nrow x) by lia. rewrite Er, Nat.sub_diag, p2_0, N.div_1_r in Eo.
          apply (ng_coord_eq H HO s a x Ha Hx). unfold coord. congruence. }
        destruct (T2 yo Hyo (fun C => C) Hso) as [Ro|[Ho|Ho]].
        * left. exact Ro.
        * right. left. apply (Hw _ Hn); [|exact Ho]. intros w Hwl Uw Ux.
          destruct (le_ge_dec (nrow yo) (nrow x)) as [Hle|Hge].
          -- apply Hn. exact (under_nested _ _ _ Uw Ux Hle).
          -- apply Hn. rewrite (Hxno yo Hyo (under_nested _ _ _ Ux Uw Hge)). apply under_refl.
        * destruct (nroot yo) eqn:Ryo; [left; exact Ryo|]. right. right.
          destruct (ng_family H HO s yo Hyo Ryo) as (py & ys & Hpy & Hys & Rys & _ & Eys & _ & _ & Etys & _).
          assert (Ecs : sibc (coord yo) = coord ys) by (rewrite Eys; reflexivity).
          rewrite Ecs in Ho |- *.
          assert (Hns : ~ under (coord x) (coord ys)).
          { intros U. apply Hn. apply (ng_tree_root H HO s x yo Hx Hyo Rx).
            rewrite <- Etys. exact (ng_same_tree H HO s x ys Hx Hys U). }
          apply (Hw _ Hns); [|exact Ho]. intros w Hwl Uw Ux.
          destruct (le_ge_dec (nrow ys) (nrow x)) as [Hle|Hge].
          -- apply Hns. exact (under_nested _ _ _ Uw Ux Hle).
          -- rewrite (Hxno ys Hys (under_nested _ _ _ Ux Uw Hge)) in Rys. congruence.
  Qed.

  (** any node *)
  Theorem removeSingle_node_tidy s Rc Rn m L x z : Inv2 HO s Rc Rn m ->
    ms_full m = false -> Tidy2 H HO s Rn m ->
    In x (layout HO s) ->
    (forall y, In y (layout HO s) -> nleaf y = true ->
               (memH HO (nhash y) L = true <-> under (coord x) (coord y))) ->
    (forall y, In y (layout HO s) -> nleaf y = true -> under (coord x) (coord y) -> ~ In (nhash y) Rc) ->
    In z (layout HO s) -> nleaf z = true -> under (coord x) (coord z) -> In (nhash z) Rn ->
    exists nd' ca',
      removeSingle HO (ms_n m) (ms_total m) (ms_full m) (gp (ms_total m) (nrow x) (noff x))
        (ms_nodes m, ms_cached m) = (nd', ca') /\
      Inv2 HO (kill HO L s) Rc (filter (keep L) Rn) (mkM nd' ca' (ms_n m) (ms_total m) (ms_full m)) /\
      Tidy2 H HO (kill HO L s) (filter (keep L) Rn) (mkM nd' ca' (ms_n m) (ms_total m) (ms_full m)).
  Proof.
    intros I Hfull HT2 Hx Hdel HLc Hz Lz Uz Rz. destruct (nroot x) eqn:Rx.
    - exists (nodes_put (gp (ms_total m) (nrow x) (noff x)) (op_empty HO, ms_full m)
                (forgetBelow (ms_total m) (gp (ms_total m) (nrow x) (noff x)) (ms_nodes m))),
             (ms_cached m).
      split; [|split; [exact (sr_Inv H HO s Rc Rn m I L x Hx Rx Hdel HLc)|
                       exact (removeSingle_root_tidy s Rc Rn m L x I Hfull HT2 Hx Rx Hdel HLc)]].
      unfold removeSingle. cbv zeta. cbn [fst snd].
      pose proof (i_n I) as En. unfold num_leaves in En. rewrite En at 1.
      rewrite (ng_isroot H HO s (ms_total m) (pi_n63 H HO s Rc Rn m I) (pi_Tlo H HO s Rc Rn m I) (i_T63 I) x Hx).
      rewrite Rx. reflexivity.
    - exact (removeSingle_inner_tidy s Rc Rn m L x z I Hfull HT2 Hx Rx Hdel HLc Hz Lz Uz Rz).
  Qed.
End NodeTidy.

(** * 9. [remove] keeps a partial forest tidy *)
Section RemoveTidy.
  Variable H : Type.
  Variable HO : ops H.
  Hypothesis HOK : ops_ok HO.
  Notation keep L := (fun h => negb (memH HO h L)).

  Lemma remove_fold_tidy Rc : forall ys s Rn nd ca n T,
    Inv2 HO s Rc Rn (mkM nd ca n T false) -> Tidy2 H HO s Rn (mkM nd ca n T false) ->
    okseq H HO s Rc Rn ys ->
    exists Lt nd' ca',
      fold_left (fun st d => removeSingle HO n T false d st)
                (map (fun y : node H => gp T (nrow y) (noff y)) ys) (nd, ca) = (nd', ca') /\
      (forall w, In w (layout HO s) -> nleaf w = true ->
         (memH HO (nhash w) Lt = true <-> exists y, In y ys /\ under (coord y) (coord w))) /\
      Inv2 HO (kill HO Lt s) Rc (filter (keep Lt) Rn) (mkM nd' ca' n T false) /\
      Tidy2 H HO (kill HO Lt s) (filter (keep Lt) Rn) (mkM nd' ca' n T false).
  Proof.
    induction ys as [|y1 rest IH]; intros s Rn nd ca n T I HT2 [Hok Hfop].
    - exists [], nd, ca. split; [reflexivity|]. split.
      + intros w _ _. cbn [memH]. split; [discriminate|]. intros (y & [] & _).
      + rewrite (kill_nil H HO), (filter_keep_nil H HO). auto.
    - pose proof (i_live_nd I) as Hnd.
      destruct (Hok y1 (or_introl eq_refl)) as (Hy1 & (z & Hz & Lz & Uz & Rz) & Hc1).
      set (L1 := leaves_under H HO s y1).
      assert (Hdel1 : forall w, In w (layout HO s) -> nleaf w = true ->
                (memH HO (nhash w) L1 = true <-> under (coord y1) (coord w))).
      { intros w Hw Lw. apply (leaves_under_spec H HO HOK); assumption. }
      destruct (removeSingle_node_tidy H HO HOK s Rc Rn _ L1 y1 z I eq_refl HT2 Hy1 Hdel1 Hc1 Hz Lz Uz Rz)
        as (nd1 & ca1 & Eq & I1 & HT1).
      cbn [ms_n ms_total ms_nodes ms_cached ms_full] in Eq, I1, HT1.
      inversion Hfop as [|a l Hhead Htail]; subst a l.
      rewrite Forall_forall in Hhead.
      assert (Hok1 : okseq H HO (kill HO L1 s) Rc (filter (keep L1) Rn) rest).
      { split; [|exact Htail]. intros y Hy.
        destruct (Hok y (or_intror Hy)) as (Hyl & (zy & Hzy & Lzy & Uzy & Rzy) & Hcy).
        pose proof (Hhead y Hy) as Hi. split; [|split].
        - exact (kl_keep H HO s L1 y1 Hy1 Hdel1 y Hyl Hi y Hyl (under_refl _)).
        - exists zy. split; [exact (kl_keep H HO s L1 y1 Hy1 Hdel1 y Hyl Hi zy Hzy Uzy)|].
          split; [exact Lzy|]. split; [exact Uzy|]. apply filter_In. split; [exact Rzy|].
          destruct (memH HO (nhash zy) L1) eqn:Em; [exfalso|reflexivity].
          apply (Hdel1 zy Hzy Lzy) in Em. destruct Hi as (N1 & N2 & _ & Hr).
          apply N2. exact (under_nested _ _ _ Em Uzy Hr).
        - intros w' Hw' Lw' Uw'.
          destruct (kl_leaf_below H HO s L1 y1 Hnd Hy1 Hdel1 y w' Hyl Hi Hw' Lw' Uw') as [Hwl _].
          exact (Hcy w' Hwl Lw' Uw'). }
      destruct (IH _ _ nd1 ca1 n T I1 HT1 Hok1) as (Ltr & nd' & ca' & Ef & Hspec & Ir & HTr).
      exists (L1 ++ Ltr), nd', ca'. split; [|split; [|split]].
      + cbn [map fold_left].
        match goal with |- fold_left ?f ?l ?st = _ => replace st with (nd1, ca1) by (symmetry; exact Eq) end.
        exact Ef.
      + intros w Hw Lw. rewrite (memH_app H HO), orb_true_iff. split.
        * intros [E1|Er].
          -- exists y1. split; [left; reflexivity|]. apply (Hdel1 w Hw Lw), E1.
          -- destruct (memH HO (nhash w) L1) eqn:E1.
             { exists y1. split; [left; reflexivity|]. apply (Hdel1 w Hw Lw), E1. }
             assert (Hl1 : In (Some (nhash w)) (kill HO L1 s)).
             { apply kill_live. split; [exact (layout_leaf_live H HO s w Hw Lw)|exact E1]. }
             destruct (live_leaf_in_layout H HO _ _ Hl1) as (w1 & Hw1 & Lw1 & Ew1).
             rewrite <- Ew1 in Er. apply (Hspec w1 Hw1 Lw1) in Er as (y & Hy & Uy).
             destruct (Hok y (or_intror Hy)) as (Hyl & _).
             destruct (kl_leaf_below H HO s L1 y1 Hnd Hy1 Hdel1 y w1 Hyl (Hhead y Hy) Hw1 Lw1 Uy) as [Hw1l _].
             rewrite (live_leaf_unique H HO s w1 w Hnd Hw1l Hw Lw1 Lw Ew1) in Uy.
             exists y. split; [right; exact Hy|exact Uy].
        * intros (y & [<-|Hy] & Uy).
          -- left. apply (Hdel1 w Hw Lw), Uy.
          -- right. destruct (Hok y (or_intror Hy)) as (Hyl & _).
             pose proof (kl_keep H HO s L1 y1 Hy1 Hdel1 y Hyl (Hhead y Hy) w Hw Uy) as Hw1.
             apply (Hspec w Hw1 Lw). exists y. auto.
      + rewrite <- (kill_kill H HO), (filter_keep_app H HO). exact Ir.
      + rewrite <- (kill_kill H HO), (filter_keep_app H HO). exact HTr.
  Qed.

  (** the deleted leaves: as [MapMutRemove.remove_leaves], with tidiness *)
  Theorem remove_leaves_tidy s R nd ca n T xs dels targets proof :
    MapMutRemove.Inv HO s R (mkM nd ca n T false) -> Tidy2 H HO s R (mkM nd ca n T false) -> NoDup xs ->
    (forall x, In x xs -> In x (layout HO s) /\ nleaf x = true /\ In (nhash x) R) ->
    (forall h, In h dels <-> exists x, In x xs /\ nhash x = h) ->
    Permutation targets (map (npos (rows_of (num_leaves s))) xs) ->
    exists m', mm_modify HO (mkM nd ca n T false) [] dels targets proof = Some m' /\
               MapMutRemove.Inv HO (kill HO dels s) (filter (keep dels) R) m' /\
               Tidy2 H HO (kill HO dels s) (filter (keep dels) R) m'.
  Proof.
    intros I HT2 Hnd Hxs Hdels Hperm. unfold MapMutRemove.Inv in *.
    assert (Hp2 : Permutation (sortN targets) (map (npos (rows_of (num_leaves s))) xs)).
    { eapply Permutation_trans; [apply pps_sortN_perm|exact Hperm]. }
    destruct (Permutation_map_inv _ _ Hp2) as (ls & Els & Pls).
    assert (Hls : forall x, In x ls -> In x (layout HO s)).
    { intros x Hx. apply (Permutation_in _ (Permutation_sym Pls)) in Hx. apply Hxs, Hx. }
    assert (Sls : StronglySorted (npl H s) ls).
    { apply (sorted_nodes H HO); [exact Hls|exact (Permutation_NoDup Pls Hnd)|].
      rewrite <- Els. apply pps_sortN_sorted. }
    destruct (detwinned_general H HO s T (pi_n63 H HO s R R _ I) (pi_Tlo H HO s R R _ I) (i_T63 I)
                xs ls Pls Sls) as (ys & Edt & Hys & Hcover & Hfop).
    { intros x Hx. destruct (Hxs x Hx) as (A & B & _). auto. }
    pose proof (translate_nodes H HO s R R _ ls I Hls) as Etr. rewrite <- Els in Etr.
    cbn [ms_n ms_total ms_nodes ms_cached ms_full] in *.
    pose proof (i_live_nd I) as Hlnd.
    assert (Hall : forallb (cached_has HO ca) dels = true).
    { apply forallb_forall. intros h Hh. apply Hdels in Hh as (x & Hx & <-).
      destruct (Hxs x Hx) as (Hxl & Lx & Hr). unfold cached_has.
      assert (E : cached_get HO ca (nhash x) = Some (gp T (nrow x) (noff x))).
      { apply (i_cached I). split; [exact Hr|]. exists x. auto. }
      cbn [ms_cached] in E. rewrite E. reflexivity. }
    pose proof (uncache_Inv2 H HO HOK dels s R R nd ca n T false I) as I1.
    assert (HT1 : Tidy2 H HO s R (mkM nd (fold_left (fun c h => cached_del HO h c) dels ca) n T false))
      by exact HT2.
    assert (Hdel_leaf : forall w, In w (layout HO s) -> nleaf w = true ->
              (memH HO (nhash w) dels = true <-> In w xs)).
    { intros w Hw Lw. rewrite (memH_In H HO HOK), Hdels. split.
      - intros (x & Hx & E). destruct (Hxs x Hx) as (Hxl & Lx & _).
        rewrite <- (live_leaf_unique H HO s x w Hlnd Hxl Hw Lx Lw E). exact Hx.
      - intros Hx. exists w. auto. }
    assert (Hok : okseq H HO s (filter (keep dels) R) R ys).
    { split; [|exact Hfop]. intros y Hy. destruct (Hys y Hy) as (Hyl & z & Hz & Lz & Uz).
      split; [exact Hyl|]. split.
      - exists z. split; [exact Hz|]. split; [exact Lz|]. split; [exact Uz|].
        assert (Hzx : In z xs) by (apply (Hcover z Hz Lz); exists y; auto).
        apply Hxs, Hzx.
      - intros w Hw Lw Uw Hin. apply filter_In in Hin as [_ Hm].
        assert (Hwx : In w xs) by (apply (Hcover w Hw Lw); exists y; auto).
        apply (Hdel_leaf w Hw Lw) in Hwx. rewrite Hwx in Hm. discriminate. }
    destruct (remove_fold_tidy (filter (keep dels) R) ys s R nd _ n T I1 HT1 Hok)
      as (Lt & nd' & ca' & Ef & Hspec & I2 & HT3).
    assert (Ememb : forall h, In (Some h) s -> memH HO h Lt = memH HO h dels).
    { intros h Hh. destruct (live_leaf_in_layout H HO s h Hh) as (w & Hw & Lw & <-).
      pose proof (Hspec w Hw Lw) as S1. pose proof (Hcover w Hw Lw) as S2.
      pose proof (Hdel_leaf w Hw Lw) as S3.
      destruct (memH HO (nhash w) Lt), (memH HO (nhash w) dels); try reflexivity.
      - assert (In w xs) by (apply S2, S1; reflexivity). assert (false = true) by (apply S3; assumption). discriminate.
      - assert (In w xs) by (apply S3; reflexivity). assert (false = true) by (apply S1, S2; assumption). discriminate. }
    rewrite (kill_ext H HO Lt dels s Ememb) in I2, HT3.
    rewrite (filter_keep_ext H HO Lt dels R) in I2, HT3 by (intros h Hh; apply Ememb, (i_Rn I h Hh)).
    exists (mkM nd' ca' n T false). split; [|split; [exact I2|exact HT3]].
    unfold mm_modify, MapMut.remove. cbn [ms_n ms_total ms_nodes ms_cached ms_full].
    rewrite Hall. cbn [negb]. rewrite Etr, Edt.
    match goal with |- context [add_all _ _ _ _ _ ?st] =>
      replace st with (nd', ca') by (symmetry; exact Ef) end.
    reflexivity.
  Qed.
End RemoveTidy.

(** * 10. Deletion blocks keep the invariant of [MapMutAdd]: all forests *)
Section DeleteAll.
  Variable H : Type.
  Variable HO : ops H.
  Hypothesis HOK : ops_ok HO.
  Notation AInv := (MapMutAdd.Inv H HO).
  Notation keep L := (fun h => negb (memH HO h L)).
  Notation kn s R := (known (Vlay HO s) (RTlay HO s) R).

  Lemma under_anc' (w : node H) (k : nat) : under ((nrow w + k)%nat, noff w / 2 ^ N.of_nat k) (coord w).
  Proof. split; cbn [fst snd]; [unfold coord; cbn; lia|]. unfold coord, p2. cbn [fst snd]. f_equal. f_equal. lia. Qed.

  (** "needed" of [MapMutAdd] for the coordinate of a node *)
  Lemma needed_nneed s R y : N.of_nat (length s) <= 2 ^ 63 -> In y (layout HO s) ->
    (needed (Vlay HO s) (RTlay HO s) R (nrow y) (noff y) <-> nneed H HO s R y).
  Proof.
    intros Hn63 Hy. pose proof (TreeRows_le_63 _ Hn63) as HT.
    assert (Hk : forall c : node H, In c (layout HO s) ->
              (kn s R (nrow c) (noff c) <-> onp H HO s R (coord c))).
    { intros c Hc. rewrite (known_path H HO s R _ _ Hn63). split.
      - intros (w & k & Hw & Lw & Hh & Er & Eo & _). exists w. split; [exact Hw|]. split; [exact Lw|].
        split; [exact Hh|]. unfold coord. rewrite Er, Eo. exact (under_anc' w k).
      - intros (w & Hw & Lw & Hh & U). exists w, (nrow c - nrow w)%nat.
        pose proof (ng_same_tree H HO s c w Hc Hw U) as Et.
        pose proof (node_row_le_tree H HO s c Hc) as Hle.
        destruct U as [Hr Eo]. unfold coord in Hr, Eo. cbn [fst snd] in Hr, Eo. unfold p2 in Eo.
        repeat split; try assumption; try lia. }
    unfold needed, nneed. split.
    - intros [(r & Hr & Rr & Er & Eo)|[K|[K Hn]]].
      + left. rewrite <- (ng_coord_eq H HO s r y Hr Hy ltac:(unfold coord; congruence)). exact Rr.
      + right. left. apply (Hk y Hy), K.
      + destruct (nroot y) eqn:Ry; [left; reflexivity|]. right. right.
        destruct (ng_family H HO s y Hy Ry) as (_ & ys & _ & Hys & _ & _ & Eys & _).
        destruct (coord_eq _ _ _ Eys) as [Er Eo]. rewrite <- Er, <- Eo in K.
        replace (sibc (coord y)) with (coord ys) by (rewrite Eys; reflexivity). apply (Hk ys Hys), K.
    - intros [Ry|[K|K]].
      + left. exists y. auto.
      + right. left. apply (Hk y Hy), K.
      + destruct (nroot y) eqn:Ry; [left; exists y; auto|]. right. right.
        destruct (ng_family H HO s y Hy Ry) as (_ & ys & _ & Hys & Rys & _ & Eys & _).
        destruct (coord_eq _ _ _ Eys) as [Er Eo].
        replace (sibc (coord y)) with (coord ys) in K by (rewrite Eys; reflexivity).
        rewrite <- Er, <- Eo. split; [apply (Hk ys Hys), K|].
        intros (r & Hr & Rr & Err & Eor).
        rewrite (ng_coord_eq H HO s r ys Hr Hys ltac:(unfold coord; congruence)) in Rr. congruence.
  Qed.

  Lemma Tidy_Tidy2 s R m : MapMutRemove.Inv HO s R m ->
    Tidy (Vlay HO s) (RTlay HO s) R (ms_total m) (ms_nodes m) -> Tidy2 H HO s R m.
  Proof.
    intros I [T1 T2]. pose proof (pi_n63 H HO s R R m I) as Hn63. split.
    - intros y h Hy E.
      pose proof (si_stored_node H HO s R R m I y (h, true) Hy E) as Eh. cbn [fst] in Eh. subst h.
      destruct (T1 (nrow y) (noff y) (nhash y) (nleaf y) (Vlay_node H HO s y Hy) E) as [A B]. auto.
    - intros y Hy _ Hs. apply (needed_nneed s R y Hn63 Hy).
      exact (T2 (nrow y) (noff y) (nhash y) (nleaf y) (Vlay_node H HO s y Hy) (fun C => C) Hs).
  Qed.

  Lemma Tidy2_Tidy s R m : N.of_nat (length s) <= 2 ^ 63 -> Tidy2 H HO s R m ->
    Tidy (Vlay HO s) (RTlay HO s) R (ms_total m) (ms_nodes m).
  Proof.
    intros Hn63 [T1 T2]. split.
    - intros r o h l (y & Hy & <- & <- & <- & <-) E. exact (T1 y _ Hy E).
    - intros r o h l (y & Hy & <- & <- & _) _ Hs. apply (needed_nneed s R y Hn63 Hy).
      exact (T2 y Hy (fun C => C) Hs).
  Qed.

  (** ** the lemma for the deletion blocks of a history *)
  Theorem delete_leaves_AInv s R m xs dels targets proof : AInv s R m ->
    (forall h a b, In (Some h) s -> h <> op_hash2 HO a b) ->
    NoDup xs ->
    (forall x, In x xs -> In x (layout HO s) /\ nleaf x = true /\ In (nhash x) R) ->
    (forall h, In h dels <-> exists x, In x xs /\ nhash x = h) ->
    Permutation targets (map (npos (rows_of (num_leaves s))) xs) ->
    exists m', mm_modify HO m [] dels targets proof = Some m' /\
               AInv (kill HO dels s) (filter (keep dels) R) m' /\
               ms_n m' = ms_n m /\ ms_total m' = ms_total m /\ ms_full m' = ms_full m.
  Proof.
    intros I Hnn Hnd Hxs Hdels Hperm.
    apply (delete_leaves_bridge H HO HOK s R m xs dels targets proof I Hnn Hnd Hxs Hdels Hperm).
    intros Hfull m' E'. destruct m as [nd ca n T full]. cbn [ms_full] in Hfull. subst full.
    pose proof (AInv_RInv H HO HOK s R nd ca n T false Hnn I) as IR.
    assert (HT2 : Tidy2 H HO s R (mkM nd (dedupc H HO ca) n T false)).
    { apply (Tidy_Tidy2 s R _ IR). exact (inv_tidy H HO s R _ I eq_refl). }
    destruct (remove_leaves_tidy H HO HOK s R nd _ n T xs dels targets proof IR HT2 Hnd Hxs Hdels Hperm)
      as (m0 & E0 & I0 & HT0).
    assert (Ece : ceq H HO ca (dedupc H HO ca)) by (intros h; symmetry; apply dedupc_get, HOK).
    assert (Dca : dupok H HO ca).
    { intros h p Hin. pose proof (inv_g H HO _ _ _ I) as G. cbn [ms_total ms_nodes ms_cached] in G.
      assert (Hk : In h (map fst ca)) by (apply in_map_iff; exists (h, p); auto).
      destruct (cached_get_some_of_key H HO HOK _ _ Hk) as [p' Ep]. rewrite Ep. f_equal.
      destruct (g_cpos G _ _ Hin) as (r & o & (x & Hx & <- & <- & Eh & Lx) & ->).
      destruct (g_cpos G _ _ (cached_get_In H HO HOK _ _ _ Ep)) as (r' & o' & (x' & Hx' & <- & <- & Eh' & Lx') & ->).
      rewrite (live_leaf_unique H HO s x x' (inv_nodup H HO _ _ _ I) Hx Hx' Lx Lx' ltac:(congruence)).
      reflexivity. }
    destruct (sim_modify H HO HOK nd ca (dedupc H HO ca) n T false dels targets proof m0 Ece Dca E0)
      as (ca1 & E1 & _ & _).
    rewrite E1 in E'. injection E' as <-. cbn [ms_total ms_nodes].
    exact (Tidy2_Tidy _ _ m0 (pi_n63 H HO _ _ _ _ I0) HT0).
  Qed.

  (** the targets as the map forest reports them *)
  Theorem delete_hashes_AInv s R m dels proof : AInv s R m ->
    (forall h a b, In (Some h) s -> h <> op_hash2 HO a b) ->
    NoDup dels -> (forall h, In h dels -> In h R) ->
    exists m', mm_modify HO m [] dels (GetLeafHashPositions HO m dels) proof = Some m' /\
               AInv (kill HO dels s) (filter (keep dels) R) m' /\
               ms_n m' = ms_n m /\ ms_total m' = ms_total m /\ ms_full m' = ms_full m.
  Proof.
    intros I Hnn Hnd Hsub. pose proof (MapMutAdd.Inv_consistent H HO HOK s R m I) as Hc.
    assert (Hpos : forall ds, (forall h, In h ds -> In h R) ->
              exists ts, map (@nhash H) ts = ds /\
                (forall x, In x ts -> In x (layout HO s) /\ nleaf x = true) /\
                GetLeafHashPositions HO m ds = map (npos (rows_of (num_leaves s))) ts).
    { induction ds as [|h ds IH]; intros Hs.
      - exists []. split; [reflexivity|]. split; [intros y []|reflexivity].
      - destruct (IH (fun h' Hh' => Hs h' (or_intror Hh'))) as (ts & Ets & Hts & Epos).
        pose proof (Hs h (or_introl eq_refl)) as Hh.
        destruct (cached_tracked H HO HOK s R m Hc h Hh) as (x & Hx & Ec).
        destruct (find_leaf_spec H HO HOK _ _ _ Hx) as (Hxl & Lx & Ex).
        exists (x :: ts). split; [cbn [map]; congruence|]. split.
        + intros y [<-|Hy]; [auto|exact (Hts y Hy)].
        + unfold GetLeafHashPositions in *. cbn [map]. rewrite Epos. f_equal.
          unfold GetLeafPosition. rewrite Ec. exact (translate_node H HO s R m Hc x Hxl). }
    destruct (Hpos dels Hsub) as (ts & Ets & Hts & Epos). rewrite Epos.
    apply (delete_leaves_AInv s R m ts dels _ proof I Hnn).
    - rewrite <- Ets in Hnd. exact (NoDup_map_inv _ _ Hnd).
    - intros x Hx. destruct (Hts x Hx) as [A B]. split; [exact A|]. split; [exact B|].
      apply Hsub. rewrite <- Ets. apply in_map, Hx.
    - intros h. rewrite <- Ets, in_map_iff. split; intros (x & A & B); exists x; auto.
    - apply Permutation_refl.
  Qed.
End DeleteAll.

(** * 11. A whole block: the deletions, then the additions *)
Section Block.
  Variable H : Type.
  Variable HO : ops H.
  Hypothesis HOK : ops_ok HO.
  Hypothesis Hh2 : forall x y, op_eqb HO (op_hash2 HO x y) (op_empty HO) = false.
  Notation AInv := (MapMutAdd.Inv H HO).
  Notation keep L := (fun h => negb (memH HO h L)).

  Lemma modify_split m adds dels targets proof m1 :
    mm_modify HO m [] dels targets proof = Some m1 ->
    mm_modify HO m adds dels targets proof = mm_modify HO m1 adds [] [] [].
  Proof.
    unfold mm_modify. destruct (MapMut.remove HO m dels targets) as [[nd ca]|]; [|discriminate].
    cbn [add_all]. intros [= <-]. unfold MapMut.remove. cbn [ms_n ms_total ms_nodes ms_cached ms_full forallb negb fold_left].
    change (sortN []) with (@nil N).
    replace (deTwin (if ms_total m =? TreeRows (ms_n m) then []
                     else translatePositions [] (TreeRows (ms_n m)) (ms_total m)) (ms_total m))
      with (@nil N) by (destruct (ms_total m =? TreeRows (ms_n m)); reflexivity).
    reflexivity.
  Qed.

  Theorem modify_block_AInv s R m xs adds dels targets proof : AInv s R m ->
    (forall h a b, In (Some h) s -> h <> op_hash2 HO a b) ->
    NoDup xs ->
    (forall x, In x xs -> In x (layout HO s) /\ nleaf x = true /\ In (nhash x) R) ->
    (forall h, In h dels <-> exists x, In x xs /\ nhash x = h) ->
    Permutation targets (map (npos (rows_of (num_leaves s))) xs) ->
    N.of_nat (length s) + N.of_nat (length adds) <= 2 ^ 63 ->
    adds_ok H HO (kill HO dels s) (filter (keep dels) R) (ms_full m) adds ->
    exists m', mm_modify HO m adds dels targets proof = Some m' /\
      AInv (apply_block HO s dels (map fst adds))
           (fold_left (Rnext H (ms_full m)) adds (filter (keep dels) R)) m' /\
      ms_total m <= ms_total m' /\ ms_full m' = ms_full m.
  Proof.
    intros I Hnn Hnd Hxs Hdels Hperm Hfit Hok.
    destruct (delete_leaves_AInv H HO HOK s R m xs dels targets proof I Hnn Hnd Hxs Hdels Hperm)
      as (m1 & E1 & I1 & En & ET & Ef).
    rewrite (modify_split m adds dels targets proof m1 E1).
    destruct (modify_adds_gen H HO HOK Hh2 adds (kill HO dels s) (filter (keep dels) R) m1 I1) as (m2 & E2 & I2 & HT2 & Ef2).
    - rewrite (length_kill H HO). exact Hfit.
    - rewrite Ef. exact Hok.
    - exists m2. split; [exact E2|]. rewrite Ef in I2. split; [exact I2|]. split; [lia|congruence].
  Qed.
  (** ... the targets as the map forest reports them *)
  Theorem modify_block_hashes_AInv s R m adds dels proof : AInv s R m ->
    (forall h a b, In (Some h) s -> h <> op_hash2 HO a b) ->
    NoDup dels -> (forall h, In h dels -> In h R) ->
    N.of_nat (length s) + N.of_nat (length adds) <= 2 ^ 63 ->
    adds_ok H HO (kill HO dels s) (filter (keep dels) R) (ms_full m) adds ->
    exists m', mm_modify HO m adds dels (GetLeafHashPositions HO m dels) proof = Some m' /\
      AInv (apply_block HO s dels (map fst adds))
           (fold_left (Rnext H (ms_full m)) adds (filter (keep dels) R)) m' /\
      ms_total m <= ms_total m' /\ ms_full m' = ms_full m.
  Proof.
    intros I Hnn Hnd Hsub Hfit Hok.
    destruct (delete_hashes_AInv H HO HOK s R m dels proof I Hnn Hnd Hsub) as (m1 & E1 & I1 & En & ET & Ef).
    rewrite (modify_split m adds dels _ proof m1 E1).
    destruct (modify_adds_gen H HO HOK Hh2 adds (kill HO dels s) (filter (keep dels) R) m1 I1) as (m2 & E2 & I2 & HT2 & Ef2).
    - rewrite (length_kill H HO). exact Hfit.
    - rewrite Ef. exact Hok.
    - exists m2. split; [exact E2|]. rewrite Ef in I2. split; [exact I2|]. split; [lia|congruence].
  Qed.
End Block.

From Utreexo Require Import Spec.Term.

(** Example: the partial forest of [MapMutAdd.mma_adds] (9 leaves, remembering 1, 4 and 9, started
    with 0 allocated rows, so that it was remapped); a block that deletes the leaves 4 and 1 (in
    this order of the hashes) and adds two leaves keeps [MapMutAdd.Inv]; what is stored afterwards
    is allowed. *)
Example mrt_ex :
  exists m1 m2,
    mm_modify term_ops (mkM [] [] 0 0 false) mma_adds [] [] [] = Some m1 /\
    mm_modify term_ops m1 [(Atom 10, true); (Atom 11, false)] [Atom 4; Atom 1]
              (GetLeafHashPositions term_ops m1 [Atom 4; Atom 1]) [] = Some m2 /\
    MapMutAdd.Inv term term_ops
      (apply_block term_ops (map Some (map fst mma_adds)) [Atom 4; Atom 1] [Atom 10; Atom 11])
      [Atom 9; Atom 10] m2 /\
    (forall p, In p (stored_min m2) ->
       exists al, allowed_pos term_ops
                    (apply_block term_ops (map Some (map fst mma_adds)) [Atom 4; Atom 1] [Atom 10; Atom 11])
                    [Atom 9; Atom 10] = Some al /\ In p al).
Proof.
  destruct (modify_adds_gen term term_ops term_ops_ok term_node_nonzero mma_adds [] []
              (mkM [] [] 0 0 false) (MapMutAdd.Inv_empty term term_ops 0 false ltac:(discriminate)))
    as (m1 & E1 & I1 & _ & F1).
  - cbn. discriminate.
  - apply (adds_okb_sound term term_ops term_ops_ok). vm_compute. reflexivity.
  - cbn [ms_full] in I1, F1.
    change (fold_left (Rnext term false) mma_adds []) with [Atom 1; Atom 4; Atom 9] in I1.
    change ([] ++ map Some (map fst mma_adds)) with (map Some (map fst mma_adds)) in I1.
    assert (Hnn : forall h a b, In (Some h) (map Some (map fst mma_adds)) -> h <> op_hash2 term_ops a b).
    { intros h a b Hin. cbn in Hin. repeat (destruct Hin as [E|Hin]; [injection E as <-; discriminate|]). destruct Hin. }
    destruct (modify_block_hashes_AInv term term_ops term_ops_ok term_node_nonzero
                (map Some (map fst mma_adds)) [Atom 1; Atom 4; Atom 9] m1
                [(Atom 10, true); (Atom 11, false)] [Atom 4; Atom 1] [] I1 Hnn)
      as (m2 & E2 & I2 & _ & F2).
    + repeat constructor; cbn; intuition discriminate.
    + intros h [<-|[<-|[]]]; cbn; auto.
    + cbn. discriminate.
    + rewrite F1. apply (adds_okb_sound term term_ops term_ops_ok). vm_compute. reflexivity.
    + rewrite F1 in I2, F2.
      change (fold_left (Rnext term false) [(Atom 10, true); (Atom 11, false)]
                (filter (fun h => negb (memH term_ops h [Atom 4; Atom 1])) [Atom 1; Atom 4; Atom 9]))
        with [Atom 9; Atom 10] in I2.
      exists m1, m2. split; [exact E1|]. split; [exact E2|]. split; [exact I2|].
      exact (Inv_stores_allowed term term_ops term_ops_ok _ _ _ I2 F2).
Qed.

(** every theorem is axiom-free *)
Print Assumptions delete_leaves_AInv_full.
Print Assumptions delete_leaves_AInv.
Print Assumptions delete_hashes_AInv.
Print Assumptions modify_block_AInv.
Print Assumptions modify_block_hashes_AInv.
Print Assumptions mrt_ex.
