(** Deletion blocks ([mm_modify HO m [] dels targets proof] = [remove]) preserve the ONE invariant
    [MapMutAdd.Inv] of Proofs/MapMutAdd.v / Proofs/MapMutUnify.v (tidiness of partial forests
    included), from the theorems of Proofs/MapMutRemove.v about [MapMutRemove.Inv].

    - Part 1: [MapMutAdd.Inv] does not say that the keys of the cached map are pairwise distinct
      ([MapMutRemove.Inv] does): [sim_modify] runs the block on the cache with the repeated keys
      dropped ([dedupc]) and on the cache itself in lock step ([ceq]: same answers; [dupok]: all
      bindings of a key agree).
    - Part 2: the bridges [AInv_RInv] and [RInv_AInv] ([known_path]: the inductive [known] of
      [MapMutAdd] = the ancestors of the remembered leaves inside their trees).
    - Part 3: [delete_leaves_bridge]: a deletion block preserves [MapMutAdd.Inv] provided the node
      map it leaves behind is tidy; [delete_leaves_AInv_full]: full forests.
    Side condition beyond those of [MapMutRemove.mm_modify_delete_leaves]: no live leaf is a
    [hash2] image (field [i_live_nn] of [MapMutRemove.Inv]; [MapMutAdd.Inv] has no such clause). *)
From Utreexo Require Import Base.Hash Model.Utils Model.UtilsFast Model.Verify Model.MapRead
  Model.MapMut Spec.Forest Spec.Oracle Spec.Geometry
  Proofs.UtilsGeom Proofs.UtilsGeom2 Proofs.SpecBasics Proofs.StumpAdd Proofs.LayoutStruct
  Proofs.ProofPosSpec Proofs.MapReadSpec Proofs.MapMutAdd Proofs.MapMutRemove.
From Utreexo Require Proofs.RefTheory.
From Coq Require Import List Arith PeanoNat NArith Lia ZifyNat ZifyN ZifyBool Sorted Permutation Bool.
Import ListNotations.
Open Scope N_scope.
Local Notation gpos := UtilsGeom.gpos.

(** * 1. [remove] on a cache with repeated keys *)
Section CacheSim.
  Variable H : Type.
  Variable HO : ops H.
  Hypothesis HOK : ops_ok HO.

  (** the cache with the repeated keys dropped (the first binding of a key wins) *)
  Fixpoint dedupc (l : cachemap H) : cachemap H :=
    match l with
    | [] => []
    | e :: t => e :: cached_del HO (fst e) (dedupc t)
    end.

  Lemma dedupc_get l h : cached_get HO (dedupc l) h = cached_get HO l h.
  Proof.
    induction l as [|[k p] l IH]; [reflexivity|]. cbn [dedupc fst cached_get].
    destruct (op_eqb HO k h) eqn:E; [reflexivity|]. rewrite (cg_del H HO HOK), IH.
    destruct (op_eqb HO h k) eqn:E'; [|reflexivity]. apply HOK in E'. subst k.
    rewrite (heqb_refl H HO HOK) in E. discriminate.
  Qed.

  Lemma dedupc_nodup l : NoDup (map fst (dedupc l)).
  Proof.
    induction l as [|[k p] l IH]; [constructor|]. cbn [dedupc fst map]. constructor.
    - intros Hin. apply in_map_iff in Hin as (e & Ee & He). unfold cached_del in He.
      apply filter_In in He as [_ Hb]. rewrite Ee, (heqb_refl H HO HOK) in Hb. discriminate.
    - apply (ckeys_del H HO), IH.
  Qed.

  (** two caches that answer alike; in the first one all bindings of a key agree *)
  Definition ceq (a b : cachemap H) : Prop := forall h, cached_get HO a h = cached_get HO b h.
  Definition dupok (a : cachemap H) : Prop := forall h p, In (h, p) a -> cached_get HO a h = Some p.
  Definition msim (st st' : maps H) : Prop :=
    fst st = fst st' /\ ceq (snd st) (snd st') /\ dupok (snd st).

  Lemma ceq_has a b h : ceq a b -> cached_has HO a h = cached_has HO b h.
  Proof. intros E. unfold cached_has. rewrite (E h). reflexivity. Qed.

  Lemma sim_del a b h : ceq a b -> dupok a ->
    ceq (cached_del HO h a) (cached_del HO h b) /\ dupok (cached_del HO h a).
  Proof.
    intros E D. split.
    - intros k. rewrite !(cg_del H HO HOK), (E k). reflexivity.
    - intros k p Hin. unfold cached_del in Hin. apply filter_In in Hin as [Hin Hb]. cbn [fst] in Hb.
      rewrite (cg_del H HO HOK). destruct (op_eqb HO k h); [discriminate|]. exact (D k p Hin).
  Qed.

  Lemma sim_put a b h p : ceq a b -> dupok a ->
    ceq (cached_put HO h p a) (cached_put HO h p b) /\ dupok (cached_put HO h p a).
  Proof.
    intros E D. split.
    - intros k. rewrite !(cg_put H HO HOK), (E k). reflexivity.
    - intros k q Hin. rewrite (cg_put H HO HOK). unfold cached_put in Hin. destruct Hin as [Ei|Hin].
      + injection Ei as <- <-. rewrite (heqb_refl H HO HOK). reflexivity.
      + unfold cached_del in Hin. apply filter_In in Hin as [Hin Hb]. cbn [fst] in Hb.
        destruct (op_eqb HO k h); [discriminate|]. exact (D k q Hin).
  Qed.

  Lemma sim_move a b h p : ceq a b -> dupok a ->
    ceq (cached_move HO h p a) (cached_move HO h p b) /\ dupok (cached_move HO h p a).
  Proof.
    intros E D. unfold cached_move. rewrite (ceq_has a b h E).
    destruct (cached_has HO b h); [apply sim_put; assumption|auto].
  Qed.

  Lemma sim_one T delp c (st st' : maps H) : msim st st' ->
    msim (fst (moveUp_one HO T delp c st)) (fst (moveUp_one HO T delp c st')) /\
    snd (moveUp_one HO T delp c st) = snd (moveUp_one HO T delp c st').
  Proof.
    destruct st as [nd ca], st' as [nd' ca']. intros (En & E & D). cbn [fst snd] in En, E, D. subst nd'.
    unfold moveUp_one. destruct (calcNextPosition c delp T) as [np|]; [|repeat split; assumption].
    cbn [fst snd]. destruct (nodes_get nd c) as [v|]; [|repeat split; assumption].
    cbn [fst snd]. destruct (sim_move ca ca' (fst v) np E D) as [E' D'].
    split; [|reflexivity]. split; [reflexivity|]. split; assumption.
  Qed.

  Lemma sim_row T delp ps : forall (st st' : maps H), msim st st' ->
    msim (fst (fst (moveUp_row HO T delp ps st))) (fst (fst (moveUp_row HO T delp ps st'))) /\
    snd (fst (moveUp_row HO T delp ps st)) = snd (fst (moveUp_row HO T delp ps st')) /\
    snd (moveUp_row HO T delp ps st) = snd (moveUp_row HO T delp ps st').
  Proof.
    induction ps as [|p ps IH]; intros st st' S; [cbn; auto|]. cbn [moveUp_row].
    destruct (DetectRow p T =? 0); [apply IH, S|].
    destruct (sim_one T delp (LeftChild p T) st st' S) as [S1 F1].
    destruct (moveUp_one HO T delp (LeftChild p T) st) as [st1 f1].
    destruct (moveUp_one HO T delp (LeftChild p T) st') as [st1' f1']. cbn [fst snd] in S1, F1. subst f1'.
    destruct f1; [|cbn; auto].
    destruct (sim_one T delp (RightChild p T) st1 st1' S1) as [S2 F2].
    destruct (moveUp_one HO T delp (RightChild p T) st1) as [st2 f2].
    destruct (moveUp_one HO T delp (RightChild p T) st1') as [st2' f2']. cbn [fst snd] in S2, F2. subst f2'.
    destruct f2; [|cbn; auto].
    destruct (IH st2 st2' S2) as (S3 & C3 & F3).
    destruct (moveUp_row HO T delp ps st2) as [[st3 cs] ok].
    destruct (moveUp_row HO T delp ps st2') as [[st3' cs'] ok']. cbn [fst snd] in *. subst. auto.
  Qed.

  Lemma sim_mud T delp : forall k ps (st st' : maps H), msim st st' ->
    msim (fst (mud_loop HO k T delp ps st)) (fst (mud_loop HO k T delp ps st')) /\
    snd (mud_loop HO k T delp ps st) = snd (mud_loop HO k T delp ps st').
  Proof.
    induction k as [|k IH]; intros ps st st' S; [cbn; auto|]. cbn [mud_loop].
    destruct (sim_row T delp ps st st' S) as (S1 & C1 & F1).
    destruct (moveUp_row HO T delp ps st) as [[st1 cs] ok].
    destruct (moveUp_row HO T delp ps st') as [[st1' cs'] ok']. cbn [fst snd] in *. subst.
    destruct ok'; [apply IH, S1|cbn; auto].
  Qed.

  Lemma sim_removeSingle n T full d (st st' : maps H) : msim st st' ->
    msim (removeSingle HO n T full d st) (removeSingle HO n T full d st').
  Proof.
    destruct st as [nd ca], st' as [nd' ca']. intros (En & E & D). cbn [fst snd] in En, E, D. subst nd'.
    unfold removeSingle. cbv zeta. cbn [fst snd].
    destruct (isRootPositionTotalRows d n T); [repeat split; assumption|].
    destruct (nodes_get (nodes_del d (forgetBelow T d nd)) (sibling d)) as [node|];
      [|repeat split; assumption].
    rewrite (ceq_has _ _ (fst node) E).
    destruct (cached_has HO ca' (fst node)) eqn:Eh.
    - destruct (calcNextPosition (sibling d) d T) as [np|]; [|repeat split; assumption].
      destruct (sim_put ca ca' (fst node) np E D) as [E' D'].
      unfold moveUpDescendants. destruct (DetectRow (sibling d) T =? 0); [repeat split; assumption|].
      match goal with |- msim (let (_, _) := mud_loop HO ?k T d ?ps ?s1 in _) (let (_, _) := mud_loop HO _ _ _ _ ?s2 in _) =>
        destruct (sim_mud T d k ps s1 s2) as [S3 F3]; [repeat split; assumption|];
        destruct (mud_loop HO k T d ps s1) as [st3 f3]; destruct (mud_loop HO k T d ps s2) as [st3' f3'] end.
      cbn [fst snd] in S3, F3. subst f3'.
      destruct st3 as [nd3 ca3], st3' as [nd3' ca3']. destruct f3; [|exact S3].
      destruct S3 as (En3 & E3 & D3). cbn [fst snd] in *.
      subst nd3'. repeat split; assumption.
    - unfold moveUpDescendants. destruct (DetectRow (sibling d) T =? 0); [repeat split; assumption|].
      match goal with |- msim (let (_, _) := mud_loop HO ?k T d ?ps ?s1 in _) (let (_, _) := mud_loop HO _ _ _ _ ?s2 in _) =>
        destruct (sim_mud T d k ps s1 s2) as [S3 F3]; [repeat split; assumption|];
        destruct (mud_loop HO k T d ps s1) as [st3 f3]; destruct (mud_loop HO k T d ps s2) as [st3' f3'] end.
      cbn [fst snd] in S3, F3. subst f3'.
      destruct st3 as [nd3 ca3], st3' as [nd3' ca3']. destruct f3; [|exact S3].
      destruct S3 as (En3 & E3 & D3). cbn [fst snd] in *.
      subst nd3'. repeat split; assumption.
  Qed.

  Lemma sim_fold n T full ds : forall (st st' : maps H), msim st st' ->
    msim (fold_left (fun st d => removeSingle HO n T full d st) ds st)
         (fold_left (fun st d => removeSingle HO n T full d st) ds st').
  Proof. induction ds as [|d ds IH]; intros st st' S; [exact S|]. cbn [fold_left]. apply IH, sim_removeSingle, S. Qed.

  Lemma sim_uncache dels : forall a b, ceq a b -> dupok a ->
    ceq (fold_left (fun c h => cached_del HO h c) dels a) (fold_left (fun c h => cached_del HO h c) dels b) /\
    dupok (fold_left (fun c h => cached_del HO h c) dels a).
  Proof.
    induction dels as [|h dels IH]; intros a b E D; [auto|]. cbn [fold_left].
    destruct (sim_del a b h E D) as [E' D']. exact (IH _ _ E' D').
  Qed.

  (** a block without additions on the two states *)
  Theorem sim_modify nd ca ca' n T full dels targets proof m' :
    ceq ca ca' -> dupok ca ->
    mm_modify HO (mkM nd ca' n T full) [] dels targets proof = Some m' ->
    exists ca1, mm_modify HO (mkM nd ca n T full) [] dels targets proof =
                  Some (mkM (ms_nodes m') ca1 (ms_n m') (ms_total m') (ms_full m')) /\
                ceq ca1 (ms_cached m') /\ dupok ca1.
  Proof.
    intros E D. unfold mm_modify, MapMut.remove. cbn [ms_n ms_total ms_nodes ms_cached ms_full].
    assert (Ef : forallb (cached_has HO ca) dels = forallb (cached_has HO ca') dels).
    { induction dels as [|h t IHd]; [reflexivity|]. cbn [forallb]. rewrite (ceq_has ca ca' h E), IHd. reflexivity. }
    rewrite Ef. destruct (forallb (cached_has HO ca') dels); cbn [negb]; [|discriminate].
    destruct (sim_uncache dels ca ca' E D) as [E1 D1].
    set (ds := deTwin (if T =? TreeRows n then sortN targets
                       else translatePositions (sortN targets) (TreeRows n) T) T).
    pose proof (sim_fold n T full ds (nd, fold_left (fun c h => cached_del HO h c) dels ca)
                  (nd, fold_left (fun c h => cached_del HO h c) dels ca')
                  (conj eq_refl (conj E1 D1))) as S.
    destruct (fold_left (fun st d => removeSingle HO n T full d st) ds
                (nd, fold_left (fun c h => cached_del HO h c) dels ca)) as [nd1 ca1].
    destruct (fold_left (fun st d => removeSingle HO n T full d st) ds
                (nd, fold_left (fun c h => cached_del HO h c) dels ca')) as [nd1' ca1'].
    destruct S as (En & E2 & D2). cbn [fst snd] in En, E2, D2. subst nd1'.
    cbn [add_all]. intros [= <-]. cbn [ms_n ms_total ms_nodes ms_cached ms_full].
    exists ca1. auto.
  Qed.
End CacheSim.

(** * 2. The two invariants *)
Section Bridge.
  Variable H : Type.
  Variable HO : ops H.
  Hypothesis HOK : ops_ok HO.
  Notation AInv := (MapMutAdd.Inv H HO).
  Notation RInv := (MapMutRemove.Inv HO).
  Notation kn s R := (known (Vlay HO s) (RTlay HO s) R).

  (** the known coordinates are the ancestors of the remembered leaves inside their trees *)
  Lemma known_path s R r o : N.of_nat (length s) <= 2 ^ 63 ->
    (kn s R r o <->
     exists x (k : nat), In x (layout HO s) /\ nleaf x = true /\ In (nhash x) R /\
       r = (nrow x + k)%nat /\ o = noff x / 2 ^ N.of_nat k /\ (nrow x + k <= ntree x)%nat).
  Proof.
    intros Hn63. assert (HT : TreeRows (N.of_nat (length s)) <= 63) by exact (TreeRows_le_63 _ Hn63).
    split.
    - intros Hk. induction Hk as [r o h (x & Hx & <- & <- & Eh & El) Hh|r o _ IH Hn].
      + exists x, 0%nat. rewrite Nat.add_0_r, N.pow_0_r, N.div_1_r. rewrite <- Eh in Hh.
        pose proof (node_row_le_tree H HO s x Hx). auto 10.
      + destruct IH as (x & k & Hx & Lx & Hh & -> & -> & Hle).
        destruct (ng_ancestor H HO s _ Hn63 (N.le_refl _) HT x Hx k Hle) as (y & Hy & Ey & Ety & _).
        destruct (coord_eq _ _ _ Ey) as [Er Eo].
        assert (Hnr : nroot y = false).
        { destruct (nroot y) eqn:E; [|reflexivity]. exfalso. apply Hn. exists y. auto. }
        apply (nonroot_iff_row H HO s Hn63 y Hy) in Hnr.
        exists x, (S k). repeat split; try assumption; try lia.
        rewrite Nat2N.inj_succ, <- N.add_1_r, N.pow_add_r, N.pow_1_r.
        rewrite N.div_div by (try apply pow2_nz; lia). reflexivity.
    - intros (x & k & Hx & Lx & Hh & -> & -> & Hle). induction k as [|k IH].
      + rewrite Nat.add_0_r, N.pow_0_r, N.div_1_r. apply (kn_leaf _ _ _ _ _ (nhash x)); [|exact Hh].
        exists x. auto.
      + replace (nrow x + S k)%nat with (S (nrow x + k)) by lia.
        replace (noff x / 2 ^ N.of_nat (S k)) with (noff x / 2 ^ N.of_nat k / 2).
        2:{ rewrite Nat2N.inj_succ, <- N.add_1_r, N.pow_add_r, N.pow_1_r.
            rewrite N.div_div by (try apply pow2_nz; lia). reflexivity. }
        apply kn_up; [apply IH; lia|].
        intros (y' & Hy' & Ry' & Er' & Eo').
        destruct (ng_ancestor H HO s _ Hn63 (N.le_refl _) HT x Hx k ltac:(lia)) as (y & Hy & Ey & Ety & _).
        destruct (coord_eq _ _ _ Ey) as [Er Eo].
        assert (y' = y) by (apply (ng_coord_eq H HO s y' y Hy' Hy); unfold coord; congruence). subst y'.
        apply (root_iff_row H HO s y Hy) in Ry'. lia.
  Qed.

  Lemma AInv_n63 s R m : AInv s R m -> N.of_nat (length s) <= 2 ^ 63.
  Proof. intros I. pose proof (inv_n H HO s R m I) as E. pose proof (inv_n63 H HO s R m I). unfold num_leaves in E. lia. Qed.

  (** from the invariant of [MapMutAdd] (the cache may repeat keys) *)
  Theorem AInv_RInv s R nd ca n T full :
    (forall h a b, In (Some h) s -> h <> op_hash2 HO a b) ->
    AInv s R (mkM nd ca n T full) -> RInv s R (mkM nd (dedupc H HO ca) n T full).
  Proof.
    intros Hnn I. pose proof (AInv_n63 _ _ _ I) as Hn63.
    pose proof (inv_g H HO _ _ _ I) as G. cbn [ms_total ms_nodes ms_cached] in G.
    pose proof (inv_nodup H HO _ _ _ I) as Hnd.
    assert (Hpos : forall h p, In (h, p) ca -> exists x, In x (layout HO s) /\ nleaf x = true /\
                     nhash x = h /\ p = gp T (nrow x) (noff x)).
    { intros h p Hin. destruct (g_cpos G _ _ Hin) as (r & o & (x & Hx & <- & <- & Eh & El) & ->).
      exists x. auto. }
    constructor; cbn [ms_n ms_total ms_nodes ms_cached].
    - exact (inv_n H HO _ _ _ I).
    - exact (inv_n63 H HO _ _ _ I).
    - exact (inv_rows H HO _ _ _ I).
    - exact (inv_T63 H HO _ _ _ I).
    - exact Hnd.
    - exact Hnn.
    - intros h Hin E. pose proof (inv_live H HO _ _ _ I h Hin) as Hne. unfold nonemp in Hne.
      rewrite E, (heqb_refl H HO HOK) in Hne. discriminate.
    - exact (g_nodup G).
    - apply dedupc_nodup, HOK.
    - intros p h b E. apply (nodes_get_In H) in E.
      destruct (g_true G _ _ _ E) as (r & o & l & -> & (x & Hx & <- & <- & Eh & _)). exists x. auto.
    - intros h Hh. destruct (g_Rin G _ Hh) as (r & o & (x & Hx & _ & _ & <- & Lx)).
      exact (layout_leaf_live H HO s x Hx Lx).
    - auto.
    - intros h p. rewrite (dedupc_get H HO HOK). split.
      + intros E. apply (cached_get_In H HO HOK) in E. split.
        * apply (g_cR G). apply in_map_iff. exists (h, p). auto.
        * destruct (Hpos h p E) as (x & A & B & C & D). exists x. auto.
      + intros (Hh & x & Hx & Lx & Ex & ->). apply (g_cR G) in Hh.
        destruct (cached_get_some_of_key H HO HOK _ _ Hh) as [p' Ep]. rewrite Ep. f_equal.
        destruct (Hpos h p' (cached_get_In H HO HOK _ _ _ Ep)) as (x' & Hx' & Lx' & Ex' & ->).
        rewrite (live_leaf_unique H HO s x x' Hnd Hx Hx' Lx Lx' ltac:(congruence)). reflexivity.
    - intros x Hx Rx. apply (g_roots G). exists x. auto.
    - intros x Hx Lx Hh. apply (g_tgt G); [|exact Hh]. exists x. auto.
    - intros x Hx Lx Hh k Hk. apply (g_sibs G).
      + apply (known_path s R _ _ Hn63). exists x, k. repeat split; try assumption. lia.
      + intros (y' & Hy' & Ry' & Er' & Eo').
        destruct (ng_ancestor H HO s _ Hn63 (N.le_refl _) (TreeRows_le_63 _ Hn63) x Hx k ltac:(lia))
          as (y & Hy & Ey & Ety & _).
        destruct (coord_eq _ _ _ Ey) as [Er Eo].
        assert (y' = y) by (apply (ng_coord_eq H HO s y' y Hy' Hy); unfold coord; congruence). subst y'.
        apply (root_iff_row H HO s y Hy) in Ry'. lia.
  Qed.

  (** ... and back *)
  Theorem RInv_AInv s R nd ca ca' n T full :
    RInv s R (mkM nd ca' n T full) -> ceq H HO ca ca' -> dupok H HO ca ->
    (full = false -> Tidy (Vlay HO s) (RTlay HO s) R T nd) ->
    AInv s R (mkM nd ca n T full).
  Proof.
    intros I E D Ht. pose proof (pi_n63 H HO s R R _ I) as Hn63.
    constructor; cbn [ms_n ms_total ms_nodes ms_cached ms_full].
    - exact (i_n I).
    - exact (i_n63 I).
    - exact (i_rows I).
    - exact (i_T63 I).
    - exact (i_live_nd I).
    - intros h Hin. unfold nonemp. apply (heqb_neq H HO HOK). exact (i_live_nz I h Hin).
    - constructor.
      + exact (i_keys I).
      + intros p h b Hin. apply (rg_in_get H _ _ _ (i_keys I)) in Hin.
        destruct (i_true I _ _ _ Hin) as (x & Hx & -> & Eh). exists (nrow x), (noff x), (nleaf x).
        split; [reflexivity|]. exists x. auto.
      + intros h. split.
        * intros Hh. destruct (live_leaf_in_layout H HO s h (i_Rn I h Hh)) as (x & Hx & Lx & Ex).
          assert (Ec : cached_get HO ca' h = Some (gp T (nrow x) (noff x))).
          { apply (i_cached I). split; [exact Hh|]. exists x. auto. }
          rewrite <- (E h) in Ec. apply (cached_get_In H HO HOK) in Ec.
          apply in_map_iff. exists (h, gp T (nrow x) (noff x)). auto.
        * intros Hin. apply in_map_iff in Hin as ([h' p] & Eh & Hin). cbn [fst] in Eh. subst h'.
          pose proof (D h p Hin) as Ec. rewrite (E h) in Ec. apply (i_cached I) in Ec. apply Ec.
      + intros h p Hin. pose proof (D h p Hin) as Ec. rewrite (E h) in Ec.
        apply (i_cached I) in Ec as (_ & x & Hx & Lx & Ex & ->). exists (nrow x), (noff x).
        split; [exists x; auto|reflexivity].
      + intros h Hh. destruct (live_leaf_in_layout H HO s h (i_Rn I h Hh)) as (x & Hx & Lx & Ex).
        exists (nrow x), (noff x), x. auto.
      + intros r o (x & Hx & Rx & <- & <-). exact (i_roots I x Hx Rx).
      + intros r o h (x & Hx & <- & <- & Eh & Lx) Hh. rewrite <- Eh in *. exact (i_leaf I x Hx Lx Hh).
      + intros r o Hk Hn. apply (known_path s R _ _ Hn63) in Hk as (x & k & Hx & Lx & Hh & -> & -> & Hle).
        apply (i_sibs I x Hx Lx Hh k).
        destruct (Nat.eq_dec (nrow x + k) (ntree x)) as [Eq|]; [|lia]. exfalso. apply Hn.
        destruct (ng_ancestor H HO s _ Hn63 (N.le_refl _) (TreeRows_le_63 _ Hn63) x Hx k Hle)
          as (y & Hy & Ey & Ety & _).
        destruct (coord_eq _ _ _ Ey) as [Er Eo]. exists y. split; [exact Hy|]. split; [|auto].
        apply (root_iff_row H HO s y Hy). lia.
    - exact Ht.
  Qed.
End Bridge.

(** * 3. Deletion blocks keep the invariant of [MapMutAdd]: full forests *)
Section DeleteAInv.
  Variable H : Type.
  Variable HO : ops H.
  Hypothesis HOK : ops_ok HO.
  Notation AInv := (MapMutAdd.Inv H HO).
  Notation keep L := (fun h => negb (memH HO h L)).

  Lemma mm_modify_fields m dels targets proof m' :
    mm_modify HO m [] dels targets proof = Some m' ->
    ms_n m' = ms_n m /\ ms_total m' = ms_total m /\ ms_full m' = ms_full m.
  Proof.
    unfold mm_modify. destruct (MapMut.remove HO m dels targets) as [[nd ca]|]; [|discriminate].
    cbn [add_all]. intros [= <-]. auto.
  Qed.

  (** the deletion block, given that the node map it leaves behind is tidy *)
  Theorem delete_leaves_bridge s R m xs dels targets proof : AInv s R m ->
    (forall h a b, In (Some h) s -> h <> op_hash2 HO a b) ->
    NoDup xs ->
    (forall x, In x xs -> In x (layout HO s) /\ nleaf x = true /\ In (nhash x) R) ->
    (forall h, In h dels <-> exists x, In x xs /\ nhash x = h) ->
    Permutation targets (map (npos (rows_of (num_leaves s))) xs) ->
    (ms_full m = false -> forall m', mm_modify HO m [] dels targets proof = Some m' ->
       Tidy (Vlay HO (kill HO dels s)) (RTlay HO (kill HO dels s)) (filter (keep dels) R)
            (ms_total m') (ms_nodes m')) ->
    exists m', mm_modify HO m [] dels targets proof = Some m' /\
               AInv (kill HO dels s) (filter (keep dels) R) m' /\
               ms_n m' = ms_n m /\ ms_total m' = ms_total m /\ ms_full m' = ms_full m.
  Proof.
    intros I Hnn Hnd Hxs Hdels Hperm Htidy. destruct m as [nd ca n T full].
    pose proof (AInv_RInv H HO HOK s R nd ca n T full Hnn I) as IR.
    destruct (mm_modify_delete_leaves H HO HOK s R _ xs dels targets proof IR Hnd Hxs Hdels Hperm)
      as (m0 & E0 & I0).
    assert (Ece : ceq H HO ca (dedupc H HO ca)) by (intros h; symmetry; apply dedupc_get, HOK).
    assert (Dca : dupok H HO ca).
    { intros h p Hin. pose proof (inv_g H HO _ _ _ I) as G. cbn [ms_total ms_nodes ms_cached] in G.
      assert (Hk : In h (map fst ca)) by (apply in_map_iff; exists (h, p); auto).
      destruct (cached_get_some_of_key H HO HOK _ _ Hk) as [p' Ep]. rewrite Ep. f_equal.
      destruct (g_cpos G _ _ Hin) as (r & o & (x & Hx & <- & <- & Eh & Lx) & ->).
      destruct (g_cpos G _ _ (cached_get_In H HO HOK _ _ _ Ep)) as (r' & o' & (x' & Hx' & <- & <- & Eh' & Lx') & ->).
      rewrite (live_leaf_unique H HO s x x' (inv_nodup H HO _ _ _ I) Hx Hx' Lx Lx' ltac:(congruence)).
      reflexivity. }
    destruct (sim_modify H HO HOK nd ca (dedupc H HO ca) n T full dels targets proof m0 Ece Dca E0)
      as (ca1 & E1 & Ec1 & Dc1).
    destruct (mm_modify_fields _ _ _ _ _ E0) as (Fn & FT & Ff). cbn [ms_n ms_total ms_full] in Fn, FT, Ff.
    destruct m0 as [nd0 ca0 n0 T0 full0]. cbn [ms_n ms_total ms_nodes ms_cached ms_full] in *. subst n0 T0 full0.
    exists (mkM nd0 ca1 n T full). split; [exact E1|]. split; [|auto].
    apply (RInv_AInv H HO HOK _ _ nd0 ca1 ca0 n T full I0 Ec1 Dc1).
    intros Hf. exact (Htidy Hf _ E1).
  Qed.

  (** ** full forests *)
  Theorem delete_leaves_AInv_full s R m xs dels targets proof : AInv s R m -> ms_full m = true ->
    (forall h a b, In (Some h) s -> h <> op_hash2 HO a b) ->
    NoDup xs ->
    (forall x, In x xs -> In x (layout HO s) /\ nleaf x = true /\ In (nhash x) R) ->
    (forall h, In h dels <-> exists x, In x xs /\ nhash x = h) ->
    Permutation targets (map (npos (rows_of (num_leaves s))) xs) ->
    exists m', mm_modify HO m [] dels targets proof = Some m' /\
               AInv (kill HO dels s) (filter (keep dels) R) m' /\
               ms_n m' = ms_n m /\ ms_total m' = ms_total m /\ ms_full m' = ms_full m.
  Proof.
    intros I Hfull Hnn Hnd Hxs Hdels Hperm.
    apply (delete_leaves_bridge s R m xs dels targets proof I Hnn Hnd Hxs Hdels Hperm).
    intros Hf. congruence.
  Qed.
End DeleteAInv.
Print Assumptions delete_leaves_AInv_full.
