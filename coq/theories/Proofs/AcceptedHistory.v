(** C05 over whole histories, for ANY accepted encoding: whatever (hashes, targets, proof) the
    repaired roots-only verifier accepts at each block - targets in any order, unused trailing proof
    hashes - as long as the claimed positions are leaf positions, the stump follows the reference
    forest block after block.  Free hash algebra; leaves are atoms. *)
From Utreexo Require Import Spec.Forest Spec.Oracle Spec.Term Model.Verify Proofs.SpecBasics
     Proofs.CalcSound Proofs.Soundness Proofs.StumpUpdate Proofs.AcceptedBlock.
From Coq Require Import Lia.
Open Scope N_scope.

(** a block as the verifier sees it: deleted hashes, claimed positions, proof hashes, additions *)
Definition ablock : Type := (list term * list N * list term * list term)%type.

Fixpoint run_any (filler : term) (st : stump term) (s : slots term) (bs : list ablock)
  : option (stump term * slots term) :=
  match bs with
  | [] => Some (st, s)
  | (hs, ts, pf, adds) :: rest =>
      match stump_update term_ops true filler st hs adds ts pf with
      | (st', Ok _) => run_any filler st' (apply_block term_ops s hs adds) rest
      | _ => None
      end
  end.

(** what the property asks of a block in state [s]: the claimed positions are positions of leaves;
    the additions are fresh, pairwise distinct leaf hashes (atoms) *)
Definition ablock_ok (s : slots term) (b : ablock) : Prop :=
  let '(hs, ts, pf, adds) := b in
  (forall t, In t ts ->
     exists x, find_pos (crows (mk_ctx term_ops s)) (clay (mk_ctx term_ops s)) t = Some x /\
               nleaf x = true) /\
  NoDup adds /\ (forall a, In a adds -> (exists i, a = Atom i) /\ ~ In (Some a) s).
Fixpoint ahist_ok (s : slots term) (bs : list ablock) : Prop :=
  match bs with
  | [] => True
  | b :: rest => let '(hs, ts, pf, adds) := b in
                 ablock_ok s b /\ ahist_ok (apply_block term_ops s hs adds) rest
  end.
Fixpoint atotal_adds (bs : list ablock) : nat :=
  match bs with [] => 0%nat | (_, _, _, adds) :: rest => (length adds + atotal_adds rest)%nat end.

Theorem accepted_history_refines filler :
  forall bs s stf sf,
    leaves_atoms s -> NoDup (live s) -> N.of_nat (length s + atotal_adds bs) <= 2 ^ 63 ->
    ahist_ok s bs ->
    run_any filler (stump_of term term_ops s) s bs = Some (stf, sf) ->
    stf = stump_of term term_ops sf.
Proof.
  induction bs as [|[[[hs ts] pf] adds] bs IH]; intros s stf sf Hat Hnd Hb Hok E.
  - cbn [run_any] in E. injection E as <- <-. reflexivity.
  - cbn [ahist_ok] in Hok. destruct Hok as [(Hleaf & Ha1 & Ha2) Hok].
    cbn [atotal_adds] in Hb. cbn [run_any] in E.
    destruct (stump_update term_ops true filler (stump_of term term_ops s) hs adds ts pf)
      as [st' [ud| | |]] eqn:Eu; try discriminate E.
    assert (Hnz : forall h, In h adds -> NZ term_ops h).
    { intros h Hh. destruct (proj1 (Ha2 h Hh)) as [i ->]. reflexivity. }
    destruct (stump_update_accepted_refines filler s hs adds ts pf st' ud Hat Hnd ltac:(lia) Hnz Hleaf Eu)
      as (Er & En & _).
    destruct st' as [r n]. cbn [st_roots st_n] in Er, En. subst r n.
    apply (IH (apply_block term_ops s hs adds) stf sf); try assumption.
    + intros h Hh. unfold apply_block in Hh. apply in_app_or in Hh as [Hh|Hh].
      * apply Hat. eapply kill_live_sub; exact Hh.
      * apply in_map_iff in Hh as (a & [= <-] & Ha). exact (proj1 (Ha2 a Ha)).
    + unfold apply_block. rewrite live_app, live_map_some.
      apply NoDup_app_intro'; [apply live_kill_NoDup; exact Hnd|exact Ha1|].
      intros x Hx Hxa. apply live_In in Hx. apply (proj2 (Ha2 x Hxa)).
      eapply kill_live_sub; exact Hx.
    + unfold apply_block. rewrite app_length, length_kill, map_length. lia.
Qed.

(** from the empty accumulator *)
Theorem accepted_history_refines_empty filler bs stf sf :
  N.of_nat (atotal_adds bs) <= 2 ^ 63 -> ahist_ok [] bs ->
  run_any filler (mkStump [] 0) [] bs = Some (stf, sf) ->
  st_roots stf = roots term_ops sf /\ st_n stf = num_leaves sf.
Proof.
  intros Hb Hok E.
  assert (E0 : mkStump [] 0 = stump_of term term_ops []) by (vm_compute; reflexivity).
  rewrite E0 in E.
  rewrite (accepted_history_refines filler bs [] stf sf); [split; reflexivity| | | | |exact E];
    [intros h []|constructor|exact Hb|exact Hok].
Qed.
Print Assumptions accepted_history_refines_empty.
