(** Additions on the map forest: [mm_modify HO m adds [] [] []] (mirror of [MapPollard.Modify]
    without deletions: [add] = [addSingle] for every added leaf, [remap] when the forest outgrows
    the allocated rows) PRESERVES the tie between the map state and the reference forest.

    Main results (Part 5; all axiom-free, for every [H], [HO] with [ops_ok HO] and
    [op_hash2] never the empty hash):
    - [Inv s R m]: the strengthened invariant; [Inv_consistent : Inv s R m -> consistent HO s R m],
      [Inv_flag] (a remembered leaf carries the flag), [Inv_empty];
    - G1 [addSingle_Inv]: one addition that fits into [ms_total] rows (full and partial forests;
      empty roots are written over: [moveUpDescendants]; [pruneNieces]);
    - G2 [add_all_Inv], [modify_adds_Inv]: any list of additions, no [remap];
    - G3 [remap_Inv], [addSingle_gen], [add_all_gen], [modify_adds_gen]: with [remap];
    - G4 [Inv_stores_allowed]: a partial forest in [Inv] stores only positions of the
      reference's [allowed_pos] (the field [inv_tidy] of [Inv] is preserved by all of the above).
    Side conditions: the added hashes are fresh and not the empty hash; the leaf count stays
    [<= 2^63]; [leaf_sep]: no inner node of the new forest has the hash of a remembered leaf
    (the cached positions are keyed by hash; [mmc_collision] shows that it is necessary).

    - Part 0: association lists; a sequence of moves ([apply_moves_spec]); [moveUpDescendants] is
      such a sequence ([moveUpDescendants_eq]).
    - Part 1: the invariant in abstract form: [GInv V RT R T nd ca] ties the two maps to a
      VIEW of a forest: [V r o h l] = "coordinate [(r, o)] holds a node with hash [h], leaf flag
      [l]", [RT r o] = "[(r, o)] is a root".  [prunePosition] preserves it; for the view of the
      layout of a slot list it implies [consistent] of Proofs/MapReadSpec.v.
    - Part 3: the reference forest of [s ++ [Some a]]: the views [Vent (Fh h)] met by the loop of
      [addSingle] (the trees of [s] of rows [>= h] and the climbing tree [cl h] of row [h]);
      [forest_snoc_Fh]; one step on the views (case A: a non-empty root is joined; case B: an
      empty root is written over, the climbing tree moves up one row).
    - Part 4: the steps on the abstract invariant ([put_leaf], [put_node], [stepB_GInv], and
      their [Tidy] versions, [prune_tidy]); the loop [as_loop_ok]; [remap].
    - Part 5: [addSingle], [add_all], [mm_modify].  Part 6: decision procedure, examples. *)
From Utreexo Require Import Base.Hash Model.Utils Model.UtilsFast Model.Verify Model.MapRead
  Model.MapMut Spec.Forest Proofs.UtilsGeom Proofs.UtilsGeom2 Proofs.SpecBasics Proofs.StumpAdd
  Proofs.LayoutStruct Proofs.ProofPosSpec Proofs.MapReadSpec.
From Utreexo Require Proofs.RefTheory Proofs.StumpAddData.
From Coq Require Import List Arith PeanoNat NArith Lia ZifyNat ZifyN ZifyBool.
Import ListNotations.
Open Scope N_scope.

Local Notation gpos := UtilsGeom.gpos.

(** * Part 0: association lists *)
Section Assoc.
  Variable H : Type.
  Variable HO : ops H.
  Hypothesis HOK : ops_ok HO.
  Notation nodemap := (list (N * (H * bool))).
  Notation cachemap := (list (H * N)).

  Lemma In_nodes_del p q w (l : nodemap) : In (q, w) (nodes_del p l) <-> q <> p /\ In (q, w) l.
  Proof.
    unfold nodes_del. rewrite filter_In. cbn [fst].
    destruct (N.eqb_spec q p) as [E|E]; cbn [negb]; intuition congruence.
  Qed.

  Lemma In_nodes_put p v q w (l : nodemap) :
    In (q, w) (nodes_put p v l) <-> (q = p /\ w = v) \/ (q <> p /\ In (q, w) l).
  Proof.
    unfold nodes_put. cbn [In]. rewrite In_nodes_del. split.
    - intros [E|E]; [left; split; congruence|right; exact E].
    - intros [[-> ->]|E]; [left; reflexivity|right; exact E].
  Qed.

  Lemma nodes_get_del p q (l : nodemap) :
    nodes_get (nodes_del p l) q = if q =? p then None else nodes_get l q.
  Proof.
    induction l as [|[k w] l IH]; cbn [nodes_del filter nodes_get fst].
    - destruct (q =? p); reflexivity.
    - fold (nodes_del p l). destruct (N.eqb_spec k p) as [->|Hk]; cbn [negb nodes_get].
      + rewrite IH. destruct (N.eqb_spec q p) as [->|Hq]; [reflexivity|].
        destruct (N.eqb_spec p q) as [E|_]; [congruence|reflexivity].
      + rewrite IH. destruct (N.eqb_spec k q) as [->|Hkq]; [|reflexivity].
        destruct (N.eqb_spec q p) as [E|_]; [congruence|reflexivity].
  Qed.

  Lemma nodes_get_put p v q (l : nodemap) :
    nodes_get (nodes_put p v l) q = if q =? p then Some v else nodes_get l q.
  Proof.
    unfold nodes_put. cbn [nodes_get]. rewrite nodes_get_del, (N.eqb_sym p q).
    destruct (q =? p); reflexivity.
  Qed.

  Lemma keys_nodes_del p (l : nodemap) q : In q (map fst (nodes_del p l)) <-> q <> p /\ In q (map fst l).
  Proof.
    rewrite !in_map_iff. split.
    - intros ([k w] & <- & Hin). apply In_nodes_del in Hin as [A B]. split; [exact A|].
      exists (k, w). auto.
    - intros (Hne & [k w] & <- & Hin). exists (k, w). split; [reflexivity|].
      apply In_nodes_del. auto.
  Qed.

  Lemma NoDup_nodes_del p (l : nodemap) : NoDup (map fst l) -> NoDup (map fst (nodes_del p l)).
  Proof.
    induction l as [|[k w] l IH]; intros Hnd; cbn [nodes_del filter map fst]; [constructor|].
    inversion Hnd as [|x y Hnin Hnd']; subst. fold (nodes_del p l).
    destruct (negb (k =? p)); [|exact (IH Hnd')].
    cbn [map fst]. constructor; [|exact (IH Hnd')].
    intros Hin. apply keys_nodes_del in Hin as [_ Hin]. exact (Hnin Hin).
  Qed.

  Lemma NoDup_nodes_put p v (l : nodemap) : NoDup (map fst l) -> NoDup (map fst (nodes_put p v l)).
  Proof.
    intros Hnd. unfold nodes_put. cbn [map fst]. constructor; [|apply NoDup_nodes_del, Hnd].
    intros Hin. apply keys_nodes_del in Hin as [C _]. congruence.
  Qed.

  Lemma nodes_get_In_iff (l : nodemap) p v : NoDup (map fst l) ->
    (In (p, v) l <-> nodes_get l p = Some v).
  Proof.
    intros Hnd. split; [|apply nodes_get_In].
    induction l as [|[k w] l IH]; [intros []|]. cbn [map fst] in Hnd.
    inversion Hnd as [|x y Hnin Hnd']; subst. intros [E|Hin]; cbn [nodes_get].
    - injection E as -> ->. rewrite N.eqb_refl. reflexivity.
    - destruct (N.eqb_spec k p) as [->|_]; [|exact (IH Hnd' Hin)].
      exfalso. apply Hnin. apply in_map_iff. exists (p, v). auto.
  Qed.

  Lemma In_nodes_get p w (l : nodemap) : In (p, w) l -> nodes_get l p <> None.
  Proof.
    intros Hin E. apply (nodes_get_None H _ _ E). apply in_map_iff. exists (p, w). auto.
  Qed.

  Lemma nodes_has_true (l : nodemap) p : nodes_has l p = true <-> nodes_get l p <> None.
  Proof. unfold nodes_has. destruct (nodes_get l p); split; congruence. Qed.

  Lemma Heqb_refl a : op_eqb HO a a = true.
  Proof. apply HOK. reflexivity. Qed.
  Lemma Heqb_neq a b : a <> b -> op_eqb HO a b = false.
  Proof. intros Hne. destruct (op_eqb HO a b) eqn:E; [apply HOK in E; contradiction|reflexivity]. Qed.

  Lemma In_cached_del h k p (l : cachemap) :
    In (k, p) (cached_del HO h l) <-> k <> h /\ In (k, p) l.
  Proof.
    unfold cached_del. rewrite filter_In. cbn [fst].
    destruct (op_eqb HO k h) eqn:E; cbn [negb].
    - apply HOK in E. intuition congruence.
    - split; [intros [A _]; split; [intros ->; rewrite Heqb_refl in E; discriminate|exact A]|].
      intros [_ A]. auto.
  Qed.

  Lemma In_cached_put h p k q (l : cachemap) :
    In (k, q) (cached_put HO h p l) <-> (k = h /\ q = p) \/ (k <> h /\ In (k, q) l).
  Proof.
    unfold cached_put. cbn [In]. rewrite In_cached_del. split.
    - intros [E|E]; [left; split; congruence|right; exact E].
    - intros [[-> ->]|E]; [left; reflexivity|right; exact E].
  Qed.

  Lemma keys_cached_put h p (l : cachemap) k :
    In k (map fst (cached_put HO h p l)) <-> k = h \/ In k (map fst l).
  Proof.
    rewrite !in_map_iff. split.
    - intros ([k' q] & <- & Hin). cbn [fst]. apply In_cached_put in Hin as [[-> _]|[_ Hin]];
        [left; reflexivity|right; exists (k', q); auto].
    - intros [->|([k' q] & <- & Hin)].
      + exists (h, p). split; [reflexivity|]. apply In_cached_put. left. auto.
      + cbn [fst]. destruct (op_eqb HO k' h) eqn:E.
        * apply HOK in E. subst k'. exists (h, p). split; [reflexivity|].
          apply In_cached_put. left. auto.
        * exists (k', q). split; [reflexivity|]. apply In_cached_put. right.
          split; [intros ->; rewrite Heqb_refl in E; discriminate|exact Hin].
  Qed.

  Lemma cached_has_true (l : cachemap) h : cached_has HO l h = true <-> In h (map fst l).
  Proof.
    unfold cached_has. destruct (cached_get HO l h) as [p|] eqn:E.
    - split; [intros _|reflexivity]. apply (cached_get_In H HO HOK) in E.
      apply in_map_iff. exists (h, p). auto.
    - split; [discriminate|]. intros Hin. exfalso. exact (cached_get_None H HO HOK _ _ E Hin).
  Qed.
End Assoc.

Lemma prunePosition_get_other (H : Type) (HO : ops H) T (nd : list (N * (H * bool))) pos p :
  p <> pos -> p <> sibling pos -> nodes_get (prunePosition HO T nd pos) p = nodes_get nd p.
Proof.
  intros H1 H2. unfold prunePosition.
  destruct (negb (snd (nodes_get0 HO nd pos)) && negb (snd (nodes_get0 HO nd (sibling pos)))); [|reflexivity].
  destruct (niecesPresent T nd (sibling pos)).
  - destruct (niecesPresent T nd pos); [reflexivity|]. rewrite nodes_get_del.
    destruct (N.eqb_spec p pos); [contradiction|reflexivity].
  - destruct (niecesPresent T (nodes_del (sibling pos) nd) pos); rewrite ?nodes_get_del;
      destruct (N.eqb_spec p pos); try contradiction;
      destruct (N.eqb_spec p (sibling pos)); try contradiction; reflexivity.
Qed.

(** * Part 0b: a sequence of moves [Nodes[t] := Nodes[c]; delete c] (with the cached positions) *)
Section Moves.
  Variable H : Type.
  Variable HO : ops H.
  Hypothesis HOK : ops_ok HO.
  Notation nodemap := (list (N * (H * bool))).
  Notation cachemap := (list (H * N)).

  Lemma In_cached_move k0 t (ca : cachemap) k p :
    In (k, p) (cached_move HO k0 t ca) -> (k = k0 /\ p = t) \/ (k <> k0 /\ In (k, p) ca).
  Proof.
    unfold cached_move. destruct (cached_has HO ca k0) eqn:Eh.
    - intros Hin. apply (In_cached_put H HO HOK) in Hin. exact Hin.
    - intros Hin. right. split; [|exact Hin]. intros ->.
      assert (Hk : In k0 (map fst ca)) by (apply in_map_iff; exists (k0, p); auto).
      apply (cached_has_true H HO HOK) in Hk. congruence.
  Qed.

  Lemma keys_cached_move k0 t (ca : cachemap) k :
    In k (map fst (cached_move HO k0 t ca)) <-> In k (map fst ca).
  Proof.
    unfold cached_move. destruct (cached_has HO ca k0) eqn:Eh; [|reflexivity].
    apply (cached_has_true H HO HOK) in Eh. rewrite (keys_cached_put H HO HOK).
    split; [intros [->|A]; assumption|auto].
  Qed.

  Lemma In_cached_move_key k0 t (ca : cachemap) : In k0 (map fst ca) ->
    In (k0, t) (cached_move HO k0 t ca).
  Proof.
    intros Hk. unfold cached_move. apply (cached_has_true H HO HOK) in Hk. rewrite Hk.
    apply (In_cached_put H HO HOK). left. auto.
  Qed.

  Definition move1 (ct : N * N) (st : maps H) : maps H :=
    match nodes_get (fst st) (fst ct) with
    | Some v => (nodes_put (snd ct) v (nodes_del (fst ct) (fst st)),
                 cached_move HO (fst v) (snd ct) (snd st))
    | None => st
    end.
  Definition apply_moves (ms : list (N * N)) (st : maps H) : maps H :=
    fold_left (fun st ct => move1 ct st) ms st.

  Definition sto (nd : nodemap) (p : N) : Prop := nodes_get nd p <> None.

  (** no later source is an earlier source or target; stored sources have different targets *)
  Fixpoint safe (ms : list (N * N)) (nd : nodemap) : Prop :=
    match ms with
    | [] => True
    | (c, t) :: rest =>
        (forall c' t', In (c', t') rest -> c' <> c /\ c' <> t /\ (sto nd c -> sto nd c' -> t' <> t)) /\
        safe rest nd
    end.

  Lemma safe_ext ms : forall nd nd', (forall c t, In (c, t) ms -> nodes_get nd' c = nodes_get nd c) ->
    safe ms nd -> safe ms nd'.
  Proof.
    induction ms as [|[c t] rest IH]; intros nd nd' E Hs; [exact I|]. cbn [safe] in *.
    destruct Hs as [Hh Hr]. split.
    - intros c' t' Hin. destruct (Hh c' t' Hin) as (A & B & C). split; [exact A|]. split; [exact B|].
      unfold sto. rewrite (E c t (or_introl eq_refl)), (E c' t' (or_intror Hin)). exact C.
    - apply (IH nd nd'); [|exact Hr]. intros c' t' Hin. apply (E c' t'). right. exact Hin.
  Qed.

  Theorem apply_moves_spec ms : forall nd ca, safe ms nd ->
    forall nd' ca', apply_moves ms (nd, ca) = (nd', ca') ->
    (forall c t, In (c, t) ms -> sto nd c -> nodes_get nd' t = nodes_get nd c) /\
    (forall c t, In (c, t) ms -> (forall c2 t2, In (c2, t2) ms -> sto nd c2 -> t2 <> c) ->
                 nodes_get nd' c = None) /\
    (forall p, (forall c t, In (c, t) ms -> p <> c /\ (sto nd c -> p <> t)) ->
               nodes_get nd' p = nodes_get nd p) /\
    (forall p v, nodes_get nd' p = Some v ->
       (exists c t, In (c, t) ms /\ p = t /\ nodes_get nd c = Some v) \/
       ((forall c t, In (c, t) ms -> p <> c) /\ nodes_get nd p = Some v)) /\
    (NoDup (map fst nd) -> NoDup (map fst nd')) /\
    (forall k, In k (map fst ca') <-> In k (map fst ca)) /\
    (forall k p, In (k, p) ca' ->
       (exists c t b, In (c, t) ms /\ nodes_get nd c = Some (k, b) /\ p = t) \/
       (In (k, p) ca /\ forall c t b, In (c, t) ms -> nodes_get nd c <> Some (k, b))).
  Proof.
    induction ms as [|[c t] rest IH]; intros nd ca Hs nd' ca' E.
    - cbn in E. injection E as <- <-.
      split; [intros ? ? []|]. split; [intros ? ? []|]. split; [reflexivity|].
      split; [intros p v Hp; right; split; [intros ? ? []|exact Hp]|]. split; [auto|].
      split; [reflexivity|].
      intros k p Hin. right. split; [exact Hin|intros ? ? ? []].
    - cbn [safe] in Hs. destruct Hs as [Hh Hr]. cbn [apply_moves fold_left] in E.
      fold (apply_moves rest (move1 (c, t) (nd, ca))) in E.
      unfold move1 in E. cbn [fst snd] in E.
      destruct (nodes_get nd c) as [v0|] eqn:Ec.
      + (* a stored source *)
        set (nd1 := nodes_put t v0 (nodes_del c nd)) in *.
        set (ca1 := cached_move HO (fst v0) t ca) in *.
        assert (Eg : forall p, nodes_get nd1 p = if p =? t then Some v0 else if p =? c then None else nodes_get nd p).
        { intros p. unfold nd1. rewrite nodes_get_put, nodes_get_del. reflexivity. }
        assert (Erest : forall c' t', In (c', t') rest -> nodes_get nd1 c' = nodes_get nd c').
        { intros c' t' Hin. destruct (Hh c' t' Hin) as (A & B & _). rewrite Eg.
          destruct (N.eqb_spec c' t) as [E'|_]; [contradiction|].
          destruct (N.eqb_spec c' c) as [E'|_]; [contradiction|]. reflexivity. }
        assert (Hsc : sto nd c) by (unfold sto; rewrite Ec; discriminate).
        destruct (IH nd1 ca1 (safe_ext rest nd nd1 Erest Hr) nd' ca' E)
          as (Ia & Ib & Ic & Iback & Ind & Ik & Ica).
        split; [|split; [|split; [|split; [|split; [|split]]]]].
        * intros c' t' [E'|Hin] Hst.
          -- injection E' as <- <-. rewrite Ic, Eg, N.eqb_refl; [exact (eq_sym Ec)|].
             intros c' t' Hin. destruct (Hh c' t' Hin) as (A & B & C). split; [congruence|].
             intros Hst'. unfold sto in Hst'. rewrite (Erest c' t' Hin) in Hst'.
             intros E'. exact (C Hsc Hst' (eq_sym E')).
          -- rewrite <- (Erest c' t' Hin). apply (Ia c' t' Hin). unfold sto. rewrite (Erest c' t' Hin).
             exact Hst.
        * intros c' t' [E'|Hin] Hno.
          -- injection E' as <- <-. rewrite Ic.
             ++ rewrite Eg. destruct (N.eqb_spec c t) as [E'|_].
                ** exfalso. exact (Hno c t (or_introl eq_refl) Hsc (eq_sym E')).
                ** rewrite N.eqb_refl. reflexivity.
             ++ intros c' t' Hin. destruct (Hh c' t' Hin) as (A & _). split; [congruence|].
                intros Hst' E'. unfold sto in Hst'. rewrite (Erest c' t' Hin) in Hst'.
                exact (Hno c' t' (or_intror Hin) Hst' (eq_sym E')).
          -- apply (Ib c' t' Hin). intros c2 t2 Hin2 Hst2. apply (Hno c2 t2 (or_intror Hin2)).
             unfold sto in *. rewrite <- (Erest c2 t2 Hin2). exact Hst2.
        * intros p Hp. destruct (Hp c t (or_introl eq_refl)) as [A B]. rewrite Ic.
          -- rewrite Eg. destruct (N.eqb_spec p t) as [E'|_]; [exfalso; exact (B Hsc E')|].
             destruct (N.eqb_spec p c) as [E'|_]; [contradiction|]. reflexivity.
          -- intros c' t' Hin. destruct (Hp c' t' (or_intror Hin)) as [A' B']. split; [exact A'|].
             intros Hst'. apply B'. unfold sto in *. rewrite <- (Erest c' t' Hin). exact Hst'.
        * intros p v Hp. destruct (Iback p v Hp) as [(c' & t' & Hin & -> & Ev)|[Hno Ev]].
          -- left. exists c', t'. split; [right; exact Hin|]. split; [reflexivity|].
             rewrite <- (Erest c' t' Hin). exact Ev.
          -- rewrite Eg in Ev. destruct (N.eqb_spec p t) as [->|Hpt].
             ++ left. exists c, t. split; [left; reflexivity|]. split; [reflexivity|]. congruence.
             ++ destruct (N.eqb_spec p c) as [->|Hpc]; [discriminate|]. right. split; [|exact Ev].
                intros c' t' [E'|Hin]; [injection E' as <- <-; exact Hpc|exact (Hno c' t' Hin)].
        * intros Hnd. apply Ind. unfold nd1. apply NoDup_nodes_put, NoDup_nodes_del, Hnd.
        * intros k. rewrite Ik. unfold ca1. apply keys_cached_move.
        * intros k p Hin. destruct (Ica k p Hin) as [(c' & t' & b & Hin' & Ev & ->)|[Hin' Hno]].
          -- left. exists c', t', b. split; [right; exact Hin'|]. split; [|reflexivity].
             rewrite <- (Erest c' t' Hin'). exact Ev.
          -- unfold ca1 in Hin'. apply In_cached_move in Hin' as [[-> ->]|[Hne Hin']].
             ++ left. exists c, t, (snd v0). split; [left; reflexivity|]. split; [|reflexivity].
                rewrite Ec. destruct v0; reflexivity.
             ++ right. split; [exact Hin'|]. intros c' t' b [E'|Hin''].
                ** injection E' as <- <-. rewrite Ec. intros E'. injection E' as E'. subst v0.
                   cbn [fst] in Hne. congruence.
                ** rewrite <- (Erest c' t' Hin''). exact (Hno c' t' b Hin'').
      + (* nothing is stored at the source *)
        assert (Hnc : ~ sto nd c) by (unfold sto; rewrite Ec; auto).
        destruct (IH nd ca Hr nd' ca' E) as (Ia & Ib & Ic & Iback & Ind & Ik & Ica).
        split; [|split; [|split; [|split; [|split; [|split]]]]].
        * intros c' t' [E'|Hin] Hst; [injection E' as <- <-; contradiction|exact (Ia c' t' Hin Hst)].
        * intros c' t' [E'|Hin] Hno.
          -- injection E' as <- <-. rewrite Ic; [exact Ec|].
             intros c' t' Hin. destruct (Hh c' t' Hin) as (A & _). split; [congruence|].
             intros Hst' E'. exact (Hno c' t' (or_intror Hin) Hst' (eq_sym E')).
          -- apply (Ib c' t' Hin). intros c2 t2 Hin2 Hst2. exact (Hno c2 t2 (or_intror Hin2) Hst2).
        * intros p Hp. apply Ic. intros c' t' Hin. exact (Hp c' t' (or_intror Hin)).
        * intros p v Hp. destruct (Iback p v Hp) as [(c' & t' & Hin & -> & Ev)|[Hno Ev]].
          -- left. exists c', t'. split; [right; exact Hin|auto].
          -- right. split; [|exact Ev]. intros c' t' [E'|Hin]; [|exact (Hno c' t' Hin)].
             injection E' as <- <-. intros ->. congruence.
        * exact Ind.
        * exact Ik.
        * intros k p Hin. destruct (Ica k p Hin) as [(c' & t' & b & Hin' & Ev & ->)|[Hin' Hno]].
          -- left. exists c', t', b. split; [right; exact Hin'|auto].
          -- right. split; [exact Hin'|]. intros c' t' b [E'|Hin'']; [|exact (Hno c' t' b Hin'')].
             injection E' as <- <-. rewrite Ec. discriminate.
  Qed.
End Moves.


(** * Part 0c: [moveUpDescendants] is a sequence of moves *)
Definition offs (A : N) (K : nat) : list N := map (fun i => A + N.of_nat i) (seq 0 K).

Lemma offs_S A K : offs A (S K) = A :: offs (A + 1) K.
Proof.
  unfold offs. cbn [seq map]. rewrite N.add_0_r. f_equal. rewrite <- seq_shift, map_map.
  apply map_ext. intros i. lia.
Qed.

Lemma In_offs A K o : In o (offs A K) <-> A <= o < A + N.of_nat K.
Proof.
  unfold offs. rewrite in_map_iff. split.
  - intros (i & <- & Hi). apply in_seq in Hi. lia.
  - intros Ho. exists (N.to_nat (o - A)). split; [lia|]. apply in_seq. lia.
Qed.

Lemma offs_double_S A K : offs (2 * A) (2 * S K) = 2 * A :: 2 * A + 1 :: offs (2 * (A + 1)) (2 * K).
Proof.
  replace (2 * S K)%nat with (S (S (2 * K))) by lia. rewrite !offs_S. do 3 f_equal. lia.
Qed.

Lemma offs_NoDup A K : NoDup (offs A K).
Proof.
  unfold offs. apply NoDup_map_on; [apply seq_NoDup|]. intros x y _ _ E. lia.
Qed.

Lemma SSlt_map_gpos T r A : forall K, N.of_nat r <= T -> A + N.of_nat K <= 2 ^ (T - N.of_nat r) ->
  Sorted.StronglySorted N.lt (map (gpos T (N.of_nat r)) (offs A K)).
Proof.
  intros K. revert A. induction K as [|K IH]; intros A Hr HK; [constructor|].
  rewrite offs_S. cbn [map]. constructor; [apply IH; [exact Hr|lia]|].
  rewrite Forall_forall. intros p Hp. apply in_map_iff in Hp as (o & <- & Ho).
  apply In_offs in Ho. unfold UtilsGeom.gpos. lia.
Qed.

Lemma dedup_sorted_SSlt l : Sorted.StronglySorted N.lt l -> dedup_sorted l = l.
Proof.
  induction 1 as [|x l Hs IH Hx]; [reflexivity|]. destruct l as [|y t]; [reflexivity|].
  cbn [dedup_sorted]. rewrite Forall_forall in Hx. pose proof (Hx y (or_introl eq_refl)).
  destruct (N.eqb_spec x y) as [E|_]; [lia|]. f_equal. exact IH.
Qed.

Lemma sortN_SSlt l : Sorted.StronglySorted N.lt l -> sortN l = l.
Proof.
  intros Hs. apply pps_sortN_unique; [exact Hs|apply pps_SSlt_NoDup, Hs|reflexivity].
Qed.

Section MoveUp.
  Variable H : Type.
  Variable HO : ops H.
  Variable T : N.
  Hypothesis HT : T <= 63.
  Variable h0 : nat.                 (* the row of the empty root *)
  Hypothesis Hh0 : N.of_nat h0 < T.
  Variable D : N.                    (* its position *)
  Hypothesis HD : DetectRow D T = N.of_nat h0.

  Definition rowmoves (r : nat) (os : list N) : list (N * N) :=
    map (fun o => (gpos T (N.of_nat r) o,
                   gpos T (N.of_nat (S r)) (rmbit o (N.of_nat h0 - N.of_nat r)))) os.
  Fixpoint allmoves (r : nat) (A : N) (K : nat) : list (N * N) :=
    match r with
    | O => []
    | S r' => rowmoves r' (offs (2 * A) (2 * K)) ++ allmoves r' (2 * A) (2 * K)
    end.

  Lemma moveUp_one_eq r o st : (r <= h0)%nat -> o < 2 ^ (T - N.of_nat r) ->
    moveUp_one HO T D (gpos T (N.of_nat r) o) st =
    (move1 H HO (gpos T (N.of_nat r) o, gpos T (N.of_nat (S r)) (rmbit o (N.of_nat h0 - N.of_nat r))) st, true).
  Proof.
    intros Hr Ho. unfold moveUp_one, move1. cbn [fst snd].
    replace (N.of_nat (S r)) with (N.of_nat r + 1) by lia.
    rewrite (calcNextPosition_gpos T (N.of_nat r) o D (N.of_nat h0) HT ltac:(lia) Hh0 Ho HD).
    destruct (nodes_get (fst st) (gpos T (N.of_nat r) o)); reflexivity.
  Qed.

  Lemma apply_moves_app l1 l2 (st : maps H) :
    apply_moves H HO (l1 ++ l2) st = apply_moves H HO l2 (apply_moves H HO l1 st).
  Proof. unfold apply_moves. apply fold_left_app. Qed.

  Lemma moveUp_row_eq r : (S r <= h0)%nat -> forall K A st,
    A + N.of_nat K <= 2 ^ (T - N.of_nat (S r)) ->
    moveUp_row HO T D (map (gpos T (N.of_nat (S r))) (offs A K)) st =
    (apply_moves H HO (rowmoves r (offs (2 * A) (2 * K))) st,
     map (gpos T (N.of_nat r)) (offs (2 * A) (2 * K)), true).
  Proof.
    intros Hr. induction K as [|K IH]; intros A st HK; [reflexivity|].
    rewrite offs_S, offs_double_S. cbn [map moveUp_row].
    assert (HA : A < 2 ^ (T - N.of_nat (S r))) by lia.
    rewrite (DetectRow_gpos T (N.of_nat (S r)) A HT ltac:(lia) HA).
    destruct (N.eqb_spec (N.of_nat (S r)) 0) as [E0|_]; [lia|].
    assert (HrT : N.of_nat r < T) by lia.
    assert (HA' : A < 2 ^ (T - N.of_nat r - 1)) by (replace (T - N.of_nat r - 1) with (T - N.of_nat (S r)) by lia; exact HA).
    replace (N.of_nat (S r)) with (N.of_nat r + 1) by lia.
    rewrite (LeftChild_gpos T (N.of_nat r) A HT HrT HA'), (RightChild_gpos T (N.of_nat r) A HT HrT HA').
    assert (Hc : 2 * A + 1 < 2 ^ (T - N.of_nat r)).
    { replace (T - N.of_nat r) with (T - N.of_nat r - 1 + 1) by lia. rewrite UtilsGeom.pow2_S. lia. }
    rewrite (moveUp_one_eq r (2 * A) st ltac:(lia) ltac:(lia)).
    rewrite (moveUp_one_eq r (2 * A + 1) _ ltac:(lia) Hc).
    replace (N.of_nat r + 1) with (N.of_nat (S r)) by lia.
    rewrite (IH (A + 1) _ ltac:(lia)). reflexivity.
  Qed.

  Lemma moveUp_row_row0 : forall ps st, (forall p, In p ps -> DetectRow p T = 0) ->
    moveUp_row HO T D ps st = (st, [], true).
  Proof.
    induction ps as [|p t IH]; intros st Hall; [reflexivity|]. cbn [moveUp_row].
    rewrite (Hall p (or_introl eq_refl)). cbn. apply IH. intros q Hq. apply Hall. right. exact Hq.
  Qed.

  Lemma mud_loop_nil k st : mud_loop HO k T D [] st = (st, true).
  Proof. revert st. induction k as [|k IH]; intros st; [reflexivity|]. cbn. apply IH. Qed.

  Lemma mud_loop_eq : forall r A K st, (r <= h0)%nat -> A + N.of_nat K <= 2 ^ (T - N.of_nat r) ->
    mud_loop HO (S r) T D (map (gpos T (N.of_nat r)) (offs A K)) st =
    (apply_moves H HO (allmoves r A K) st, true).
  Proof.
    induction r as [|r IH]; intros A K st Hr HK.
    - cbn [mud_loop allmoves]. rewrite moveUp_row_row0; [reflexivity|].
      intros p Hp. apply in_map_iff in Hp as (o & <- & Ho). apply In_offs in Ho.
      apply (DetectRow_gpos T (N.of_nat 0) o HT); lia.
    - change (mud_loop HO (S (S r)) T D (map (gpos T (N.of_nat (S r))) (offs A K)) st)
        with (match moveUp_row HO T D (map (gpos T (N.of_nat (S r))) (offs A K)) st with
              | (st1, _, false) => (st1, false)
              | (st1, cs, true) => mud_loop HO (S r) T D (dedup_sorted (sortN cs)) st1
              end).
      rewrite (moveUp_row_eq r Hr K A st HK).
      assert (HK2 : 2 * A + N.of_nat (2 * K) <= 2 ^ (T - N.of_nat r)).
      { replace (T - N.of_nat r) with (T - N.of_nat (S r) + 1) by lia. rewrite UtilsGeom.pow2_S. lia. }
      pose proof (SSlt_map_gpos T r (2 * A) (2 * K) ltac:(lia) HK2) as Hs.
      rewrite (sortN_SSlt _ Hs), (dedup_sorted_SSlt _ Hs).
      rewrite (IH (2 * A) (2 * K)%nat _ ltac:(lia) HK2). cbn [allmoves].
      rewrite apply_moves_app. reflexivity.
  Qed.

  (** [moveUpDescendants] below the position right of the empty root at [(h0, 2 q)] *)
  Theorem moveUpDescendants_eq q st : 2 * q + 1 < 2 ^ (T - N.of_nat h0) ->
    D = gpos T (N.of_nat h0) (2 * q) ->
    moveUpDescendants HO T (gpos T (N.of_nat h0) (2 * q + 1)) D st =
    (apply_moves H HO (allmoves h0 (2 * q) 2) st, true).
  Proof.
    intros Hq ED. unfold moveUpDescendants.
    rewrite (DetectRow_gpos T (N.of_nat h0) (2 * q + 1) HT ltac:(lia) Hq).
    destruct (N.eqb_spec (N.of_nat h0) 0) as [E0|Hne].
    - assert (E0' : h0 = 0%nat) by lia. rewrite E0'. reflexivity.
    - rewrite Nat2N.id, (sibling_gpos T (N.of_nat h0) (2 * q + 1) ltac:(lia)).
      assert (Ex : N.lxor (2 * q + 1) 1 = 2 * q).
      { rewrite lxor_1. replace (2 * q + 1) with (1 + 2 * q) by lia.
        rewrite N.even_add_mul_2. change (N.even 1) with false. cbv iota. lia. }
      rewrite Ex.
      assert (El : [gpos T (N.of_nat h0) (2 * q); gpos T (N.of_nat h0) (2 * q + 1)] =
                   map (gpos T (N.of_nat h0)) (offs (2 * q) 2)).
      { unfold offs. cbn [seq map]. rewrite N.add_0_r. reflexivity. }
      pose proof (SSlt_map_gpos T h0 (2 * q) 2 ltac:(lia) ltac:(lia)) as Hs.
      assert (Esort : sortN [gpos T (N.of_nat h0) (2 * q + 1); gpos T (N.of_nat h0) (2 * q)] =
                      map (gpos T (N.of_nat h0)) (offs (2 * q) 2)).
      { apply pps_sortN_unique; [exact Hs| |].
        - constructor; [|constructor; [intros []|constructor]].
          intros [E|[]]. unfold UtilsGeom.gpos in E. lia.
        - intros x. rewrite <- El. cbn [In]. tauto. }
      rewrite Esort. apply mud_loop_eq; lia.
  Qed.

  (** the members of [allmoves] *)
  Definition tgt (rho : nat) (o : N) : N :=
    gpos T (N.of_nat (S rho)) (rmbit o (N.of_nat h0 - N.of_nat rho)).

  Lemma In_allmoves : forall r A K c t,
    In (c, t) (allmoves r A K) <->
    exists rho o, (rho < r)%nat /\ A * p2 (r - rho) <= o < (A + N.of_nat K) * p2 (r - rho) /\
                  c = gpos T (N.of_nat rho) o /\ t = tgt rho o.
  Proof. clear HD HT Hh0.
    induction r as [|r IH]; intros A K c t.
    - cbn [allmoves In]. split; [intros []|intros (rho & o & Hlt & _); lia].
    - cbn [allmoves]. rewrite in_app_iff, IH. unfold rowmoves. rewrite in_map_iff. split.
      + intros [(o & E & Ho)|(rho & o & Hlt & Ho & Ec & Et)].
        * injection E as <- <-. apply In_offs in Ho. exists r, o. split; [lia|].
          replace (S r - r)%nat with 1%nat by lia. change (p2 1) with 2. split; [lia|auto].
        * exists rho, o. split; [lia|]. replace (S r - rho)%nat with (S (r - rho)) by lia.
          rewrite p2_S. split; [lia|auto].
      + intros (rho & o & Hlt & Ho & Ec & Et). destruct (Nat.eq_dec rho r) as [->|Hne].
        * left. exists o. split; [subst; reflexivity|]. apply In_offs.
          replace (S r - r)%nat with 1%nat in Ho by lia. change (p2 1) with 2 in Ho. lia.
        * right. exists rho, o. split; [lia|]. replace (S r - rho)%nat with (S (r - rho)) in Ho by lia.
          rewrite p2_S in Ho. split; [lia|auto].
  Qed.

  Lemma pow_T_split r rho : (rho <= r)%nat -> N.of_nat r <= T ->
    2 ^ (T - N.of_nat rho) = 2 ^ (T - N.of_nat r) * p2 (r - rho).
  Proof. clear HD.
    intros Hle Hr. unfold p2. rewrite <- N.pow_add_r. f_equal. lia.
  Qed.

  Lemma range_valid r rho A K o : (rho <= r)%nat -> N.of_nat r <= T ->
    A + N.of_nat K <= 2 ^ (T - N.of_nat r) -> o < (A + N.of_nat K) * p2 (r - rho) ->
    o < 2 ^ (T - N.of_nat rho).
  Proof. clear HD.
    intros Hle Hr HK Ho. rewrite (pow_T_split r rho Hle Hr).
    assert ((A + N.of_nat K) * p2 (r - rho) <= 2 ^ (T - N.of_nat r) * p2 (r - rho))
      by (apply N.mul_le_mono_r; exact HK). lia.
  Qed.

  Lemma tgt_valid rho o : (rho <= h0)%nat -> o < 2 ^ (T - N.of_nat rho) ->
    rmbit o (N.of_nat h0 - N.of_nat rho) < 2 ^ (T - N.of_nat (S rho)).
  Proof. clear HD.
    intros Hle Ho. replace (T - N.of_nat (S rho)) with (T - N.of_nat rho - 1) by lia.
    apply rmbit_lt; [lia|exact Ho].
  Qed.

  Lemma safe_app l1 l2 (nd : list (N * (H * bool))) :
    safe H l1 nd -> safe H l2 nd ->
    (forall c t c' t', In (c, t) l1 -> In (c', t') l2 ->
       c' <> c /\ c' <> t /\ (sto H nd c -> sto H nd c' -> t' <> t)) ->
    safe H (l1 ++ l2) nd.
  Proof. clear HD.
    induction l1 as [|[c t] l1 IH]; intros H1 H2 Hx; [exact H2|].
    cbn [app safe] in *. destruct H1 as [Hh Hr]. split.
    - intros c' t' Hin. apply in_app_or in Hin as [Hin|Hin]; [exact (Hh c' t' Hin)|].
      exact (Hx c t c' t' (or_introl eq_refl) Hin).
    - apply IH; [exact Hr|exact H2|]. intros c1 t1 c' t' Hin1 Hin2.
      exact (Hx c1 t1 c' t' (or_intror Hin1) Hin2).
  Qed.

  Lemma safe_row rho (nd : list (N * (H * bool))) : (rho <= h0)%nat -> forall os, NoDup os ->
    (forall o, In o os -> o < 2 ^ (T - N.of_nat rho)) ->
    (forall o o', In o os -> In o' os -> sto H nd (gpos T (N.of_nat rho) o) ->
       sto H nd (gpos T (N.of_nat rho) o') ->
       rmbit o (N.of_nat h0 - N.of_nat rho) = rmbit o' (N.of_nat h0 - N.of_nat rho) -> o = o') ->
    safe H (rowmoves rho os) nd.
  Proof. clear HD.
    intros Hle. induction os as [|o os IH]; intros Hnd Hval Hinj; [exact I|].
    inversion Hnd as [|x y Hnin Hnd']; subst. cbn [rowmoves map safe]. split.
    - intros c' t' Hin. apply in_map_iff in Hin as (o' & E & Ho'). injection E as <- <-.
      pose proof (Hval o (or_introl eq_refl)) as Vo. pose proof (Hval o' (or_intror Ho')) as Vo'.
      split; [|split].
      + intros E. unfold UtilsGeom.gpos in E. assert (o' = o) by lia. subst. contradiction.
      + pose proof (gpos_row_mono T (N.of_nat rho) o' (N.of_nat (S rho))
                      (rmbit o (N.of_nat h0 - N.of_nat rho)) ltac:(lia) ltac:(lia) Vo'). lia.
      + intros S1 S2 E. unfold UtilsGeom.gpos in E. apply N.add_cancel_l in E.
        assert (o' = o) by (apply Hinj; auto; [right; exact Ho'|left; reflexivity]).
        subst. contradiction.
    - apply IH; [exact Hnd'| |].
      + intros o' Ho'. apply Hval. right. exact Ho'.
      + intros o1 o2 H1 H2. apply Hinj; right; assumption.
  Qed.

  Lemma allmoves_safe (nd : list (N * (H * bool))) : forall r A K, (r <= h0)%nat ->
    A + N.of_nat K <= 2 ^ (T - N.of_nat r) ->
    (forall rho o o', (rho < r)%nat ->
       A * p2 (r - rho) <= o < (A + N.of_nat K) * p2 (r - rho) ->
       A * p2 (r - rho) <= o' < (A + N.of_nat K) * p2 (r - rho) ->
       sto H nd (gpos T (N.of_nat rho) o) -> sto H nd (gpos T (N.of_nat rho) o') ->
       rmbit o (N.of_nat h0 - N.of_nat rho) = rmbit o' (N.of_nat h0 - N.of_nat rho) -> o = o') ->
    safe H (allmoves r A K) nd.
  Proof. clear HD.
    induction r as [|r IH]; intros A K Hr HK Hinj; [exact I|]. cbn [allmoves].
    assert (HK2 : 2 * A + N.of_nat (2 * K) <= 2 ^ (T - N.of_nat r)).
    { replace (T - N.of_nat r) with (T - N.of_nat (S r) + 1) by lia. rewrite UtilsGeom.pow2_S. lia. }
    assert (Hrow : forall o, In o (offs (2 * A) (2 * K)) ->
              A * p2 (S r - r) <= o < (A + N.of_nat K) * p2 (S r - r)).
    { intros o Ho. apply In_offs in Ho. replace (S r - r)%nat with 1%nat by lia.
      change (p2 1) with 2. lia. }
    apply safe_app.
    - apply safe_row; [lia|apply offs_NoDup| |].
      + intros o Ho. apply In_offs in Ho. lia.
      + intros o o' Ho Ho'. apply (Hinj r o o'); [lia|apply Hrow, Ho|apply Hrow, Ho'].
    - apply IH; [lia|exact HK2|]. intros rho o o' Hlt Ho Ho'.
      apply (Hinj rho o o'); [lia| |];
        replace (S r - rho)%nat with (S (r - rho)) by lia; rewrite p2_S; lia.
    - intros c t c' t' Hin Hin'. unfold rowmoves in Hin. apply in_map_iff in Hin as (o & E & Ho).
      injection E as <- <-. apply In_offs in Ho.
      apply In_allmoves in Hin' as (rho & o' & Hlt & Ho' & -> & ->).
      assert (Vo' : o' < 2 ^ (T - N.of_nat rho)).
      { apply (range_valid r rho (2 * A) (2 * K)%nat); [lia|lia|exact HK2|lia]. }
      pose proof (gpos_row_mono T (N.of_nat rho) o' (N.of_nat r) o ltac:(lia) ltac:(lia) Vo') as Hlt1.
      pose proof (gpos_row_mono T (N.of_nat rho) o' (N.of_nat (S r))
                    (rmbit o (N.of_nat h0 - N.of_nat r)) ltac:(lia) ltac:(lia) Vo') as Hlt2.
      pose proof (tgt_valid rho o' ltac:(lia) Vo') as Vt.
      pose proof (gpos_row_mono T (N.of_nat (S rho)) (rmbit o' (N.of_nat h0 - N.of_nat rho))
                    (N.of_nat (S r)) (rmbit o (N.of_nat h0 - N.of_nat r)) ltac:(lia) ltac:(lia) Vt) as Hlt3.
      unfold tgt. split; [intros E; rewrite E in Hlt1; exact (N.lt_irrefl _ Hlt1)|].
      split; [intros E; rewrite E in Hlt2; exact (N.lt_irrefl _ Hlt2)|].
      intros _ _ E. rewrite E in Hlt3. exact (N.lt_irrefl _ Hlt3).
  Qed.
End MoveUp.

(** * Part 1: the invariant over a view of the forest *)
Section Abstract.
  Variable H : Type.
  Variable HO : ops H.
  Hypothesis HOK : ops_ok HO.
  Notation nodemap := (list (N * (H * bool))).
  Notation cachemap := (list (H * N)).

  Section View.
    (** [V r o h l]: the coordinate [(r, o)] holds a node with hash [h] that is a leaf iff [l];
        [RT r o]: the coordinate is a root *)
    Variable V : nat -> N -> H -> bool -> Prop.
    Variable RT : nat -> N -> Prop.
    Variable R : list H.
    Variable T : N.

    Set Implicit Arguments.
    Record Vok : Prop := mkVok {
      v_T63 : T <= 63;
      v_fun : forall r o h1 l1 h2 l2, V r o h1 l1 -> V r o h2 l2 -> h1 = h2 /\ l1 = l2;
      v_valid : forall r o h l, V r o h l -> N.of_nat r <= T /\ o < 2 ^ (T - N.of_nat r);
      v_root : forall r o, RT r o -> exists h l, V r o h l;
      v_par : forall r o h l, V r o h l -> ~ RT r o -> exists h' l', V (S r) (o / 2) h' l' }.

    (** the remembered leaves and their ancestors up to the roots *)
    Inductive known : nat -> N -> Prop :=
    | kn_leaf r o h : V r o h true -> In h R -> known r o
    | kn_up r o : known r o -> ~ RT r o -> known (S r) (o / 2).

    Record GInv (nd : nodemap) (ca : cachemap) : Prop := mkGInv {
      g_nodup : NoDup (map fst nd);
      g_true : forall p h b, In (p, (h, b)) nd -> exists r o l, p = gp T r o /\ V r o h l;
      g_cR : forall h, In h R <-> In h (map fst ca);
      g_cpos : forall h p, In (h, p) ca -> exists r o, V r o h true /\ p = gp T r o;
      g_Rin : forall h, In h R -> exists r o, V r o h true;
      g_roots : forall r o, RT r o -> nodes_get nd (gp T r o) <> None;
      g_tgt : forall r o h, V r o h true -> In h R -> nodes_get nd (gp T r o) = Some (h, true);
      g_sibs : forall r o, known r o -> ~ RT r o -> nodes_get nd (gp T r (N.lxor o 1)) <> None }.

    Unset Implicit Arguments.

    Hypothesis HV : Vok.

    Lemma gp_inj r o r' o' :
      N.of_nat r <= T -> o < 2 ^ (T - N.of_nat r) -> N.of_nat r' <= T -> o' < 2 ^ (T - N.of_nat r') ->
      gp T r o = gp T r' o' -> r = r' /\ o = o'.
    Proof.
      intros A B C D E. unfold gp in E. destruct (gpos_inj _ _ _ _ _ A B C D E) as [Er Eo].
      split; [lia|exact Eo].
    Qed.

    Lemma lxor1_valid r o : N.of_nat r < T -> o < 2 ^ (T - N.of_nat r) ->
      N.lxor o 1 < 2 ^ (T - N.of_nat r).
    Proof. intros Hr Ho. exact (proj1 (sib_offsets_lt T (N.of_nat r) o Hr Ho)). Qed.

    Lemma lxor1_invol o : N.lxor (N.lxor o 1) 1 = o.
    Proof. rewrite N.lxor_assoc. change (N.lxor 1 1) with 0. apply N.lxor_0_r. Qed.

    Lemma lxor1_div2 o : N.lxor o 1 / 2 = o / 2.
    Proof.
      rewrite lxor_1. pose proof (N.div_mod' o 2) as Hdm. pose proof (mod2_even o) as Hm.
      destruct (N.even o).
      - symmetry. apply (N.div_unique (o + 1) 2 (o / 2) 1); lia.
      - symmetry. apply (N.div_unique (o - 1) 2 (o / 2) 0); lia.
    Qed.

    Lemma lxor1_cases o : N.lxor o 1 = 2 * (o / 2) \/ N.lxor o 1 = 2 * (o / 2) + 1.
    Proof.
      rewrite lxor_1. pose proof (N.div_mod' o 2) as Hdm. pose proof (mod2_even o) as Hm.
      destruct (N.even o); lia.
    Qed.

    Lemma known_V r o : known r o -> exists h l, V r o h l.
    Proof.
      induction 1 as [r o h Hv _|r o _ (h & l & Hv) Hn]; [eauto|].
      exact (v_par HV Hv Hn).
    Qed.

    (** a known coordinate that is no root lies below the top row *)
    Lemma known_valid r o : known r o -> ~ RT r o ->
      N.of_nat r < T /\ o < 2 ^ (T - N.of_nat r).
    Proof.
      intros Hk Hn. destruct (known_V _ _ Hk) as (h & l & Hv).
      destruct (v_valid HV Hv) as [A B].
      destruct (v_par HV Hv Hn) as (h' & l' & Hp).
      destruct (v_valid HV Hp) as [C _]. split; [lia|exact B].
    Qed.

    Lemma child_valid r0 y : N.of_nat (S r0) <= T -> y < 2 ^ (T - N.of_nat (S r0)) ->
      N.of_nat r0 < T /\ y < 2 ^ (T - N.of_nat r0 - 1).
    Proof.
      intros A B. split; [lia|]. replace (T - N.of_nat r0 - 1) with (T - N.of_nat (S r0)) by lia.
      exact B.
    Qed.

    Lemma gp_S r0 y : gp T (S r0) y = gpos T (N.of_nat r0 + 1) y.
    Proof. unfold gp. f_equal. lia. Qed.

    (** deleting a position that is neither a root nor a remembered leaf (its flag is [false])
        and whose sibling is neither a remembered leaf (flag [false]) nor has a stored child *)
    Lemma del_preserves nd ca r x :
      GInv nd ca -> N.of_nat r < T -> x < 2 ^ (T - N.of_nat r) -> ~ RT r x ->
      snd (nodes_get0 HO nd (gp T r x)) = false ->
      snd (nodes_get0 HO nd (gp T r (N.lxor x 1))) = false ->
      niecesPresent T nd (gp T r x) = false ->
      GInv (nodes_del (gp T r x) nd) ca.
    Proof.
      intros G Hr Hx Hnr Hfl Hfs Hnp. pose proof (v_T63 HV) as HT.
      assert (Hinj : forall r' o', N.of_nat r' <= T -> o' < 2 ^ (T - N.of_nat r') ->
                gp T r' o' = gp T r x -> r' = r /\ o' = x).
      { intros r' o' A B E. apply (gp_inj r' o' r x A B); [lia|exact Hx|exact E]. }
      constructor.
      - apply NoDup_nodes_del, (g_nodup G).
      - intros p h b Hin. apply In_nodes_del in Hin as [_ Hin]. exact (g_true G _ _ _ Hin).
      - exact (g_cR G).
      - exact (g_cpos G).
      - exact (g_Rin G).
      - intros r' o' Hrt. rewrite nodes_get_del.
        destruct (N.eqb_spec (gp T r' o') (gp T r x)) as [E|_]; [|exact (g_roots G Hrt)].
        exfalso. destruct (v_root HV Hrt) as (h & l & Hv).
        destruct (v_valid HV Hv) as [A B].
        destruct (Hinj _ _ A B E) as [-> ->]. exact (Hnr Hrt).
      - intros r' o' h Hv Hh. rewrite nodes_get_del.
        destruct (N.eqb_spec (gp T r' o') (gp T r x)) as [E|_]; [|exact (g_tgt G Hv Hh)].
        exfalso. destruct (v_valid HV Hv) as [A B].
        destruct (Hinj _ _ A B E) as [-> ->].
        unfold nodes_get0 in Hfl. rewrite (g_tgt G Hv Hh) in Hfl. discriminate.
      - intros r' o' Hk Hnrt. rewrite nodes_get_del.
        destruct (N.eqb_spec (gp T r' (N.lxor o' 1)) (gp T r x)) as [E|_];
          [|exact (g_sibs G Hk Hnrt)].
        exfalso.
        (* [(r', o')] is the sibling of the deleted coordinate *)
        destruct (known_valid _ _ Hk Hnrt) as [A B].
        destruct (Hinj r' (N.lxor o' 1) ltac:(lia) (lxor1_valid _ _ A B) E) as [-> Ex].
        assert (Eo : o' = N.lxor x 1) by (rewrite <- Ex; symmetry; apply lxor1_invol).
        subst o'. clear E Ex.
        inversion Hk as [r0 o0 h Hv Hh|r0 c Hk0 Hn0 Er Ec].
        + subst. unfold nodes_get0 in Hfs. rewrite (g_tgt G Hv Hh) in Hfs. discriminate.
        + subst r. pose proof (g_sibs G Hk0 Hn0) as Hst.
          destruct (child_valid r0 (N.lxor x 1) ltac:(lia) B) as [C D].
          unfold niecesPresent in Hnp. unfold gp in Hnp at 1.
          rewrite (DetectRow_gpos T (N.of_nat (S r0)) x HT ltac:(lia) Hx) in Hnp.
          destruct (N.eqb_spec (N.of_nat (S r0)) 0) as [E0|_]; [lia|].
          unfold gp in Hnp. rewrite (sibling_gpos T (N.of_nat (S r0)) x ltac:(lia)) in Hnp.
          replace (N.of_nat (S r0)) with (N.of_nat r0 + 1) in Hnp by lia.
          rewrite (LeftChild_gpos T _ _ HT C D), (RightChild_gpos T _ _ HT C D) in Hnp.
          apply Bool.orb_false_iff in Hnp as [N1 N2].
          rewrite <- Ec in N1, N2.
          destruct (lxor1_cases c) as [E1|E1]; rewrite E1 in Hst; unfold gp in Hst.
          * apply Hst. unfold nodes_has in N1.
            destruct (nodes_get nd (gpos T (N.of_nat r0) (2 * (c / 2)))); [discriminate|reflexivity].
          * apply Hst. unfold nodes_has in N2.
            destruct (nodes_get nd (gpos T (N.of_nat r0) (2 * (c / 2) + 1))); [discriminate|reflexivity].
    Qed.

    (** [prunePosition] on a pair of siblings that are no roots *)
    Lemma prunePosition_preserves nd ca r x :
      GInv nd ca -> N.of_nat r < T -> x < 2 ^ (T - N.of_nat r) -> ~ RT r x -> ~ RT r (N.lxor x 1) ->
      GInv (prunePosition HO T nd (gp T r x)) ca.
    Proof.
      intros G Hr Hx Hn1 Hn2. pose proof (v_T63 HV) as HT. unfold prunePosition.
      assert (Es : sibling (gp T r x) = gp T r (N.lxor x 1))
        by (unfold gp; apply sibling_gpos; lia).
      rewrite Es.
      destruct (snd (nodes_get0 HO nd (gp T r x))) eqn:F1; cbn [negb andb]; [exact G|].
      destruct (snd (nodes_get0 HO nd (gp T r (N.lxor x 1)))) eqn:F2; cbn [negb andb]; [exact G|].
      pose proof (lxor1_valid _ _ Hr Hx) as Hx'.
      assert (Hne : gp T r (N.lxor x 1) <> gp T r x).
      { intros E. apply (gp_inj r _ r x) in E as [_ E]; try lia; try assumption.
        rewrite lxor_1 in E. destruct (N.even x) eqn:Ev; [lia|].
        pose proof (odd_nz x Ev). lia. }
      set (nd1 := if niecesPresent T nd (gp T r (N.lxor x 1)) then nd
                  else nodes_del (gp T r (N.lxor x 1)) nd).
      assert (G1 : GInv nd1 ca).
      { unfold nd1. destruct (niecesPresent T nd (gp T r (N.lxor x 1))) eqn:Np; [exact G|].
        apply del_preserves; try assumption. rewrite lxor1_invol. exact F1. }
      change (GInv (if niecesPresent T nd1 (gp T r x) then nd1 else nodes_del (gp T r x) nd1) ca).
      destruct (niecesPresent T nd1 (gp T r x)) eqn:Np1; [exact G1|].
      apply del_preserves; try assumption.
      - unfold nd1, nodes_get0.
        destruct (niecesPresent T nd (gp T r (N.lxor x 1))); [exact F1|].
        rewrite nodes_get_del. destruct (N.eqb_spec (gp T r x) (gp T r (N.lxor x 1))) as [E|_];
          [reflexivity|exact F1].
      - unfold nd1, nodes_get0.
        destruct (niecesPresent T nd (gp T r (N.lxor x 1))); [exact F2|].
        rewrite nodes_get_del, N.eqb_refl. reflexivity.
    Qed.
  End View.
  Arguments v_T63 {V RT T} _.
  Arguments v_fun {V RT T} _ {r o h1 l1 h2 l2} _ _.
  Arguments v_valid {V RT T} _ {r o h l} _.
  Arguments v_root {V RT T} _ {r o} _.
  Arguments v_par {V RT T} _ {r o h l} _ _.
  Arguments g_nodup {V RT R T nd ca} _.
  Arguments g_true {V RT R T nd ca} _ p h b _.
  Arguments g_cR {V RT R T nd ca} _ h.
  Arguments g_cpos {V RT R T nd ca} _ h p _.
  Arguments g_Rin {V RT R T nd ca} _ h _.
  Arguments g_roots {V RT R T nd ca} _ {r o} _.
  Arguments g_tgt {V RT R T nd ca} _ {r o h} _ _.
  Arguments g_sibs {V RT R T nd ca} _ {r o} _ _.

  (** the invariant only depends on the extension of the view *)
  Lemma known_ext (V V' : nat -> N -> H -> bool -> Prop) (RT RT' : nat -> N -> Prop) R :
    (forall r o h, V r o h true -> V' r o h true) -> (forall r o, RT' r o -> RT r o) ->
    forall r o, known V RT R r o -> known V' RT' R r o.
  Proof.
    intros HVV HRT r o Hk. induction Hk as [r o h Hv Hh|r o _ IH Hn].
    - exact (kn_leaf V' RT' R r o h (HVV _ _ _ Hv) Hh).
    - apply kn_up; [exact IH|]. intros C. exact (Hn (HRT _ _ C)).
  Qed.

  Lemma GInv_ext (V V' : nat -> N -> H -> bool -> Prop) (RT RT' : nat -> N -> Prop) R T nd ca :
    (forall r o h l, V r o h l <-> V' r o h l) -> (forall r o, RT r o <-> RT' r o) ->
    GInv V RT R T nd ca -> GInv V' RT' R T nd ca.
  Proof.
    intros HVV HRT G. constructor.
    - exact (g_nodup G).
    - intros p h b Hin. destruct (g_true G _ _ _ Hin) as (r & o & l & E & Hv).
      exists r, o, l. split; [exact E|apply HVV, Hv].
    - exact (g_cR G).
    - intros h p Hin. destruct (g_cpos G _ _ Hin) as (r & o & Hv & E).
      exists r, o. split; [apply HVV, Hv|exact E].
    - intros h Hh. destruct (g_Rin G _ Hh) as (r & o & Hv). exists r, o. apply HVV, Hv.
    - intros r o Hr. apply (g_roots G). apply HRT, Hr.
    - intros r o h Hv Hh. apply (g_tgt G); [apply HVV, Hv|exact Hh].
    - intros r o Hk Hn. apply (g_sibs G).
      + apply (known_ext V' V RT' RT R); [intros ? ? ? A; apply HVV, A|intros ? ? A; apply HRT, A|exact Hk].
      + intros C. apply Hn, HRT, C.
  Qed.

  Lemma Vok_ext (V V' : nat -> N -> H -> bool -> Prop) (RT RT' : nat -> N -> Prop) T :
    (forall r o h l, V r o h l <-> V' r o h l) -> (forall r o, RT r o <-> RT' r o) ->
    Vok V RT T -> Vok V' RT' T.
  Proof.
    intros HVV HRT K. constructor.
    - exact (v_T63 K).
    - intros r o h1 l1 h2 l2 A B. apply HVV in A, B. exact (v_fun K A B).
    - intros r o h l A. apply HVV in A. exact (v_valid K A).
    - intros r o A. apply HRT in A. destruct (v_root K A) as (h & l & B). exists h, l. apply HVV, B.
    - intros r o h l A B. apply HVV in A. assert (B' : ~ RT r o) by (intros C; apply B, HRT, C).
      destruct (v_par K A B') as (h' & l' & C). exists h', l'. apply HVV, C.
  Qed.

  (** ** the view of the layout of a slot list *)
  Definition Vlay (s : slots H) (r : nat) (o : N) (h : H) (l : bool) : Prop :=
    exists x, In x (layout HO s) /\ nrow x = r /\ noff x = o /\ nhash x = h /\ nleaf x = l.
  Definition RTlay (s : slots H) (r : nat) (o : N) : Prop :=
    exists x, In x (layout HO s) /\ nroot x = true /\ nrow x = r /\ noff x = o.

  Lemma Vlay_node s x : In x (layout HO s) -> Vlay s (nrow x) (noff x) (nhash x) (nleaf x).
  Proof. intros Hx. exists x. auto. Qed.

  Lemma Vlay_tnode s r o h l : Vlay s r o h l ->
    exists x, tnode HO s r o = Some x /\ nhash x = h /\ nleaf x = l.
  Proof.
    intros (x & Hx & <- & <- & Eh & El). exists x. split; [apply tnode_in, Hx|auto].
  Qed.

  Lemma Vlay_ok s T : N.of_nat (length s) <= 2 ^ T -> T <= 63 -> Vok (Vlay s) (RTlay s) T.
  Proof.
    intros HnT HT. constructor.
    - exact HT.
    - intros r o h1 l1 h2 l2 A B. apply Vlay_tnode in A as (x & Ex & <- & <-).
      apply Vlay_tnode in B as (y & Ey & <- & <-). rewrite Ex in Ey. injection Ey as <-. auto.
    - intros r o h l (x & Hx & <- & <- & _).
      destruct (layout_coords_rows H HO s x (N.to_nat T) Hx) as [Hr Ho].
      + rewrite N2Nat.id. exact HnT.
      + rewrite N2Nat.id in Ho. split; [lia|exact Ho].
    - intros r o (x & Hx & _ & <- & <-). exists (nhash x), (nleaf x). apply Vlay_node, Hx.
    - intros r o h l (x & Hx & <- & <- & _) Hn.
      assert (Hnr : nroot x = false).
      { destruct (nroot x) eqn:E; [|reflexivity]. exfalso. apply Hn. exists x. auto. }
      destruct (node_parent H HO s _ _ x (tnode_in H HO s x Hx) Hnr) as (p & Hp & _).
      apply tnode_some in Hp as (Hpin & Er & Eo). exists (nhash p), (nleaf p).
      exists p. auto.
  Qed.

  (** for the layout view the abstract invariant gives [consistent] *)
  Theorem GInv_consistent s R m :
    ms_n m = num_leaves s -> ms_n m <= 2 ^ 63 -> TreeRows (ms_n m) <= ms_total m ->
    ms_total m <= 63 -> NoDup (live s) ->
    GInv (Vlay s) (RTlay s) R (ms_total m) (ms_nodes m) (ms_cached m) ->
    consistent HO s R m.
  Proof.
    intros En En63 Hrows HT Hnd G.
    assert (Hn63 : N.of_nat (length s) <= 2 ^ 63) by (unfold num_leaves in En; lia).
    assert (Hleaf : forall h x, In x (layout HO s) -> nleaf x = true -> nhash x = h ->
              find_leaf HO (layout HO s) h = Some x).
    { intros h x Hx Hl Hh.
      destruct (find_leaf_ex H HO (layout HO s) h HOK) as [y Hy]; [exists x; auto|].
      rewrite Hy. f_equal. destruct (find_leaf_spec H HO HOK _ _ _ Hy) as (Hyin & Hyl & Hyh).
      apply (live_leaf_unique H HO s y x Hnd); auto. congruence. }
    constructor; try assumption.
    - intros p h b Hin. destruct (g_true G _ _ _ Hin) as (r & o & l & -> & Hv).
      exists r, o. split; [reflexivity|]. apply Vlay_tnode in Hv as (x & Ex & <- & _).
      apply thash_some. exists x. auto.
    - intros h Hh. destruct (g_Rin G _ Hh) as (r & o & x & Hx & _ & _ & <- & Hl).
      apply (layout_leaf_live H HO); assumption.
    - exact (g_cR G).
    - intros h p Hin. destruct (g_cpos G _ _ Hin) as (r & o & (x & Hx & <- & <- & Hh & Hl) & ->).
      exists x. split; [apply Hleaf; assumption|reflexivity].
    - intros x Hx Hr. unfold stored. apply (g_roots G). exists x. auto.
    - intros ts Hts x Hx.
      apply (RefTheory.find_leaves_In H HO _ _ _ Hts) in Hx as (h & Hh & Hx).
      destruct (find_leaf_spec H HO HOK _ _ _ Hx) as (Hxin & Hxl & Hxh).
      unfold stored. rewrite (g_tgt G (r := nrow x) (o := noff x) (h := h)); [discriminate| |exact Hh].
      exists x. auto.
    - intros ts Hts c Hc Hr. unfold stored, sib_coord. cbn [fst snd].
      apply (g_sibs G).
      + (* members of the known set are known *)
        apply RefTheory.known_set_In in Hc as (x & Hx & Hc).
        apply (RefTheory.find_leaves_In H HO _ _ _ Hts) in Hx as (h & Hh & Hx).
        destruct (find_leaf_spec H HO HOK _ _ _ Hx) as (Hxin & Hxl & Hxh).
        assert (Hk0 : known (Vlay s) (RTlay s) R (nrow x) (noff x)).
        { apply (kn_leaf _ _ _ _ _ h); [|exact Hh]. exists x. auto. }
        assert (Hgen : forall f y d, In y (layout HO s) ->
                  known (Vlay s) (RTlay s) R (nrow y) (noff y) ->
                  In d (path_up f (layout HO s) (nrow y) (noff y) (ntree y)) ->
                  known (Vlay s) (RTlay s) R (fst d) (snd d)).
        { induction f as [|f IH]; intros y d Hy Hk Hd.
          - destruct Hd as [<-|[]]. exact Hk.
          - cbn [path_up] in Hd. destruct Hd as [<-|Hd]; [exact Hk|].
            destruct (Nat.ltb_spec (nrow y) (ntree y)) as [Hlt|_]; [|destruct Hd].
            apply (nonroot_iff_row H HO s Hn63 y Hy) in Hlt.
            destruct (node_parent H HO s _ _ y (tnode_in H HO s y Hy) Hlt) as (p & Hp & _ & Ept & _).
            apply tnode_some in Hp as (Hpin & Epr & Epo).
            rewrite <- Epr, <- Epo, <- Ept in Hd. apply (IH p d Hpin); [|exact Hd].
            rewrite Epr, Epo. apply kn_up; [exact Hk|].
            intros (z & Hz & Hzr & Er & Eo).
            rewrite (node_coord_eq H HO s z y Hz Hy Er Eo) in Hzr. congruence. }
        exact (Hgen 64%nat x c Hxin Hk0 Hc).
      + intros (z & Hz & Hzr & Er & Eo).
        assert (Ez : tnode HO s (fst c) (snd c) = Some z)
          by (rewrite <- Er, <- Eo; apply tnode_in, Hz).
        rewrite (is_root_coord_node H HO s c z Ez) in Hr. congruence.
  Qed.
End Abstract.
Arguments Vlay {H} HO s r o h l.
Arguments RTlay {H} HO s r o.
Arguments known {H} V RT R _ _.
Arguments GInv {H} V RT R T nd ca.
Arguments Vok {H} V RT T.
Arguments v_T63 {H V RT T} _.
Arguments v_fun {H V RT T} _ {r o h1 l1 h2 l2} _ _.
Arguments v_valid {H V RT T} _ {r o h l} _.
Arguments v_root {H V RT T} _ {r o} _.
Arguments v_par {H V RT T} _ {r o h l} _ _.
Arguments g_nodup {H V RT R T nd ca} _.
Arguments g_true {H V RT R T nd ca} _ p h b _.
Arguments g_cR {H V RT R T nd ca} _ h.
Arguments g_cpos {H V RT R T nd ca} _ h p _.
Arguments g_Rin {H V RT R T nd ca} _ h _.
Arguments g_roots {H V RT R T nd ca} _ {r o} _.
Arguments g_tgt {H V RT R T nd ca} _ {r o h} _ _.
Arguments g_sibs {H V RT R T nd ca} _ {r o} _ _.

(** * Part 3a: the view of a list of placed trees *)
Section Entries.
  Variable H : Type.
  Variable HO : ops H.
  Notation entry := (nat * N * option (ctree H))%type.

  Definition Vent (F : list entry) (r : nat) (o : N) (h : H) (l : bool) : Prop :=
    exists e x, In e F /\ In x (place_entry HO e) /\
                nrow x = r /\ noff x = o /\ nhash x = h /\ nleaf x = l.
  Definition RTent (F : list entry) (r : nat) (o : N) : Prop :=
    exists k lo t, In (k, lo, t) F /\ r = k /\ o = lo / p2 k.

  (** every tree starts at a multiple of its size and ends within [2^T] slots; the trees are
      pairwise disjoint *)
  Definition ewf (F : list entry) (T : N) : Prop :=
    (forall k lo t, In (k, lo, t) F -> exists q, lo = q * p2 k /\ (q + 1) * p2 k <= 2 ^ T) /\
    (forall k1 lo1 t1 k2 lo2 t2, In (k1, lo1, t1) F -> In (k2, lo2, t2) F ->
       (k1, lo1, t1) = (k2, lo2, t2) \/ lo1 + p2 k1 <= lo2 \/ lo2 + p2 k2 <= lo1).

  Lemma hi_valid T r o : (o + 1) * p2 r <= 2 ^ T -> N.of_nat r <= T /\ o < 2 ^ (T - N.of_nat r).
  Proof.
    intros Hv. pose proof (p2_pos r) as Hp.
    assert (Hge : p2 r <= (o + 1) * p2 r) by nia.
    assert (Hr : N.of_nat r <= T).
    { destruct (N.le_gt_cases (N.of_nat r) T) as [Hle|Hgt]; [exact Hle|exfalso].
      assert (2 ^ (T + 1) <= p2 r) by (unfold p2; apply UtilsGeom.pow2_le; lia).
      rewrite UtilsGeom.pow2_S in *. pose proof (UtilsGeom.pow2_pos T). lia. }
    split; [exact Hr|].
    assert (E : 2 ^ T = 2 ^ (T - N.of_nat r) * p2 r).
    { unfold p2. rewrite <- N.pow_add_r. f_equal. lia. }
    rewrite E in Hv. apply N.mul_le_mono_pos_r in Hv; [lia|exact Hp].
  Qed.

  Lemma head_in_entry k lo t :
    exists x, In x (place_entry HO (k, lo, t)) /\ nrow x = k /\ noff x = lo / p2 k.
  Proof.
    cbn [place_entry]. fold (p2 k). destruct t as [c|].
    - exists (head_node H c k (lo / p2 k) true k). split; [apply place_tree_head_in|auto].
    - eexists. split; [left; reflexivity|auto].
  Qed.

  Lemma Vent_ok F T : ewf F T -> T <= 63 -> Vok (Vent F) (RTent F) T.
  Proof.
    intros [Hal Hdis] HT. constructor.
    - exact HT.
    - intros r o h1 l1 h2 l2 ([[k1 lo1] t1] & x & He1 & Hx & <- & <- & <- & <-)
        ([[k2 lo2] t2] & y & He2 & Hy & Er & Eo & <- & <-).
      destruct (Hal _ _ _ He1) as (q1 & Eq1 & _). destruct (Hal _ _ _ He2) as (q2 & Eq2 & _).
      destruct (place_entry_range H HO _ _ _ _ _ Eq1 Hx) as (_ & X1 & X2).
      destruct (place_entry_range H HO _ _ _ _ _ Eq2 Hy) as (_ & Y1 & Y2).
      destruct (Hdis _ _ _ _ _ _ He1 He2) as [E|[D|D]].
      + injection E as <- <- <-.
        assert (x = y); [|subst; auto].
        apply (NoDup_map_inj_in _ _ (@coord H) (place_entry HO (k1, lo1, t1)));
          [apply place_entry_nodup|exact Hx|exact Hy|unfold coord; congruence].
      + exfalso. apply (coord_sep H x y (lo1 + p2 k1)); [exact X2|lia|unfold coord; congruence].
      + exfalso. apply (coord_sep H y x (lo2 + p2 k2)); [exact Y2|lia|unfold coord; congruence].
    - intros r o h l ([[k lo] t] & x & He & Hx & <- & <- & _).
      destruct (Hal _ _ _ He) as (q & Eq & Hq).
      destruct (place_entry_range H HO _ _ _ _ _ Eq Hx) as (_ & _ & X2).
      apply hi_valid. unfold nhi in X2. lia.
    - intros r o (k & lo & t & He & -> & ->).
      destruct (head_in_entry k lo t) as (x & Hx & Er & Eo).
      exists (nhash x), (nleaf x), (k, lo, t), x. repeat split; assumption.
    - intros r o h l ([[k lo] t] & x & He & Hx & <- & <- & _) Hn.
      destruct (Hal _ _ _ He) as (q & Eq & _).
      pose proof Hx as Hx'. rewrite (place_entry_eq H HO k lo t q Eq) in Hx'.
      assert (Eq' : lo / p2 k = q) by (rewrite Eq; apply N.div_mul; pose proof (p2_pos k); lia).
      destruct t as [c|].
      + destruct (place_tree_parent H c _ _ _ _ _ Hx') as [Ex|(p & Hp & _ & Epr & Epo)].
        * exfalso. apply Hn. exists k, lo, (Some c). rewrite Ex, Eq'. cbn. auto.
        * exists (nhash p), (nleaf p), (k, lo, Some c), p.
          rewrite (place_entry_eq H HO k lo _ q Eq). repeat split; assumption.
      + destruct Hx' as [Ex|[]]. exfalso. apply Hn. exists k, lo, None.
        rewrite <- Ex, Eq'. cbn. auto.
  Qed.

  Lemma Vent_ext F F' : (forall e, In e F <-> In e F') ->
    (forall r o h l, Vent F r o h l <-> Vent F' r o h l) /\ (forall r o, RTent F r o <-> RTent F' r o).
  Proof.
    intros E. split.
    - intros r o h l. split; intros (e & x & He & Hx); exists e, x; (split; [apply E, He|exact Hx]).
    - intros r o. split; intros (k & lo & t & He & Hx); exists k, lo, t; (split; [apply E, He|exact Hx]).
  Qed.

  (** the layout of a slot list is the view of its forest *)
  Lemma Vlay_Vent s r o h l : Vlay HO s r o h l <-> Vent (forest HO s) r o h l.
  Proof.
    unfold Vlay, Vent, layout. split.
    - intros (x & Hx & E). apply in_flat_map in Hx as (e & He & Hx). exists e, x. auto.
    - intros (e & x & He & Hx & E). exists x. split; [|exact E]. apply in_flat_map. exists e. auto.
  Qed.

  Lemma RTlay_RTent s r o : RTlay HO s r o <-> RTent (forest HO s) r o.
  Proof.
    unfold RTlay, RTent. split.
    - intros (x & Hx & Hr & <- & <-).
      destruct (root_node_conv H HO s x Hx Hr) as (k & lo & t & He & Ek & Eo & _).
      exists k, lo, t. unfold p2. auto.
    - intros (k & lo & t & He & -> & ->).
      destruct (root_node H HO s k lo t He) as (_ & _ & _ & x & Hx & Hr & _).
      apply tnode_some in Hx as (Hx & Er & Eo). exists x. unfold p2. auto.
  Qed.

  Lemma forest_ewf s T : N.of_nat (length s) <= 2 ^ T -> ewf (forest HO s) T.
  Proof.
    intros HnT. split.
    - intros k lo t He. destruct (forest_entry H HO s k lo t He) as (_ & _ & E2 & L1 & _).
      exists (2 * (N.of_nat (length s) / p2 (S k))). split; [exact E2|]. lia.
    - intros k1 lo1 t1 k2 lo2 t2 H1 H2.
      destruct (Nat.lt_trichotomy k1 k2) as [Hlt|[Heq|Hgt]].
      + right. right. exact (forest_entries_disjoint H HO s _ _ _ _ _ _ H2 H1 Hlt).
      + subst k2. left. destruct (forest_entry_unique H HO s _ _ _ _ _ H1 H2) as [-> ->].
        reflexivity.
      + right. left. exact (forest_entries_disjoint H HO s _ _ _ _ _ _ H1 H2 Hgt).
  Qed.
End Entries.
Arguments Vent {H} HO F r o h l.
Arguments RTent {H} F r o.
Arguments ewf {H} F T.

(** * Part 3b: the forest of [s ++ [Some a]] *)
Section Append.
  Variable H : Type.
  Variable HO : ops H.
  Notation entry := (nat * N * option (ctree H))%type.

  (** membership in the forest of a slot list, by inequalities *)
  Lemma fs_mem (S : slots H) k lo t :
    In (k, lo, t) (forest HO S) <->
    (exists q, lo = q * p2 (Datatypes.S k)) /\ lo + p2 k <= N.of_nat (length S) /\
    N.of_nat (length S) < lo + p2 (Datatypes.S k) /\
    t = compress HO k (skipn (N.to_nat lo) S).
  Proof.
    split.
    - intros He. destruct (forest_entry H HO S k lo t He) as (_ & E1 & _ & L1 & U1 & Et).
      split; [eexists; exact E1|auto].
    - intros ((q & Eq) & L1 & U1 & Et). subst lo.
      destruct (seg_bit _ q k L1 U1) as [Hb Hq].
      destruct (forest_bit_entry H HO S k Hb) as (lo2 & t2 & Hnth). apply nth_error_In in Hnth.
      destruct (forest_entry H HO S k lo2 t2 Hnth) as (_ & E1 & _ & _ & _ & Et2).
      rewrite <- Hq in E1. subst lo2. rewrite Et, <- Et2. exact Hnth.
  Qed.

  (** [compress] of a segment that ends inside the list does not see what is appended *)
  Lemma compress_app_irrel k lo (S l : slots H) : (lo + 2 ^ k <= length S)%nat ->
    compress HO k (skipn lo (S ++ l)) = compress HO k (skipn lo S).
  Proof.
    intros Hle. rewrite <- (compress_firstn H HO k (2 ^ k) (skipn lo (S ++ l))) by lia.
    rewrite <- (compress_firstn H HO k (2 ^ k) (skipn lo S)) by lia.
    rewrite skipn_app, firstn_app, skipn_length.
    replace (2 ^ k - (length S - lo))%nat with 0%nat by lia. cbn [firstn]. rewrite app_nil_r.
    reflexivity.
  Qed.

  Variables (s : slots H) (a : H).
  Notation len := (length s).
  Notation n := (N.of_nat (length s)).
  Notation s' := (s ++ [Some a]).

  (** the low [h] bits of the leaf count are set *)
  Definition al (h : nat) : Prop := exists m, n + 1 = m * p2 h.
  (** the climbing tree of row [h]: the last [2^h] slots of [s'] *)
  Definition cl (h : nat) : option (ctree H) := compress HO h (skipn (len + 1 - 2 ^ h) s').
  Definition Lh (h : nat) : N := n + 1 - p2 h.
  Definition Fold (h : nat) : list entry :=
    filter (fun e : entry => (h <=? fst (fst e))%nat) (forest HO s).
  Definition Fh (h : nat) : list entry := Fold h ++ [(h, Lh h, cl h)].

  Lemma al_0 : al 0.
  Proof. exists (n + 1). rewrite p2_0. lia. Qed.

  Lemma al_bit h m : n + 1 = m * p2 h -> N.b2n (N.testbit n (N.of_nat h)) = (m - 1) mod 2.
  Proof.
    intros E. rewrite N.testbit_spec'. fold (p2 h). pose proof (p2_pos h) as Hp.
    assert (m <> 0) by (intros ->; lia).
    rewrite (N.div_unique n (p2 h) (m - 1) (p2 h - 1)); [reflexivity|lia|nia].
  Qed.

  Lemma al_S h : al h -> N.testbit n (N.of_nat h) = true -> al (S h).
  Proof.
    intros [m E] Hb. pose proof (al_bit h m E) as Hm. rewrite Hb in Hm. cbn [N.b2n] in Hm.
    pose proof (N.div_mod' (m - 1) 2) as Hdm. assert (m <> 0) by (intros ->; lia).
    exists ((m - 1) / 2 + 1). rewrite p2_S. nia.
  Qed.

  Lemma al_odd h : al h -> N.testbit n (N.of_nat h) = false -> exists u, n + 1 = (2 * u + 1) * p2 h.
  Proof.
    intros [m E] Hb. pose proof (al_bit h m E) as Hm. rewrite Hb in Hm. cbn [N.b2n] in Hm.
    pose proof (N.div_mod' (m - 1) 2) as Hdm. assert (m <> 0) by (intros ->; lia).
    exists ((m - 1) / 2). replace (2 * ((m - 1) / 2) + 1) with m by lia. exact E.
  Qed.

  Lemma al_S_inv h : al (S h) -> al h /\ N.testbit n (N.of_nat h) = true.
  Proof.
    intros [m E]. rewrite p2_S in E. split; [exists (2 * m); lia|].
    pose proof (al_bit h (2 * m) ltac:(lia)) as Hm. assert (m <> 0) by (intros ->; lia).
    replace (2 * m - 1) with (1 + (m - 1) * 2) in Hm by lia.
    rewrite N.mod_add in Hm by lia. change (1 mod 2) with 1 in Hm.
    destruct (N.testbit n (N.of_nat h)); [reflexivity|discriminate].
  Qed.

  Lemma al_le h : al h -> (2 ^ h <= len + 1)%nat.
  Proof.
    intros [m E]. pose proof (p2_nat h) as Hp. assert (m <> 0) by (intros ->; lia). nia.
  Qed.

  Lemma Lh_nat h : N.to_nat (Lh h) = (len + 1 - 2 ^ h)%nat.
  Proof. unfold Lh. pose proof (p2_nat h). lia. Qed.

  Lemma Lh_al h m : n + 1 = m * p2 h -> Lh h = (m - 1) * p2 h /\ m <> 0.
  Proof.
    intros E. pose proof (p2_pos h). assert (m <> 0) by (intros ->; lia).
    split; [unfold Lh; nia|assumption].
  Qed.

  (** the tree of row [h] of [s], when the bits [0 .. h] are set *)
  Definition oldt (h : nat) : option (ctree H) := compress HO h (skipn (N.to_nat (Lh (S h))) s).

  Lemma old_entry h : al (S h) -> In (h, Lh (S h), oldt h) (forest HO s).
  Proof.
    intros [m E]. apply fs_mem. destruct (Lh_al _ _ E) as [EL Hm]. rewrite EL.
    pose proof (p2_pos h) as Hp. rewrite p2_S in *.
    split; [exists (m - 1); reflexivity|]. split; [nia|]. split; [nia|].
    unfold oldt. rewrite EL. reflexivity.
  Qed.

  Lemma old_entry_unique h lo t : al (S h) -> In (h, lo, t) (forest HO s) ->
    lo = Lh (S h) /\ t = oldt h.
  Proof.
    intros Ha He. exact (forest_entry_unique H HO s _ _ _ _ _ He (old_entry h Ha)).
  Qed.

  Lemma cl_0 : cl 0 = Some (CLeaf a).
  Proof.
    unfold cl. change (2 ^ 0)%nat with 1%nat. replace (len + 1 - 1)%nat with len by lia.
    rewrite skipn_app, Nat.sub_diag, skipn_all. reflexivity.
  Qed.

  Lemma cl_S h : al (S h) -> cl (S h) = join HO (oldt h) (cl h).
  Proof.
    intros Ha. pose proof (al_le _ Ha) as Hle. unfold cl, oldt. rewrite Lh_nat.
    rewrite Nat.pow_succ_r' in *. remember (len + 1 - 2 * 2 ^ h)%nat as A eqn:EA.
    pose proof (StumpAdd.pow2_pos h) as Hp.
    rewrite (compress_S H HO h (skipn A s')). f_equal.
    - rewrite (compress_firstn H HO h (2 ^ h) (skipn A s')) by lia.
      apply compress_app_irrel. lia.
    - rewrite <- skipn_add. do 2 f_equal. lia.
  Qed.

  Lemma cl_some h : al h -> exists C, cl h = Some C.
  Proof.
    induction h as [|h IH]; intros Ha; [exists (CLeaf a); exact cl_0|].
    destruct (al_S_inv h Ha) as [Ha' _]. destruct (IH Ha') as [C EC].
    rewrite (cl_S h Ha), EC. destruct (oldt h) as [c|]; cbn [join]; eauto.
  Qed.

  Lemma In_Fold h (e : entry) : In e (Fold h) <-> In e (forest HO s) /\ (h <= fst (fst e))%nat.
  Proof. unfold Fold. rewrite filter_In, Nat.leb_le. reflexivity. Qed.

  Lemma In_Fh h (e : entry) : In e (Fh h) <-> In e (Fold h) \/ e = (h, Lh h, cl h).
  Proof. unfold Fh. rewrite in_app_iff. cbn [In]. intuition congruence. Qed.

  Lemma Fold_split h (e : entry) : al (S h) ->
    (In e (Fold h) <-> In e (Fold (S h)) \/ e = (h, Lh (S h), oldt h)).
  Proof.
    intros Ha. rewrite !In_Fold. destruct e as [[k lo] t]. cbn [fst]. split.
    - intros [He Hk]. destruct (Nat.eq_dec k h) as [->|Hne]; [right|left; split; [exact He|lia]].
      destruct (old_entry_unique h lo t Ha He) as [-> ->]. reflexivity.
    - intros [[He Hk]|E]; [split; [exact He|lia]|]. injection E as -> -> ->.
      split; [exact (old_entry h Ha)|lia].
  Qed.

  Lemma Fold_exit j (e : entry) : N.testbit n (N.of_nat j) = false ->
    (In e (Fold j) <-> In e (Fold (S j))).
  Proof.
    intros Hb. rewrite !In_Fold. destruct e as [[k lo] t]. cbn [fst]. split.
    - intros [He Hk]. split; [exact He|]. destruct (Nat.eq_dec k j) as [->|Hne]; [|lia].
      destruct (forest_entry H HO s _ _ _ He) as (Hb' & _). congruence.
    - intros [He Hk]. split; [exact He|lia].
  Qed.

  Lemma len_s' : N.of_nat (length s') = n + 1.
  Proof. rewrite app_length. cbn [length]. lia. Qed.

  Lemma p2_gap k j : (j < k)%nat -> exists w, p2 k = 2 * w * p2 j /\ 0 < w.
  Proof.
    intros Hlt. exists (p2 (k - j - 1)). split; [|apply p2_pos].
    replace k with (S (k - j - 1) + j)%nat at 1 by lia. rewrite p2_add, p2_S. lia.
  Qed.

  (** the forest of [s'] when [j] is the lowest clear bit of the leaf count of [s] *)
  Theorem forest_snoc_Fh j (e : entry) : al j -> N.testbit n (N.of_nat j) = false ->
    (In e (forest HO s') <-> In e (Fh j)).
  Proof.
    intros Ha Hb. destruct (al_odd j Ha Hb) as [u Eu]. pose proof (p2_pos j) as Hpj.
    destruct e as [[k lo] t]. rewrite fs_mem, len_s', In_Fh, In_Fold. cbn [fst].
    pose proof (p2_pos k) as Hpk. pose proof (p2_S k) as HS.
    split.
    - intros ((q & Eq) & L1 & U1 & Et).
      destruct (Nat.lt_trichotomy k j) as [Hlt|[->|Hgt]].
      + exfalso. rewrite (p2_split j (S k)) in Eu by lia.
        set (M := (2 * u + 1) * p2 (j - S k)) in *.
        assert (EM : n + 1 = M * p2 (S k)) by (unfold M; lia).
        clearbody M. clear Eu. rewrite EM in L1, U1. rewrite Eq, HS in L1, U1.
        assert (HM : M < q + 1) by nia.
        assert (M * (2 * p2 k) <= q * (2 * p2 k)) by (apply N.mul_le_mono_r; lia). lia.
      + right. assert (q = u) by nia. subst q.
        assert (EL : lo = Lh j) by (unfold Lh; nia). rewrite Et, EL. f_equal.
        unfold cl. rewrite Lh_nat. reflexivity.
      + left. destruct (p2_gap k j Hgt) as (w & Ew & Hw).
        assert (Hne : lo + p2 k <> n + 1).
        { intros E. rewrite Eq, HS, Ew, Eu in E.
          assert (E' : (2 * q + 1) * (2 * w) * p2 j = (2 * u + 1) * p2 j) by lia.
          apply N.mul_cancel_r in E'; [|lia]. set (z := (2 * q + 1) * w) in *.
          assert ((2 * q + 1) * (2 * w) = 2 * z) by (unfold z; lia). lia. }
        split; [|lia]. apply fs_mem. split; [exists q; exact Eq|]. split; [lia|]. split; [lia|].
        rewrite Et. apply compress_app_irrel. pose proof (p2_nat k). lia.
    - intros [[He Hk]|E].
      + apply fs_mem in He as ((q & Eq) & L1 & U1 & Et).
        assert (Hgt : (j < k)%nat).
        { destruct (Nat.eq_dec k j) as [->|Hne]; [|lia]. exfalso.
          destruct (seg_bit _ q j ltac:(rewrite <- Eq; exact L1) ltac:(rewrite <- Eq; exact U1)) as [Hb' _].
          congruence. }
        destruct (p2_gap k j Hgt) as (w & Ew & Hw).
        assert (Hne : lo + p2 (S k) <> n + 1).
        { intros E. rewrite Eq, HS, Ew, Eu in E.
          assert (E' : (q + 1) * (2 * (2 * w)) * p2 j = (2 * u + 1) * p2 j) by lia.
          apply N.mul_cancel_r in E'; [|lia]. set (z := (q + 1) * (2 * w)) in *.
          assert ((q + 1) * (2 * (2 * w)) = 2 * z) by (unfold z; lia). lia. }
        split; [exists q; exact Eq|]. split; [lia|]. split; [lia|].
        rewrite Et. symmetry. apply compress_app_irrel. pose proof (p2_nat k). lia.
      + injection E as -> -> ->. rewrite p2_S.
        assert (EL : Lh j = 2 * u * p2 j) by (unfold Lh; nia). rewrite EL.
        split; [exists u; lia|]. split; [lia|]. split; [lia|].
        unfold cl. rewrite <- EL, Lh_nat. reflexivity.
  Qed.

  (** the trees met by the loop are well placed *)
  Lemma Fh_ewf h T : al h -> n + 1 <= 2 ^ T -> ewf (Fh h) T.
  Proof.
    intros [m E] HnT. destruct (Lh_al _ _ E) as [EL Hm]. pose proof (p2_pos h) as Hph.
    destruct (forest_ewf H HO s T ltac:(lia)) as [Hal Hdis].
    assert (Hsep : forall k lo t, In (k, lo, t) (Fold h) -> lo + p2 k <= Lh h).
    { intros k lo t He. apply In_Fold in He as [He Hk]. cbn [fst] in Hk.
      destruct (forest_entry H HO s _ _ _ He) as (_ & _ & E2 & L1 & _).
      rewrite (p2_split k h Hk) in *. set (c := 2 * (n / p2 (S k)) * p2 (k - h) + p2 (k - h)) in *.
      assert (Ec : lo + p2 (k - h) * p2 h = c * p2 h) by (unfold c; lia).
      rewrite Ec in *. rewrite EL. apply N.mul_le_mono_r.
      assert (c * p2 h < m * p2 h) by lia. assert (c < m) by nia. lia. }
    split.
    - intros k lo t He. apply In_Fh in He as [He|He].
      + apply In_Fold in He as [He _]. exact (Hal _ _ _ He).
      + injection He as -> -> ->. exists (m - 1). split; [exact EL|].
        replace (m - 1 + 1) with m by lia. lia.
    - intros k1 lo1 t1 k2 lo2 t2 H1 H2. apply In_Fh in H1 as [H1|H1], H2 as [H2|H2].
      + apply In_Fold in H1 as [H1 _], H2 as [H2 _]. exact (Hdis _ _ _ _ _ _ H1 H2).
      + injection H2 as -> -> ->. right. left. exact (Hsep _ _ _ H1).
      + injection H1 as -> -> ->. right. right. exact (Hsep _ _ _ H2).
      + left. congruence.
  Qed.
End Append.
Arguments al {H} s h.
Arguments cl {H} HO s a h.
Arguments Lh {H} s h.
Arguments Fold {H} HO s h.
Arguments Fh {H} HO s a h.
Arguments oldt {H} HO s h.


(** bit removal *)
Lemma rmbit_range q b d o : b <= 1 -> (2 * q + b) * 2 ^ d <= o < (2 * q + b + 1) * 2 ^ d ->
  rmbit o d = o - (q + b) * 2 ^ d.
Proof.
  intros Hb [Hlo Hhi]. unfold rmbit. pose proof (UtilsGeom.pow2_pos d) as Hp.
  set (w := o - (2 * q + b) * 2 ^ d).
  assert (Ew : o = (2 * q + b) * 2 ^ d + w) by (unfold w; lia).
  assert (Hw : w < 2 ^ d) by (unfold w; lia).
  rewrite UtilsGeom.pow2_S.
  assert (E1 : o / (2 * 2 ^ d) = q).
  { symmetry. apply (N.div_unique o (2 * 2 ^ d) q (b * 2 ^ d + w)); [nia|lia]. }
  assert (E2 : o mod 2 ^ d = w).
  { symmetry. apply (N.mod_unique o (2 ^ d) (2 * q + b) w); [exact Hw|lia]. }
  rewrite E1, E2. lia.
Qed.

Lemma div2_odd_aux q : (2 * q + 1) / 2 = q.
Proof. rewrite N.mul_comm, N.div_add_l by lia. change (1 / 2) with 0. lia. Qed.

Lemma rmbit_0 o : rmbit o 0 = o / 2.
Proof. unfold rmbit. change (2 ^ 0) with 1. rewrite N.mod_1_r, N.mul_1_r, N.add_0_r. reflexivity. Qed.

Lemma rmbit_div2 o b : 1 <= b -> rmbit o b / 2 = rmbit (o / 2) (b - 1).
Proof.
  intros Hb. pose proof (N.div_mod' o 2) as Hdm. pose proof (N.mod_lt o 2 ltac:(lia)) as Hm.
  replace b with (b - 1 + 1) at 1 by lia. rewrite Hdm at 1.
  rewrite (StumpAddData.rmbit_child (o / 2) (o mod 2) (b - 1) Hm).
  rewrite N.mul_comm, N.div_add_l by lia. rewrite (N.div_small (o mod 2) 2 Hm). lia.
Qed.

Lemma rmbit_lxor1 o b : 1 <= b -> rmbit (N.lxor o 1) b = N.lxor (rmbit o b) 1.
Proof.
  intros Hb. pose proof (N.div_mod' o 2) as Hdm. pose proof (mod2_even o) as Hm.
  replace b with (b - 1 + 1) by lia.
  assert (E1 : N.lxor o 1 = 2 * (o / 2) + (if N.even o then 1 else 0)).
  { rewrite lxor_1. destruct (N.even o); lia. }
  assert (E2 : o = 2 * (o / 2) + (if N.even o then 0 else 1)) by (destruct (N.even o); lia).
  rewrite E1. rewrite E2 at 3.
  rewrite !StumpAddData.rmbit_child by (destruct (N.even o); lia).
  rewrite lxor_1. replace (2 * rmbit (o / 2) (b - 1) + (if N.even o then 0 else 1))
    with ((if N.even o then 0 else 1) + 2 * rmbit (o / 2) (b - 1)) by lia.
  rewrite N.even_add_mul_2. destruct (N.even o); cbn [N.even]; lia.
Qed.

(** the regions of one step over an empty root at [(h0, 2 q)]: the subtree of the climbing node
    [(h0, 2 q + 1)], the positions below the empty root, the subtree of the new position
    [(h0 + 1, q)]; the move up *)
Definition inSub (h0 : nat) (q : N) (r : nat) (o : N) : Prop :=
  (r <= h0)%nat /\ (2 * q + 1) * p2 (h0 - r) <= o < (2 * q + 2) * p2 (h0 - r).
Definition belowD (h0 : nat) (q : N) (r : nat) (o : N) : Prop :=
  (r <= h0)%nat /\ 2 * q * p2 (h0 - r) <= o < (2 * q + 1) * p2 (h0 - r).
Definition inReg' (h0 : nat) (q : N) (r : nat) (o : N) : Prop :=
  (r <= S h0)%nat /\ q * p2 (S h0 - r) <= o < (q + 1) * p2 (S h0 - r).
Definition upo (h0 : nat) (r : nat) (o : N) : N := rmbit o (N.of_nat h0 - N.of_nat r).

(** * Part 3c: one step of the climb, on the views *)
Section StepView.
  Variable H : Type.
  Variable HO : ops H.
  Notation entry := (nat * N * option (ctree H))%type.
  Notation hash2 := (op_hash2 HO).
  Notation empty := (op_empty HO).

  Definition pj (x : node H) : nat * N * H * bool := (nrow x, noff x, nhash x, nleaf x).

  Lemma place_tree_pj (c : ctree H) : forall r o b tr b' tr',
    map pj (place_tree c r o b tr) = map pj (place_tree c r o b' tr').
  Proof.
    induction c as [h|h l IHl rr IHr]; intros r o b tr b' tr'; cbn [place_tree map]; [reflexivity|].
    unfold pj at 1 3. cbn [nrow noff nhash nleaf]. f_equal.
    destruct r as [|r']; [reflexivity|]. rewrite !map_app.
    rewrite (IHl r' (2 * o) false tr false tr'), (IHr r' (2 * o + 1) false tr false tr').
    reflexivity.
  Qed.

  (** the view of one placed tree *)
  Definition Vpt (c : ctree H) (k : nat) (q : N) (r : nat) (o : N) (h : H) (l : bool) : Prop :=
    In (r, o, h, l) (map pj (place_tree c k q true k)).

  Lemma Vpt_any c k q b tr r o h l :
    Vpt c k q r o h l <-> exists x, In x (place_tree c k q b tr) /\
                                    nrow x = r /\ noff x = o /\ nhash x = h /\ nleaf x = l.
  Proof.
    unfold Vpt. rewrite (place_tree_pj c k q true k b tr), in_map_iff. unfold pj. split.
    - intros (x & E & Hx). injection E as <- <- <- <-. exists x. auto.
    - intros (x & Hx & <- & <- & <- & <-). exists x. auto.
  Qed.

  Lemma Vent_single k lo t r o h l :
    Vent HO [(k, lo, t)] r o h l <->
    match t with
    | Some c => Vpt c k (lo / p2 k) r o h l
    | None => r = k /\ o = lo / p2 k /\ h = empty /\ l = false
    end.
  Proof.
    unfold Vent. split.
    - intros (e & x & [<-|[]] & Hx & Er & Eo & Eh & El). cbn [place_entry] in Hx. fold (p2 k) in Hx.
      destruct t as [c|]; [apply (Vpt_any c k (lo / p2 k) true k); exists x; auto|].
      destruct Hx as [<-|[]]. cbn in *. auto.
    - intros Hv. exists (k, lo, t). cbn [place_entry]. fold (p2 k). destruct t as [c|].
      + apply (Vpt_any c k (lo / p2 k) true k) in Hv as (x & Hx & E). exists x.
        split; [left; reflexivity|auto].
      + destruct Hv as (-> & -> & -> & ->). eexists. split; [left; reflexivity|].
        split; [left; reflexivity|]. cbn. auto.
  Qed.

  Lemma Vent_split (F F1 F2 : list entry) : (forall e, In e F <-> In e F1 \/ In e F2) ->
    forall r o h l, Vent HO F r o h l <-> Vent HO F1 r o h l \/ Vent HO F2 r o h l.
  Proof.
    intros E r o h l. unfold Vent. split.
    - intros (e & x & He & Hx). apply E in He as [He|He]; [left|right]; exists e, x; auto.
    - intros [(e & x & He & Hx)|(e & x & He & Hx)]; exists e, x; (split; [apply E; auto|exact Hx]).
  Qed.

  Lemma RTent_split (F F1 F2 : list entry) : (forall e, In e F <-> In e F1 \/ In e F2) ->
    forall r o, RTent F r o <-> RTent F1 r o \/ RTent F2 r o.
  Proof.
    intros E r o. unfold RTent. split.
    - intros (k & lo & t & He & Hx). apply E in He as [He|He]; [left|right]; exists k, lo, t; auto.
    - intros [(k & lo & t & He & Hx)|(k & lo & t & He & Hx)]; exists k, lo, t;
        (split; [apply E; auto|exact Hx]).
  Qed.

  Lemma RTent_single k lo (t : option (ctree H)) r o : RTent [(k, lo, t)] r o <-> r = k /\ o = lo / p2 k.
  Proof.
    unfold RTent. split.
    - intros (k' & lo' & t' & [E|[]] & -> & ->). injection E as <- <- <-. auto.
    - intros [-> ->]. exists k, lo, t. split; [left; reflexivity|auto].
  Qed.

  (** the view of a joined tree *)
  Lemma Vpt_node x (c C : ctree H) k q r o h l :
    Vpt (CNode x c C) (S k) q r o h l <->
    (r = S k /\ o = q /\ h = x /\ l = false) \/ Vpt c k (2 * q) r o h l \/ Vpt C k (2 * q + 1) r o h l.
  Proof.
    unfold Vpt. cbn [place_tree map]. unfold pj at 1. cbn [nrow noff nhash nleaf In].
    rewrite map_app, in_app_iff.
    rewrite (place_tree_pj c k (2 * q) false (S k) true k).
    rewrite (place_tree_pj C k (2 * q + 1) false (S k) true k).
    split; [intros [E|E]; [left; injection E as <- <- <- <-; auto|right; exact E]|].
    intros [(-> & -> & -> & ->)|E]; [left; reflexivity|right; exact E].
  Qed.

  Variables (s : slots H) (a : H).
  Notation n := (N.of_nat (length s)).

  (** coordinates of one step: [q' = n / 2^(h+1)] *)
  Lemma step_coords h : al s (S h) ->
    Lh s (S h) / p2 (S h) = n / p2 (S h) /\
    Lh s (S h) / p2 h = 2 * (n / p2 (S h)) /\
    Lh s h / p2 h = 2 * (n / p2 (S h)) + 1 /\
    n / p2 h = 2 * (n / p2 (S h)) + 1.
  Proof.
    intros [m E]. pose proof (p2_pos h) as Hp. rewrite p2_S in *.
    assert (Hm : m <> 0) by (intros ->; lia).
    assert (Eq : n / (2 * p2 h) = m - 1).
    { symmetry. apply (N.div_unique n (2 * p2 h) (m - 1) (2 * p2 h - 1)); [lia|nia]. }
    rewrite Eq. unfold Lh. rewrite p2_S.
    assert (E1 : n + 1 - 2 * p2 h = (m - 1) * (2 * p2 h)) by nia.
    assert (E2 : n + 1 - p2 h = (2 * (m - 1) + 1) * p2 h) by nia.
    rewrite E1, E2. split; [apply N.div_mul; lia|].
    split; [replace ((m - 1) * (2 * p2 h)) with (2 * (m - 1) * p2 h) by lia; apply N.div_mul; lia|].
    split; [apply N.div_mul; lia|].
    symmetry. apply (N.div_unique n (p2 h) (2 * (m - 1) + 1) (p2 h - 1)); [lia|nia].
  Qed.

  Lemma Fh_split h (e : entry) : al s (S h) ->
    (In e (Fh HO s a h) <->
     In e (Fold HO s (S h)) \/ In e [(h, Lh s (S h), oldt HO s h); (h, Lh s h, cl HO s a h)]).
  Proof.
    intros Ha. rewrite In_Fh, (Fold_split H HO s h e Ha). cbn [In]. intuition congruence.
  Qed.

  Lemma FhS_split h (e : entry) : al s (S h) ->
    (In e (Fh HO s a (S h)) <->
     In e (Fold HO s (S h)) \/ In e [(S h, Lh s (S h), join HO (oldt HO s h) (cl HO s a h))]).
  Proof.
    intros Ha. rewrite In_Fh, (cl_S H HO s a h Ha). cbn [In]. intuition congruence.
  Qed.

  (** the roots before and after the step *)
  Lemma step_roots_before h r o : al s (S h) ->
    (RTent (Fh HO s a h) r o <->
     RTent (Fold HO s (S h)) r o \/ (r = h /\ o = 2 * (n / p2 (S h))) \/
     (r = h /\ o = 2 * (n / p2 (S h)) + 1)).
  Proof.
    intros Ha. destruct (step_coords h Ha) as (_ & E2 & E3 & _).
    rewrite (RTent_split _ _ _ (fun e => Fh_split h e Ha)).
    rewrite (RTent_split [(h, Lh s (S h), oldt HO s h); (h, Lh s h, cl HO s a h)]
               [(h, Lh s (S h), oldt HO s h)] [(h, Lh s h, cl HO s a h)]).
    2:{ intros e. cbn [In]. tauto. }
    rewrite !RTent_single, E2, E3. tauto.
  Qed.

  Lemma step_roots_after h r o : al s (S h) ->
    (RTent (Fh HO s a (S h)) r o <->
     RTent (Fold HO s (S h)) r o \/ (r = S h /\ o = n / p2 (S h))).
  Proof.
    intros Ha. destruct (step_coords h Ha) as (E1 & _).
    rewrite (RTent_split _ _ _ (fun e => FhS_split h e Ha)), RTent_single, E1. tauto.
  Qed.

  (** case A: the root of row [h] is not empty *)
  Lemma stepA_view h c C r o hh l : al s (S h) -> oldt HO s h = Some c -> cl HO s a h = Some C ->
    (Vent HO (Fh HO s a (S h)) r o hh l <->
     Vent HO (Fh HO s a h) r o hh l \/
     (r = S h /\ o = n / p2 (S h) /\ hh = hash2 (chash c) (chash C) /\ l = false)).
  Proof.
    intros Ha Ec EC. destruct (step_coords h Ha) as (E1 & E2 & E3 & _).
    rewrite (Vent_split _ _ _ (fun e => FhS_split h e Ha)).
    rewrite (Vent_split _ _ _ (fun e => Fh_split h e Ha)).
    rewrite (Vent_split [(h, Lh s (S h), oldt HO s h); (h, Lh s h, cl HO s a h)]
               [(h, Lh s (S h), oldt HO s h)] [(h, Lh s h, cl HO s a h)]).
    2:{ intros e. cbn [In]. tauto. }
    rewrite !Vent_single, Ec, EC. cbn [join]. rewrite Vpt_node, E1, E2, E3. tauto.
  Qed.

  (** case B: the root of row [h] is empty; the climbing tree moves up one row *)
  Definition upc (R0 : nat) (x : nat * N * H * bool) : nat * N * H * bool :=
    let '(rr, oo, hh, l) := x in (S rr, rmbit oo (N.of_nat R0 - N.of_nat rr), hh, l).

  Lemma place_tree_up R0 (c : ctree H) : forall r o b tr b' tr', (r <= R0)%nat -> (cheight H c <= r)%nat ->
    map pj (place_tree c (S r) (rmbit o (N.of_nat R0 - N.of_nat r)) b' tr') =
    map (upc R0) (map pj (place_tree c r o b tr)).
  Proof.
    induction c as [hh|hh l IHl rr IHr]; intros r o b tr b' tr' Hr Hc; cbn [place_tree map];
      [reflexivity|].
    cbn [cheight] in Hc. destruct r as [|r1]; [lia|].
    unfold pj at 1 3. cbn [nrow noff nhash nleaf upc]. f_equal. rewrite !map_app.
    assert (Esub : N.of_nat R0 - N.of_nat r1 = N.of_nat R0 - N.of_nat (S r1) + 1) by lia.
    rewrite <- (IHl r1 (2 * o) false tr false tr') by lia.
    rewrite <- (IHr r1 (2 * o + 1) false tr false tr') by lia.
    rewrite Esub.
    replace (2 * o) with (2 * o + 0) at 1 by lia.
    rewrite !StumpAddData.rmbit_child by lia. rewrite N.add_0_r. reflexivity.
  Qed.

  Lemma Vpt_up (C : ctree H) h q r' o' hh l : (cheight H C <= h)%nat ->
    (Vpt C (S h) q r' o' hh l <->
     exists r o, Vpt C h (2 * q + 1) r o hh l /\ r' = S r /\ o' = upo h r o).
  Proof.
    intros Hc. unfold Vpt.
    assert (Eq : q = rmbit (2 * q + 1) (N.of_nat h - N.of_nat h)).
    { rewrite N.sub_diag, rmbit_0, div2_odd_aux. reflexivity. }
    rewrite Eq at 1.
    rewrite (place_tree_up h C h (2 * q + 1) true h true (S h) (le_n h) Hc), in_map_iff.
    split.
    - intros ([[[r o] k] b] & E & Hin). cbn [upc] in E. injection E as <- <- <- <-.
      exists r, o. auto.
    - intros (r & o & Hin & -> & ->). exists (r, o, hh, l). auto.
  Qed.

  Lemma stepB_view_before h C r o hh l : al s (S h) -> oldt HO s h = None -> cl HO s a h = Some C ->
    (Vent HO (Fh HO s a h) r o hh l <->
     Vent HO (Fold HO s (S h)) r o hh l \/
     (r = h /\ o = 2 * (n / p2 (S h)) /\ hh = empty /\ l = false) \/
     Vpt C h (2 * (n / p2 (S h)) + 1) r o hh l).
  Proof.
    intros Ha Ec EC. destruct (step_coords h Ha) as (E1 & E2 & E3 & _).
    rewrite (Vent_split _ _ _ (fun e => Fh_split h e Ha)).
    rewrite (Vent_split [(h, Lh s (S h), oldt HO s h); (h, Lh s h, cl HO s a h)]
               [(h, Lh s (S h), oldt HO s h)] [(h, Lh s h, cl HO s a h)]).
    2:{ intros e. cbn [In]. tauto. }
    rewrite !Vent_single, Ec, EC, E2, E3. tauto.
  Qed.

  Lemma stepB_view_after h C r o hh l : al s (S h) -> oldt HO s h = None -> cl HO s a h = Some C ->
    (cheight H C <= h)%nat ->
    (Vent HO (Fh HO s a (S h)) r o hh l <->
     Vent HO (Fold HO s (S h)) r o hh l \/
     (exists r0 o0, Vpt C h (2 * (n / p2 (S h)) + 1) r0 o0 hh l /\ r = S r0 /\ o = upo h r0 o0)).
  Proof.
    intros Ha Ec EC Hc. destruct (step_coords h Ha) as (E1 & _).
    rewrite (Vent_split _ _ _ (fun e => FhS_split h e Ha)).
    rewrite Vent_single, Ec, EC. cbn [join]. rewrite E1, (Vpt_up C h _ r o hh l Hc). tauto.
  Qed.

  (** the nodes of the trees of rows above [h] lie left of the climbing tree *)
  Lemma Fold_out h r o hh l : al s (S h) -> Vent HO (Fold HO s (S h)) r o hh l ->
    ~ inReg' h (n / p2 (S h)) r o.
  Proof.
    intros Ha ([[k lo] t] & x & He & Hx & <- & <- & _) [Hr Ho].
    destruct (step_coords h Ha) as (E1 & _). destruct Ha as [m E].
    destruct (Lh_al H s _ _ E) as [EL Hm]. pose proof (p2_pos (S h)) as Hp.
    assert (Eq : n / p2 (S h) = m - 1).
    { rewrite <- E1, EL. apply N.div_mul. lia. }
    rewrite Eq in Ho.
    apply In_Fold in He as [He Hk]. cbn [fst] in Hk.
    destruct (forest_entry H HO s _ _ _ He) as (_ & _ & E2 & L1 & _).
    destruct (place_entry_range H HO k lo t _ x E2 Hx) as (_ & _ & X2).
    (* the tree ends before [Lh (S h)] *)
    assert (Hend : lo + p2 k <= (m - 1) * p2 (S h)).
    { rewrite (p2_split k (S h) Hk) in *.
      set (c := 2 * (N.of_nat (length s) / p2 (S k)) * p2 (k - S h) + p2 (k - S h)) in *.
      assert (Ec : lo + p2 (k - S h) * p2 (S h) = c * p2 (S h)) by (unfold c; lia).
      rewrite Ec in *. apply N.mul_le_mono_r.
      assert (c * p2 (S h) < m * p2 (S h)) by lia. assert (c < m) by nia. lia. }
    unfold nhi in X2. rewrite (p2_split (S h) (nrow x) Hr) in Hend.
    pose proof (p2_pos (nrow x)). nia.
  Qed.

  Lemma Vpt_in_sub (C : ctree H) h q r o hh l : Vpt C h (2 * q + 1) r o hh l -> inSub h q r o.
  Proof.
    intros Hv. apply (Vpt_any C h (2 * q + 1) true h) in Hv as (x & Hx & <- & <- & _).
    destruct (place_tree_range H C _ _ _ _ _ Hx) as (Hr & A & B). split; [exact Hr|].
    unfold nlo, nhi in *. rewrite (p2_split h (nrow x) Hr) in A, B.
    pose proof (p2_pos (nrow x)) as Hp.
    rewrite N.mul_assoc in A, B. apply N.mul_le_mono_pos_r in A; [|exact Hp].
    assert (B' : (noff x + 1) * p2 (nrow x) <= (2 * q + 2) * p2 (h - nrow x) * p2 (nrow x)) by lia.
    apply N.mul_le_mono_pos_r in B'; [|exact Hp]. lia.
  Qed.

  (** the (hash, leaf) pairs of the nodes of a tree *)
  Fixpoint tnodes (c : ctree H) : list (H * bool) :=
    match c with
    | CLeaf h => [(h, true)]
    | CNode h l r => (h, false) :: tnodes l ++ tnodes r
    end.

  Lemma place_tree_tnodes (c : ctree H) : forall k q b tr x, In x (place_tree c k q b tr) ->
    In (nhash x, nleaf x) (tnodes c).
  Proof.
    induction c as [hh|hh l IHl rr IHr]; intros k q b tr x Hin; cbn [place_tree tnodes] in *.
    - destruct Hin as [<-|[]]. left. reflexivity.
    - destruct Hin as [<-|Hin]; [left; reflexivity|]. right. destruct k as [|k']; [destruct Hin|].
      apply in_or_app. apply in_app_or in Hin as [Hin|Hin]; [left; exact (IHl _ _ _ _ _ Hin)|right; exact (IHr _ _ _ _ _ Hin)].
  Qed.

  Lemma tnodes_placed (c : ctree H) : forall k q b tr hh l, (cheight H c <= k)%nat ->
    In (hh, l) (tnodes c) -> exists x, In x (place_tree c k q b tr) /\ nhash x = hh /\ nleaf x = l.
  Proof.
    induction c as [h0|h0 cl0 IHl cr IHr]; intros k q b tr hh l Hc Hin; cbn [place_tree tnodes cheight] in *.
    - destruct Hin as [E|[]]. injection E as <- <-. eexists. split; [left; reflexivity|auto].
    - destruct Hin as [E|Hin]; [injection E as <- <-; eexists; split; [left; reflexivity|auto]|].
      destruct k as [|k']; [lia|]. apply in_app_or in Hin as [Hin|Hin].
      + destruct (IHl k' (2 * q) false tr hh l ltac:(lia) Hin) as (x & Hx & E). exists x.
        split; [right; apply in_or_app; left; exact Hx|exact E].
      + destruct (IHr k' (2 * q + 1) false tr hh l ltac:(lia) Hin) as (x & Hx & E). exists x.
        split; [right; apply in_or_app; right; exact Hx|exact E].
  Qed.

  Lemma Vpt_tnodes (c : ctree H) k q r o hh l : Vpt c k q r o hh l -> In (hh, l) (tnodes c).
  Proof.
    intros Hv. apply (Vpt_any c k q true k) in Hv as (x & Hx & _ & _ & <- & <-).
    exact (place_tree_tnodes c _ _ _ _ x Hx).
  Qed.

  Lemma cl_height h C : cl HO s a h = Some C -> (cheight H C <= h)%nat.
  Proof. intros E. unfold cl in E. exact (proj2 (compress_wf H HO _ _ _ E)). Qed.

  Lemma cl_has_a h C : al s h -> cl HO s a h = Some C -> In a (cleaves H C).
  Proof.
    revert C. induction h as [|h IH]; intros C Ha EC.
    - rewrite cl_0 in EC. injection EC as <-. left. reflexivity.
    - destruct (al_S_inv H s h Ha) as [Ha' _]. destruct (cl_some H HO s a h Ha') as [C0 E0].
      rewrite (cl_S H HO s a h Ha), E0 in EC. specialize (IH C0 Ha' E0).
      destruct (oldt HO s h) as [c|]; cbn [join] in EC; injection EC as <-; [|exact IH].
      cbn [cleaves]. apply in_or_app. right. exact IH.
  Qed.

  (** every node of a climbing tree is a node of the final forest *)
  Lemma cl_final : n + 1 <= 2 ^ 63 -> forall d h C, (64 - h <= d)%nat -> al s h ->
    cl HO s a h = Some C -> forall hh l, In (hh, l) (tnodes C) ->
    exists x, In x (layout HO (s ++ [Some a])) /\ nhash x = hh /\ nleaf x = l.
  Proof.
    intros Hn63. induction d as [|d IH]; intros h C Hd Ha EC hh l Hin.
    - exfalso. destruct Ha as [m E]. assert (m <> 0) by (intros ->; lia).
      assert (p2 h <= 2 ^ 63) by nia. unfold p2 in *.
      assert (2 ^ 63 < 2 ^ N.of_nat h) by (apply UtilsGeom.pow2_lt; lia). lia.
    - destruct (N.testbit n (N.of_nat h)) eqn:Hb.
      + pose proof (al_S H s h Ha Hb) as HaS.
        pose proof (cl_S H HO s a h HaS) as ES. rewrite EC in ES.
        destruct (oldt HO s h) as [c|]; cbn [join] in ES.
        * apply (IH (S h) _ ltac:(lia) HaS ES). cbn [tnodes]. right. apply in_or_app. right. exact Hin.
        * exact (IH (S h) _ ltac:(lia) HaS ES hh l Hin).
      + assert (He : In (h, Lh s h, cl HO s a h) (forest HO (s ++ [Some a]))).
        { apply (forest_snoc_Fh H HO s a h _ Ha Hb), In_Fh. right. reflexivity. }
        rewrite EC in He.
        destruct (tnodes_placed C h (Lh s h / 2 ^ N.of_nat h) true h hh l (cl_height h C EC) Hin)
          as (x & Hx & E).
        exists x. split; [|exact E]. exact (entry_layout H HO _ _ x He Hx).
  Qed.

  Lemma Vent_single_row k lo t r o hh l : Vent HO [(k, lo, t)] r o hh l -> (r <= k)%nat.
  Proof.
    intros Hv. apply Vent_single in Hv. destruct t as [c|]; [|lia].
    apply (Vpt_any c k (lo / p2 k) true k) in Hv as (x & Hx & <- & _).
    exact (proj1 (place_tree_range H c _ _ _ _ _ Hx)).
  Qed.

  (** the position of the next step is still free *)
  Lemma Vh_free h hh l : al s (S h) -> ~ Vent HO (Fh HO s a h) (S h) (n / p2 (S h)) hh l.
  Proof.
    intros Ha Hv. apply (Vent_split _ _ _ (fun e => Fh_split h e Ha)) in Hv as [Hv|Hv].
    - apply (Fold_out h _ _ _ _ Ha Hv). split; [lia|]. rewrite Nat.sub_diag. change (p2 0) with 1. lia.
    - apply (Vent_split [(h, Lh s (S h), oldt HO s h); (h, Lh s h, cl HO s a h)]
               [(h, Lh s (S h), oldt HO s h)] [(h, Lh s h, cl HO s a h)]) in Hv.
      2:{ intros e. cbn [In]. tauto. }
      destruct Hv as [Hv|Hv]; apply Vent_single_row in Hv; lia.
  Qed.
End StepView.

Arguments pj {H} x.
Arguments Vpt {H} c k q r o h l.

(** * Part 4a: the steps of [addSingle] on the abstract invariant *)
Section AbstractSteps.
  Variable H : Type.
  Variable HO : ops H.
  Hypothesis HOK : ops_ok HO.
  Notation nodemap := (list (N * (H * bool))).
  Notation cachemap := (list (H * N)).
  Variables (V V' : nat -> N -> H -> bool -> Prop) (RT RT' : nat -> N -> Prop).
  Variable T : N.
  Hypothesis HV : Vok V RT T.
  Hypothesis HV' : Vok V' RT' T.

  Lemma stored_put p v q (nd : nodemap) : nodes_get nd q <> None -> nodes_get (nodes_put p v nd) q <> None.
  Proof. intros Hs. rewrite nodes_get_put. destruct (q =? p); [discriminate|exact Hs]. Qed.

  Lemma gp_inj' r o h l r' o' h' l' : V' r o h l -> V' r' o' h' l' -> gp T r o = gp T r' o' ->
    r = r' /\ o = o' /\ h = h' /\ l = l'.
  Proof.
    intros A B E. destruct (v_valid HV' A) as [A1 A2]. destruct (v_valid HV' B) as [B1 B2].
    destruct (gp_inj T r o r' o' A1 A2 B1 B2 E) as [-> ->].
    destruct (v_fun HV' A B) as [-> ->]. auto.
  Qed.

  (** the new leaf is written at [(0, q)] *)
  Lemma put_leaf R nd ca q a (rem : bool) :
    GInv V RT R T nd ca ->
    (forall r o h l, V' r o h l <-> V r o h l \/ (r = 0%nat /\ o = q /\ h = a /\ l = true)) ->
    (forall r o, RT' r o <-> RT r o \/ (r = 0%nat /\ o = q)) ->
    (forall r o, ~ V r o a true) ->
    GInv V' RT' (if rem then R ++ [a] else R) T
         (nodes_put (gp T 0 q) (a, rem) nd)
         (if rem then cached_put HO a (gp T 0 q) ca else ca).
  Proof.
    intros G HVV HRT Hfresh.
    assert (Hnew : V' 0%nat q a true) by (apply HVV; right; auto).
    assert (HaR : ~ In a R).
    { intros Ha. destruct (g_Rin G _ Ha) as (r & o & Hv). exact (Hfresh _ _ Hv). }
    assert (Hkn : forall r o, known V' RT' (if rem then R ++ [a] else R) r o ->
              known V RT R r o \/ (r = 0%nat /\ o = q)).
    { intros r o Hk. induction Hk as [r o h Hv Hh|r o _ IH Hn].
      - apply HVV in Hv as [Hv|(-> & -> & _)]; [left|right; auto].
        apply (kn_leaf _ _ _ _ _ h Hv). destruct rem; [|exact Hh].
        apply in_app_or in Hh as [Hh|[<-|[]]]; [exact Hh|]. exfalso. exact (Hfresh _ _ Hv).
      - left. destruct IH as [IH|[-> ->]].
        + apply kn_up; [exact IH|]. intros C. apply Hn, HRT. left. exact C.
        + exfalso. apply Hn, HRT. right. auto. }
    constructor.
    - apply NoDup_nodes_put, (g_nodup G).
    - intros p h b Hin. apply In_nodes_put in Hin as [[-> E]|[_ Hin]].
      + injection E as -> ->. exists 0%nat, q, true. auto.
      + destruct (g_true G _ _ _ Hin) as (r & o & l & E & Hv). exists r, o, l.
        split; [exact E|apply HVV; left; exact Hv].
    - intros h. destruct rem; [|exact (g_cR G h)].
      rewrite (keys_cached_put H HO HOK), in_app_iff, (g_cR G h). cbn [In]. intuition congruence.
    - intros h p Hin.
      assert (Hold : In (h, p) ca -> exists r o, V' r o h true /\ p = gp T r o).
      { intros Hin'. destruct (g_cpos G _ _ Hin') as (r & o & Hv & E). exists r, o.
        split; [apply HVV; left; exact Hv|exact E]. }
      destruct rem; [|exact (Hold Hin)].
      apply (In_cached_put H HO HOK) in Hin as [[-> ->]|[_ Hin]]; [|exact (Hold Hin)].
      exists 0%nat, q. auto.
    - intros h Hh.
      assert (Hold : In h R -> exists r o, V' r o h true).
      { intros Hh'. destruct (g_Rin G _ Hh') as (r & o & Hv). exists r, o. apply HVV. left. exact Hv. }
      destruct rem; [|exact (Hold Hh)].
      apply in_app_or in Hh as [Hh|[<-|[]]]; [exact (Hold Hh)|]. exists 0%nat, q. exact Hnew.
    - intros r o Hr. apply HRT in Hr as [Hr|[-> ->]].
      + apply stored_put. exact (g_roots G Hr).
      + rewrite nodes_get_put, N.eqb_refl. discriminate.
    - intros r o h Hv Hh. rewrite nodes_get_put.
      destruct (N.eqb_spec (gp T r o) (gp T 0 q)) as [E|Hne].
      + destruct (gp_inj' _ _ _ _ _ _ _ _ Hv Hnew E) as (-> & -> & -> & _).
        destruct rem; [reflexivity|]. contradiction.
      + pose proof Hv as Hv0. apply HVV in Hv0 as [Hv0|(-> & -> & _)]; [|congruence].
        apply (g_tgt G Hv0). destruct rem; [|exact Hh].
        apply in_app_or in Hh as [Hh|[<-|[]]]; [exact Hh|]. exfalso. exact (Hfresh _ _ Hv0).
    - intros r o Hk Hn. apply stored_put. destruct (Hkn _ _ Hk) as [Hk'|[-> ->]].
      + apply (g_sibs G Hk'). intros C. apply Hn, HRT. left. exact C.
      + exfalso. apply Hn, HRT. right. auto.
  Qed.

  (** a new inner node is written at [(r0 + 1, q)], above the two roots of row [r0] *)
  Lemma put_node R nd ca r0 q hn (bn : bool) :
    GInv V RT R T nd ca ->
    (forall r o h l, V' r o h l <-> V r o h l \/ (r = S r0 /\ o = q /\ h = hn /\ l = false)) ->
    (forall r o, RT' r o -> RT r o \/ (r = S r0 /\ o = q)) ->
    (forall r o, RT r o -> RT' r o \/ (r = r0 /\ o / 2 = q)) ->
    RT' (S r0) q ->
    (forall o, o / 2 = q -> RT r0 o) ->
    GInv V' RT' R T (nodes_put (gp T (S r0) q) (hn, bn) nd) ca.
  Proof.
    intros G HVV HRT1 HRT2 Hnewr Hch.
    assert (Hnew : V' (S r0) q hn false) by (apply HVV; right; auto).
    assert (Hkn : forall r o, known V' RT' R r o -> known V RT R r o \/ (r = S r0 /\ o = q)).
    { intros r o Hk. induction Hk as [r o h Hv Hh|r o _ IH Hn].
      - apply HVV in Hv as [Hv|(_ & _ & _ & C)]; [|discriminate]. left.
        exact (kn_leaf _ _ _ _ _ h Hv Hh).
      - destruct IH as [IH|[-> ->]]; [|contradiction].
        destruct (Nat.eq_dec r r0) as [->|Hne]; [destruct (N.eq_dec (o / 2) q) as [E|Hne]|].
        + right. auto.
        + left. apply kn_up; [exact IH|]. intros C. destruct (HRT2 _ _ C) as [C'|[_ C']]; contradiction.
        + left. apply kn_up; [exact IH|]. intros C. destruct (HRT2 _ _ C) as [C'|[C' _]]; contradiction. }
    constructor.
    - apply NoDup_nodes_put, (g_nodup G).
    - intros p h b Hin. apply In_nodes_put in Hin as [[-> E]|[_ Hin]].
      + injection E as -> ->. exists (S r0), q, false. auto.
      + destruct (g_true G _ _ _ Hin) as (r & o & l & E & Hv). exists r, o, l.
        split; [exact E|apply HVV; left; exact Hv].
    - exact (g_cR G).
    - intros h p Hin. destruct (g_cpos G _ _ Hin) as (r & o & Hv & E). exists r, o.
      split; [apply HVV; left; exact Hv|exact E].
    - intros h Hh. destruct (g_Rin G _ Hh) as (r & o & Hv). exists r, o. apply HVV. left. exact Hv.
    - intros r o Hr. destruct (HRT1 _ _ Hr) as [Hr'|[-> ->]].
      + apply stored_put. exact (g_roots G Hr').
      + rewrite nodes_get_put, N.eqb_refl. discriminate.
    - intros r o h Hv Hh. rewrite nodes_get_put.
      destruct (N.eqb_spec (gp T r o) (gp T (S r0) q)) as [E|Hne].
      + destruct (gp_inj' _ _ _ _ _ _ _ _ Hv Hnew E) as (_ & _ & _ & C). discriminate.
      + apply HVV in Hv as [Hv|(_ & _ & _ & C)]; [|discriminate]. exact (g_tgt G Hv Hh).
    - intros r o Hk Hn. apply stored_put. destruct (Hkn _ _ Hk) as [Hk'|[-> ->]]; [|contradiction].
      destruct (Nat.eq_dec r r0) as [->|Hne]; [destruct (N.eq_dec (o / 2) q) as [E|Hne]|].
      + apply (g_roots G). apply Hch. rewrite lxor1_div2. exact E.
      + apply (g_sibs G Hk'). intros C. destruct (HRT2 _ _ C) as [C'|[_ C']]; contradiction.
      + apply (g_sibs G Hk'). intros C. destruct (HRT2 _ _ C) as [C'|[C' _]]; contradiction.
  Qed.
End AbstractSteps.


(** * Part 4a-t: "nothing else is stored" (partial forests), on the abstract invariant *)
Section TidyAbs.
  Variable H : Type.
  Variable HO : ops H.
  Hypothesis HOK : ops_ok HO.
  Notation nodemap := (list (N * (H * bool))).
  Notation cachemap := (list (H * N)).

  Definition needed (V : nat -> N -> H -> bool -> Prop) (RT : nat -> N -> Prop) (R : list H)
             (r : nat) (o : N) : Prop :=
    RT r o \/ known V RT R r o \/ (known V RT R r (N.lxor o 1) /\ ~ RT r (N.lxor o 1)).

  (** [tidyx E]: the flag marks remembered leaves only, and every stored node outside [E] is a
      root, a known coordinate or the sibling of one *)
  Definition tidyx (V : nat -> N -> H -> bool -> Prop) (RT : nat -> N -> Prop) (R : list H) (T : N)
             (E : nat -> N -> Prop) (nd : nodemap) : Prop :=
    (forall r o h l, V r o h l -> nodes_get nd (gp T r o) = Some (h, true) -> l = true /\ In h R) /\
    (forall r o h l, V r o h l -> ~ E r o -> nodes_get nd (gp T r o) <> None -> needed V RT R r o).
  Definition Tidy V RT R T nd := tidyx V RT R T (fun _ _ => False) nd.

  (** the root's parent coordinate holds no node *)
  Definition Vrp (V : nat -> N -> H -> bool -> Prop) (RT : nat -> N -> Prop) : Prop :=
    forall r o, RT r o -> forall h l, ~ V (S r) (o / 2) h l.

  Lemma prunePosition_sub T (nd : nodemap) pos p v :
    nodes_get (prunePosition HO T nd pos) p = Some v -> nodes_get nd p = Some v.
  Proof.
    unfold prunePosition.
    destruct (negb (snd (nodes_get0 HO nd pos)) && negb (snd (nodes_get0 HO nd (sibling pos)))); [|auto].
    destruct (niecesPresent T nd (sibling pos)).
    - destruct (niecesPresent T nd pos); [auto|]. rewrite nodes_get_del. destruct (p =? pos); [discriminate|auto].
    - destruct (niecesPresent T (nodes_del (sibling pos) nd) pos); rewrite ?nodes_get_del;
        destruct (p =? pos); try discriminate; destruct (p =? sibling pos); try discriminate; auto.
  Qed.

  Section Prune.
    Variables (V : nat -> N -> H -> bool -> Prop) (RT : nat -> N -> Prop) (R : list H) (T : N).
    Hypothesis HV : Vok V RT T.
    Hypothesis Hrp : Vrp V RT.
    Variables (nd : nodemap) (ca : cachemap).
    Hypothesis G : GInv V RT R T nd ca.
    Variables (r : nat) (x : N).
    Hypothesis Hr : N.of_nat r < T.
    Hypothesis Hx : x < 2 ^ (T - N.of_nat r).
    Hypothesis Hn1 : ~ RT r x.
    Hypothesis Hn2 : ~ RT r (N.lxor x 1).
    Hypothesis Hpair : (exists h l, V r x h l) <-> (exists h l, V r (N.lxor x 1) h l).
    Hypothesis HT0 : tidyx V RT R T (fun r' o' => r' = r /\ (o' = x \/ o' = N.lxor x 1)) nd.

    (** a stored child makes its parent known *)
    Lemma child_known r0 y hY lY : r = S r0 -> V (S r0) y hY lY -> y < 2 ^ (T - N.of_nat (S r0)) ->
      (nodes_has nd (gpos T (N.of_nat r0) (2 * y)) || nodes_has nd (gpos T (N.of_nat r0) (2 * y + 1))) = true ->
      known V RT R (S r0) y.
    Proof.
      intros Er HvY Hy Hst. pose proof (v_T63 HV) as HT.
      assert (Hc : forall b, b < 2 -> nodes_get nd (gp T r0 (2 * y + b)) <> None -> known V RT R (S r0) y).
      { intros b Hb Hs. destruct (nodes_get nd (gp T r0 (2 * y + b))) as [[hc bc]|] eqn:E; [|congruence].
        destruct (g_true G _ _ _ (nodes_get_In H _ _ _ E)) as (r1 & o1 & l & Ep & Hv).
        destruct (v_valid HV Hv) as [A B].
        assert (Hcv : 2 * y + b < 2 ^ (T - N.of_nat r0)).
        { replace (T - N.of_nat r0) with (T - N.of_nat (S r0) + 1) by lia. rewrite UtilsGeom.pow2_S. lia. }
        destruct (gp_inj T r0 (2 * y + b) r1 o1 ltac:(lia) Hcv A B Ep) as [<- <-].
        assert (Ediv : (2 * y + b) / 2 = y).
        { rewrite N.mul_comm, N.div_add_l by lia. rewrite (N.div_small b 2 Hb). lia. }
        assert (Hnr : ~ RT r0 (2 * y + b)).
        { intros C. apply (Hrp _ _ C hY lY). rewrite Ediv. exact HvY. }
        assert (HnE : ~ (r0 = r /\ (2 * y + b = x \/ 2 * y + b = N.lxor x 1))) by lia.
        assert (Hs' : nodes_get nd (gp T r0 (2 * y + b)) <> None) by (rewrite E; discriminate).
        destruct (proj2 HT0 _ _ _ _ Hv HnE Hs') as [C|[Hk|[Hk Hns]]]; [contradiction| |].
        - rewrite <- Ediv. apply kn_up; assumption.
        - rewrite <- Ediv, <- lxor1_div2. apply kn_up; assumption. }
      apply Bool.orb_true_iff in Hst as [Hst|Hst]; apply nodes_has_true in Hst.
      - apply (Hc 0); [lia|]. rewrite N.add_0_r. exact Hst.
      - apply (Hc 1); [lia|exact Hst].
    Qed.

    Lemma flag_known z hz lz : V r z hz lz -> z < 2 ^ (T - N.of_nat r) ->
      snd (nodes_get0 HO nd (gp T r z)) = true -> known V RT R r z.
    Proof.
      intros Hv Hz Hf. unfold nodes_get0 in Hf.
      destruct (nodes_get nd (gp T r z)) as [[h b]|] eqn:E; [|discriminate]. cbn [snd] in Hf. subst b.
      destruct (g_true G _ _ _ (nodes_get_In H _ _ _ E)) as (r1 & o1 & l & Ep & Hv1).
      destruct (v_valid HV Hv1) as [A B].
      destruct (gp_inj T r z r1 o1 ltac:(lia) Hz A B Ep) as [<- <-].
      destruct (proj1 HT0 _ _ _ _ Hv1 E) as [-> Hin]. exact (kn_leaf _ _ _ _ _ h Hv1 Hin).
    Qed.

    Lemma nieces_known z hz lz hs ls : V r z hz lz -> V r (N.lxor z 1) hs ls ->
      z < 2 ^ (T - N.of_nat r) -> niecesPresent T nd (gp T r z) = true ->
      known V RT R r (N.lxor z 1).
    Proof.
      intros Hv Hvs Hz Hnp. pose proof (v_T63 HV) as HT. unfold niecesPresent in Hnp.
      unfold gp in Hnp at 1. rewrite (DetectRow_gpos T (N.of_nat r) z HT ltac:(lia) Hz) in Hnp.
      destruct (N.eqb_spec (N.of_nat r) 0) as [E0|Hne]; [discriminate|].
      assert (Er : r = S (pred r)) by lia. set (r0 := pred r) in *.
      pose proof (lxor1_valid T r z Hr Hz) as Hz'.
      unfold gp in Hnp. rewrite (sibling_gpos T (N.of_nat r) z ltac:(lia)) in Hnp.
      assert (Hz'' : N.lxor z 1 < 2 ^ (T - N.of_nat (S r0))) by (rewrite <- Er; exact Hz').
      destruct (child_valid T r0 (N.lxor z 1) ltac:(lia) Hz'') as [C D].
      replace (N.of_nat r) with (N.of_nat r0 + 1) in Hnp by lia.
      rewrite (LeftChild_gpos T _ _ HT C D), (RightChild_gpos T _ _ HT C D) in Hnp.
      rewrite Er. apply (child_known r0 (N.lxor z 1) hs ls Er); [rewrite <- Er; exact Hvs|exact Hz''|exact Hnp].
    Qed.

    Lemma nieces_del_mono p q : niecesPresent T (nodes_del p nd) q = true -> niecesPresent T nd q = true.
    Proof.
      unfold niecesPresent. destruct (DetectRow q T =? 0); [auto|].
      unfold nodes_has. rewrite !nodes_get_del.
      destruct (_ =? p); destruct (_ =? p); cbn; auto;
        destruct (nodes_get nd (LeftChild (sibling q) T)); destruct (nodes_get nd (RightChild (sibling q) T)); auto.
    Qed.

    Theorem prune_tidy : Tidy V RT R T (prunePosition HO T nd (gp T r x)).
    Proof.
      pose proof (v_T63 HV) as HT. pose proof (lxor1_valid T r x Hr Hx) as Hy.
      assert (Es : sibling (gp T r x) = gp T r (N.lxor x 1)) by (unfold gp; apply sibling_gpos; lia).
      assert (Hne : gp T r (N.lxor x 1) <> gp T r x).
      { intros E. apply (gp_inj T r _ r x) in E as [_ E]; try lia; try assumption.
        rewrite lxor_1 in E. destruct (N.even x) eqn:Ev; [lia|]. pose proof (odd_nz x Ev). lia. }
      split.
      - intros r' o' h l Hv E. apply prunePosition_sub in E. exact (proj1 HT0 _ _ _ _ Hv E).
      - intros r' o' h l Hv _ Hst.
        destruct (nodes_get (prunePosition HO T nd (gp T r x)) (gp T r' o')) as [v|] eqn:Ev; [clear Hst|congruence].
        pose proof (prunePosition_sub _ _ _ _ _ Ev) as Ev0.
        assert (Hst0 : nodes_get nd (gp T r' o') <> None) by (rewrite Ev0; discriminate).
        destruct (Nat.eq_dec r' r) as [->|Hnr];
          [|apply (proj2 HT0 _ _ _ _ Hv); [intros [C _]; contradiction|exact Hst0]].
        destruct (N.eq_dec o' x) as [->|Hox];
          [|destruct (N.eq_dec o' (N.lxor x 1)) as [->|Hoy];
            [|apply (proj2 HT0 _ _ _ _ Hv); [intros [_ [C|C]]; contradiction|exact Hst0]]].
        + (* the position itself *)
          destruct (proj1 Hpair (ex_intro _ h (ex_intro _ l Hv))) as (hs & ls & Hvs).
          unfold prunePosition in Ev. rewrite Es in Ev.
          destruct (snd (nodes_get0 HO nd (gp T r x))) eqn:F1; cbn [negb andb] in Ev.
          { right. left. exact (flag_known x h l Hv Hx F1). }
          destruct (snd (nodes_get0 HO nd (gp T r (N.lxor x 1)))) eqn:F2; cbn [negb andb] in Ev.
          { right. right. split; [exact (flag_known _ hs ls Hvs Hy F2)|exact Hn2]. }
          right. right. split; [|exact Hn2].
          apply (nieces_known x h l hs ls Hv Hvs Hx).
          destruct (niecesPresent T nd (gp T r (N.lxor x 1))) eqn:N1.
          * destruct (niecesPresent T nd (gp T r x)) eqn:N2; [reflexivity|].
            rewrite nodes_get_del, N.eqb_refl in Ev. discriminate.
          * destruct (niecesPresent T (nodes_del (gp T r (N.lxor x 1)) nd) (gp T r x)) eqn:N2.
            -- exact (nieces_del_mono _ _ N2).
            -- rewrite nodes_get_del, N.eqb_refl in Ev. discriminate.
        + (* its sibling *)
          destruct (proj2 Hpair (ex_intro _ h (ex_intro _ l Hv))) as (hs & ls & Hvs).
          unfold prunePosition in Ev. rewrite Es in Ev.
          destruct (snd (nodes_get0 HO nd (gp T r x))) eqn:F1; cbn [negb andb] in Ev.
          { right. right. rewrite lxor1_invol. split; [exact (flag_known x hs ls Hvs Hx F1)|exact Hn1]. }
          destruct (snd (nodes_get0 HO nd (gp T r (N.lxor x 1)))) eqn:F2; cbn [negb andb] in Ev.
          { right. left. exact (flag_known _ h l Hv Hy F2). }
          right. right. rewrite lxor1_invol. split; [|exact Hn1].
          rewrite <- (lxor1_invol x).
          apply (nieces_known (N.lxor x 1) h l hs ls Hv); [rewrite lxor1_invol; exact Hvs|exact Hy|].
          destruct (niecesPresent T nd (gp T r (N.lxor x 1))) eqn:N1; [reflexivity|].
          exfalso. destruct (niecesPresent T (nodes_del (gp T r (N.lxor x 1)) nd) (gp T r x)).
          * rewrite nodes_get_del, N.eqb_refl in Ev. discriminate.
          * rewrite !nodes_get_del, N.eqb_refl in Ev.
            destruct (N.eqb_spec (gp T r (N.lxor x 1)) (gp T r x)); discriminate.
    Qed.
  End Prune.

  Lemma Tidy_ext (V V' : nat -> N -> H -> bool -> Prop) (RT RT' : nat -> N -> Prop) R T nd :
    (forall r o h l, V r o h l <-> V' r o h l) -> (forall r o, RT r o <-> RT' r o) ->
    Tidy V RT R T nd -> Tidy V' RT' R T nd.
  Proof.
    intros HVV HRT [T1 T2].
    assert (Hk : forall r o, known V RT R r o -> known V' RT' R r o).
    { apply known_ext; [intros ? ? ? A; apply HVV, A|intros ? ? A; apply HRT, A]. }
    split.
    - intros r o h l Hv. apply HVV in Hv. exact (T1 _ _ _ _ Hv).
    - intros r o h l Hv _ Hs. apply HVV in Hv.
      destruct (T2 _ _ _ _ Hv (fun C => C) Hs) as [A|[A|[A B]]].
      + left. apply HRT, A.
      + right. left. exact (Hk _ _ A).
      + right. right. split; [exact (Hk _ _ A)|]. intros C. apply B, HRT, C.
  Qed.

  Lemma tidyx_weaken V RT R T (E E' : nat -> N -> Prop) nd :
    (forall r o, E r o -> E' r o) -> tidyx V RT R T E nd -> tidyx V RT R T E' nd.
  Proof.
    intros HE [T1 T2]. split; [exact T1|]. intros r o h l Hv Hn Hs.
    apply (T2 _ _ _ _ Hv); [intros C; exact (Hn (HE _ _ C))|exact Hs].
  Qed.

  Section Puts.
    Variables (V V' : nat -> N -> H -> bool -> Prop) (RT RT' : nat -> N -> Prop).
    Variable T : N.
    Hypothesis HV : Vok V RT T.
    Hypothesis HV' : Vok V' RT' T.

    (** the new leaf of a partial forest *)
    Lemma put_leaf_tidy R nd q a (rem : bool) :
      Tidy V RT R T nd ->
      (forall r o h l, V' r o h l <-> V r o h l \/ (r = 0%nat /\ o = q /\ h = a /\ l = true)) ->
      (forall r o, RT' r o <-> RT r o \/ (r = 0%nat /\ o = q)) ->
      (forall h l, ~ V 0%nat q h l) ->
      Tidy V' RT' (if rem then R ++ [a] else R) T (nodes_put (gp T 0 q) (a, rem) nd).
    Proof.
      intros [T1 T2] HVV HRT Hfree.
      assert (Hnew : V' 0%nat q a true) by (apply HVV; right; auto).
      assert (HR : forall h, In h R -> In h (if rem then R ++ [a] else R)).
      { intros h Hh. destruct rem; [apply in_or_app; left|]; exact Hh. }
      assert (Hk : forall r o, known V RT R r o -> known V' RT' (if rem then R ++ [a] else R) r o).
      { intros r o Hk. induction Hk as [r o h Hv Hh|r o Hk IH Hn].
        - apply (kn_leaf _ _ _ _ _ h); [apply HVV; left; exact Hv|exact (HR _ Hh)].
        - apply kn_up; [exact IH|]. intros C. apply HRT in C as [C|[-> ->]]; [exact (Hn C)|].
          destruct (known_V H V RT R T HV _ _ Hk) as (h & l & Hv). exact (Hfree _ _ Hv). }
      assert (Hold : forall r o h l, V r o h l -> gp T r o <> gp T 0 q).
      { intros r o h l Hv E. assert (Hv' : V' r o h l) by (apply HVV; left; exact Hv).
        destruct (gp_inj' H V' RT' T HV' _ _ _ _ _ _ _ _ Hv' Hnew E) as (-> & -> & _). exact (Hfree _ _ Hv). }
      split.
      - intros r o h l Hv E. rewrite nodes_get_put in E.
        apply HVV in Hv as [Hv|(-> & -> & -> & ->)].
        + destruct (N.eqb_spec (gp T r o) (gp T 0 q)) as [C|_]; [exfalso; exact (Hold _ _ _ _ Hv C)|].
          destruct (T1 _ _ _ _ Hv E) as [A B]. split; [exact A|exact (HR _ B)].
        + rewrite N.eqb_refl in E. injection E as ->. split; [reflexivity|].
          apply in_or_app. right. left. reflexivity.
      - intros r o h l Hv _ Hs. rewrite nodes_get_put in Hs.
        apply HVV in Hv as [Hv|(-> & -> & _)]; [|left; apply HRT; right; auto].
        destruct (N.eqb_spec (gp T r o) (gp T 0 q)) as [C|_]; [exfalso; exact (Hold _ _ _ _ Hv C)|].
        destruct (T2 _ _ _ _ Hv (fun C => C) Hs) as [A|[A|[A B]]].
        + left. apply HRT. left. exact A.
        + right. left. exact (Hk _ _ A).
        + right. right. split; [exact (Hk _ _ A)|]. intros C. apply HRT in C as [C|[-> C]]; [exact (B C)|].
          destruct (known_V H V RT R T HV _ _ A) as (h' & l' & Hv'). rewrite C in Hv'. exact (Hfree _ _ Hv').
    Qed.

    (** the new inner node of a partial forest (flag [false]); its children are still to prune *)
    Lemma put_node_tidyx R nd r0 q hn :
      Tidy V RT R T nd ->
      (forall r o h l, V' r o h l <-> V r o h l \/ (r = S r0 /\ o = q /\ h = hn /\ l = false)) ->
      (forall r o, RT' r o -> RT r o \/ (r = S r0 /\ o = q)) ->
      (forall r o, RT r o -> RT' r o \/ (r = r0 /\ o / 2 = q)) ->
      RT' (S r0) q ->
      (forall h l, ~ V (S r0) q h l) ->
      tidyx V' RT' R T (fun r o => r = r0 /\ o / 2 = q) (nodes_put (gp T (S r0) q) (hn, false) nd).
    Proof.
      intros [T1 T2] HVV HRT1 HRT2 Hnewr Hfree.
      assert (Hnew : V' (S r0) q hn false) by (apply HVV; right; auto).
      assert (Hnr' : forall r o, known V RT R r o -> ~ RT r o -> ~ RT' r o).
      { intros r o Hk Hn C. apply HRT1 in C as [C|[-> ->]]; [exact (Hn C)|].
        destruct (known_V H V RT R T HV _ _ Hk) as (h & l & Hv). exact (Hfree _ _ Hv). }
      assert (Hk : forall r o, known V RT R r o -> known V' RT' R r o).
      { intros r o Hk. induction Hk as [r o h Hv Hh|r o Hk IH Hn].
        - apply (kn_leaf _ _ _ _ _ h); [apply HVV; left; exact Hv|exact Hh].
        - apply kn_up; [exact IH|exact (Hnr' _ _ Hk Hn)]. }
      assert (Hold : forall r o h l, V r o h l -> gp T r o <> gp T (S r0) q).
      { intros r o h l Hv E. assert (Hv' : V' r o h l) by (apply HVV; left; exact Hv).
        destruct (gp_inj' H V' RT' T HV' _ _ _ _ _ _ _ _ Hv' Hnew E) as (-> & -> & _). exact (Hfree _ _ Hv). }
      split.
      - intros r o h l Hv E. rewrite nodes_get_put in E.
        apply HVV in Hv as [Hv|(-> & -> & -> & ->)].
        + destruct (N.eqb_spec (gp T r o) (gp T (S r0) q)) as [C|_]; [exfalso; exact (Hold _ _ _ _ Hv C)|].
          exact (T1 _ _ _ _ Hv E).
        + rewrite N.eqb_refl in E. discriminate.
      - intros r o h l Hv HnE Hs. rewrite nodes_get_put in Hs.
        apply HVV in Hv as [Hv|(-> & -> & _)]; [|left; exact Hnewr].
        destruct (N.eqb_spec (gp T r o) (gp T (S r0) q)) as [C|_]; [exfalso; exact (Hold _ _ _ _ Hv C)|].
        destruct (T2 _ _ _ _ Hv (fun C => C) Hs) as [A|[A|[A B]]].
        + left. destruct (HRT2 _ _ A) as [C|C]; [exact C|contradiction].
        + right. left. exact (Hk _ _ A).
        + right. right. split; [exact (Hk _ _ A)|exact (Hnr' _ _ A B)].
    Qed.
  End Puts.
End TidyAbs.

Arguments needed {H} V RT R r o.
Arguments tidyx {H} V RT R T E nd.
Arguments Tidy {H} V RT R T nd.
Arguments Vrp {H} V RT.

(** structure of the view of a list of placed trees *)
Section EntriesStruct.
  Variable H : Type.
  Variable HO : ops H.
  Notation entry := (nat * N * option (ctree H))%type.

  Definition twf (F : list entry) : Prop :=
    forall k lo c, In (k, lo, Some c) F -> cwf H HO c /\ (cheight H c <= k)%nat.

  Lemma Vent_rp F T : ewf F T -> Vrp (Vent HO F) (RTent F).
  Proof.
    intros [Hal Hdis] r o (k & lo & t & He & -> & ->) h l ([[k2 lo2] t2] & y & He2 & Hy & Er & Eo & _).
    destruct (Hal _ _ _ He) as (q & Eq & _). destruct (Hal _ _ _ He2) as (q2 & Eq2 & _).
    destruct (place_entry_range H HO _ _ _ _ _ Eq2 Hy) as (Hrow & Y1 & Y2).
    pose proof (p2_pos k) as Hp.
    assert (Eo' : lo / p2 k = q) by (rewrite Eq; apply N.div_mul; lia).
    rewrite Eo' in Eo. unfold nlo, nhi in Y1, Y2. rewrite Er, Eo, p2_S in Y1, Y2.
    pose proof (N.div_mod' q 2) as Hdm. pose proof (N.mod_lt q 2 ltac:(lia)) as Hm.
    destruct (Hdis _ _ _ _ _ _ He He2) as [E|[D|D]].
    - injection E as -> _ _. lia.
    - nia.
    - nia.
  Qed.

  Lemma Vent_sib F T : ewf F T -> twf F -> forall r o h l, Vent HO F r o h l -> ~ RTent F r o ->
    exists h' l', Vent HO F r (N.lxor o 1) h' l'.
  Proof.
    intros [Hal _] Hwf r o h l ([[k lo] t] & x & He & Hx & <- & <- & _) Hn.
    destruct (Hal _ _ _ He) as (q & Eq & _).
    pose proof Hx as Hx'. rewrite (place_entry_eq H HO k lo t q Eq) in Hx'.
    assert (Eq' : lo / p2 k = q) by (rewrite Eq; apply N.div_mul; pose proof (p2_pos k); lia).
    destruct t as [c|].
    2:{ destruct Hx' as [Ex|[]]. exfalso. apply Hn. exists k, lo, None. rewrite <- Ex, Eq'. cbn. auto. }
    destruct (Hwf _ _ _ He) as [Hc Hh].
    destruct (place_tree_parent H c _ _ _ _ _ Hx') as [Ex|(p & Hp & _ & Epr & Epo)].
    { exfalso. apply Hn. exists k, lo, (Some c). rewrite Ex, Eq'. cbn. auto. }
    destruct (place_tree_cases H HO c k q true k p Hc Hh Hp)
      as [[Hlf _]|[_ (r' & xl & xr & Er & Hxl & Hxr & Cl & Cr & _)]].
    { (* a leaf has no node below it *)
      exfalso. pose proof (place_tree_leaf_bottom H c k q true k p x Hp Hx' Hlf ltac:(lia)) as Hb.
      apply Hb; unfold nlo, nhi; rewrite Epr, Epo, p2_S;
        pose proof (N.div_mod' (noff x) 2); pose proof (N.mod_lt (noff x) 2 ltac:(lia));
        pose proof (p2_pos (nrow x)); nia. }
    assert (Er' : r' = nrow x) by lia. subst r'.
    injection Cl as Clr Clo. injection Cr as Crr Cro. rewrite Epo in Clo, Cro.
    destruct (lxor1_cases (noff x)) as [E|E].
    - exists (nhash xl), (nleaf xl), (k, lo, Some c), xl.
      rewrite (place_entry_eq H HO k lo _ q Eq). rewrite E. repeat split; auto.
    - exists (nhash xr), (nleaf xr), (k, lo, Some c), xr.
      rewrite (place_entry_eq H HO k lo _ q Eq). rewrite E. repeat split; auto.
  Qed.

  Lemma Fh_twf (s : slots H) (a : H) h : twf (Fh HO s a h).
  Proof.
    intros k lo c Hin. apply In_Fh in Hin as [Hin|E].
    - apply In_Fold in Hin as [Hin _]. destruct (forest_entry H HO s _ _ _ Hin) as (_ & _ & _ & _ & _ & Et).
      exact (compress_wf H HO _ _ _ (eq_sym Et)).
    - injection E as -> _ Ec. unfold cl in Ec. exact (compress_wf H HO _ _ _ (eq_sym Ec)).
  Qed.
End EntriesStruct.

(** * Part 4a': the step over an empty root, on the maps *)
Section StepBMirror.
  Variable H : Type.
  Variable HO : ops H.
  Hypothesis HOK : ops_ok HO.
  Variable T : N.
  Hypothesis HT : T <= 63.
  Variable h0 : nat.
  Hypothesis Hh0 : N.of_nat h0 < T.
  Variable q : N.
  Hypothesis Hq : q < 2 ^ (T - N.of_nat h0 - 1).
  Notation nodemap := (list (N * (H * bool))).
  Notation cachemap := (list (H * N)).
  Notation inSub := (inSub h0 q).
  Notation belowD := (belowD h0 q).
  Notation inReg' := (inReg' h0 q).
  Notation upo := (upo h0).

  Lemma p2_sub_S r : (r <= h0)%nat -> p2 (S h0 - r) = 2 * p2 (h0 - r).
  Proof. intros Hr. replace (S h0 - r)%nat with (S (h0 - r)) by lia. apply p2_S. Qed.

  Lemma sub_reg' r o : inSub r o -> inReg' r o.
  Proof. intros [Hr Ho]. split; [lia|]. rewrite (p2_sub_S r Hr). lia. Qed.
  Lemma below_reg' r o : belowD r o -> inReg' r o.
  Proof. intros [Hr Ho]. split; [lia|]. rewrite (p2_sub_S r Hr). lia. Qed.

  Lemma ofnat_sub r : (r <= h0)%nat -> N.of_nat h0 - N.of_nat r = N.of_nat (h0 - r).
  Proof. lia. Qed.

  Lemma upo_sub r o : inSub r o -> upo r o = o - (q + 1) * p2 (h0 - r).
  Proof.
    intros [Hr Ho]. unfold MapMutAdd.upo. rewrite (ofnat_sub r Hr). unfold p2 in *.
    apply (rmbit_range q 1); [lia|]. lia.
  Qed.
  Lemma upo_below r o : belowD r o -> upo r o = o - q * p2 (h0 - r).
  Proof.
    intros [Hr Ho]. unfold MapMutAdd.upo. rewrite (ofnat_sub r Hr). unfold p2 in *.
    rewrite (rmbit_range q 0); [f_equal; lia|lia|lia].
  Qed.

  Lemma upo_reg' r o : inSub r o \/ belowD r o -> inReg' (S r) (upo r o).
  Proof.
    intros [Hs|Hb].
    - rewrite (upo_sub r o Hs). destruct Hs as [Hr Ho]. split; [lia|].
      replace (S h0 - S r)%nat with (h0 - r)%nat by lia. lia.
    - rewrite (upo_below r o Hb). destruct Hb as [Hr Ho]. split; [lia|].
      replace (S h0 - S r)%nat with (h0 - r)%nat by lia. lia.
  Qed.

  Lemma reg'_valid r o : inReg' r o -> N.of_nat r <= T /\ o < 2 ^ (T - N.of_nat r).
  Proof.
    intros [Hr Ho]. split; [lia|].
    assert (E : 2 ^ (T - N.of_nat r) = 2 ^ (T - N.of_nat h0 - 1) * p2 (S h0 - r)).
    { unfold p2. rewrite <- N.pow_add_r. f_equal. lia. }
    rewrite E.
    assert ((q + 1) * p2 (S h0 - r) <= 2 ^ (T - N.of_nat h0 - 1) * p2 (S h0 - r))
      by (apply N.mul_le_mono_r; lia). lia.
  Qed.

  Lemma gp_neq r o r' o' : N.of_nat r <= T -> o < 2 ^ (T - N.of_nat r) ->
    N.of_nat r' <= T -> o' < 2 ^ (T - N.of_nat r') -> (r <> r' \/ o <> o') -> gp T r o <> gp T r' o'.
  Proof.
    intros A B C D Hne E. destruct (gp_inj T r o r' o' A B C D E) as [-> ->]. destruct Hne; congruence.
  Qed.

  (** a coordinate outside the subtree of the new position is at a different position *)
  Lemma out_neq r o r' o' : N.of_nat r <= T -> o < 2 ^ (T - N.of_nat r) -> ~ inReg' r o ->
    inReg' r' o' -> gp T r o <> gp T r' o'.
  Proof.
    intros A B Hout Hin. destruct (reg'_valid r' o' Hin) as [C D].
    apply gp_neq; try assumption.
    destruct (Nat.eq_dec r r') as [->|Hr]; [|left; exact Hr].
    destruct (N.eq_dec o o') as [->|Ho]; [contradiction|right; exact Ho].
  Qed.

  Notation Dp := (gp T h0 (2 * q)).
  Notation P0 := (gp T h0 (2 * q + 1)).
  Notation P' := (gp T (S h0) q).
  Notation ms := (allmoves T h0 h0 (2 * q) 2).

  Lemma D_reg' : inReg' h0 (2 * q).
  Proof. split; [lia|]. replace (S h0 - h0)%nat with 1%nat by lia. change (p2 1) with 2. lia. Qed.
  Lemma P0_reg' : inReg' h0 (2 * q + 1).
  Proof. split; [lia|]. replace (S h0 - h0)%nat with 1%nat by lia. change (p2 1) with 2. lia. Qed.
  Lemma P'_reg' : inReg' (S h0) q.
  Proof. split; [lia|]. rewrite Nat.sub_diag. change (p2 0) with 1. lia. Qed.

  Lemma In_ms c t : In (c, t) ms <->
    exists rho o, (rho < h0)%nat /\ (inSub rho o \/ belowD rho o) /\
                  c = gp T rho o /\ t = gp T (S rho) (upo rho o).
  Proof.
    rewrite In_allmoves. unfold tgt, upo, gp, inSub, belowD. change (N.of_nat 2) with 2.
    split; intros (rho & o & Hlt & Ho & Ec & Et); exists rho, o; (split; [exact Hlt|]);
      (split; [|auto]).
    - destruct (N.lt_ge_cases o ((2 * q + 1) * p2 (h0 - rho))); [right|left]; (split; [lia|lia]).
    - destruct Ho as [[_ Ho]|[_ Ho]]; lia.
  Qed.

  Variables (nd : nodemap) (ca1 : cachemap) (pNode : H * bool).
  Hypothesis Hnd : NoDup (map fst nd).
  (** nothing is stored below the empty root *)
  Hypothesis HU : forall r o, (r < h0)%nat -> belowD r o -> nodes_get nd (gp T r o) = None.

  Notation nd1 := (nodes_del P0 (nodes_del Dp nd)).

  Lemma nd1_get r o : (r < h0)%nat -> inReg' r o -> nodes_get nd1 (gp T r o) = nodes_get nd (gp T r o).
  Proof.
    intros Hr Hin. destruct (reg'_valid r o Hin) as [A B].
    destruct (reg'_valid _ _ D_reg') as [C1 C2]. destruct (reg'_valid _ _ P0_reg') as [C3 C4].
    rewrite !nodes_get_del.
    destruct (N.eqb_spec (gp T r o) P0) as [E|_];
      [exfalso; apply (gp_neq r o h0 (2 * q + 1)) in E; auto; left; lia|].
    destruct (N.eqb_spec (gp T r o) Dp) as [E|_];
      [exfalso; apply (gp_neq r o h0 (2 * q)) in E; auto; left; lia|]. reflexivity.
  Qed.

  Lemma ms_safe : safe H ms nd1.
  Proof.
    apply allmoves_safe; [exact HT|exact Hh0|lia| |].
    - change (N.of_nat 2) with 2.
      replace (T - N.of_nat h0) with (T - N.of_nat h0 - 1 + 1) by lia. rewrite UtilsGeom.pow2_S. lia.
    - change (N.of_nat 2) with 2. intros rho o o' Hlt Ho Ho' S1 S2 E.
      assert (Hcase : forall x, 2 * q * p2 (h0 - rho) <= x < (2 * q + 2) * p2 (h0 - rho) ->
                sto H nd1 (gpos T (N.of_nat rho) x) -> inSub rho x).
      { intros x Hx Sx. destruct (N.lt_ge_cases x ((2 * q + 1) * p2 (h0 - rho))) as [L|G].
        - exfalso. assert (Hb : belowD rho x) by (split; [lia|lia]).
          unfold sto in Sx. fold (gp T rho x) in Sx.
          rewrite (nd1_get rho x Hlt (below_reg' _ _ Hb)), (HU rho x Hlt Hb) in Sx. congruence.
        - split; [lia|lia]. }
      pose proof (upo_sub rho o (Hcase o Ho S1)) as E1.
      pose proof (upo_sub rho o' (Hcase o' Ho' S2)) as E2.
      destruct (Hcase o Ho S1) as [_ R1]. destruct (Hcase o' Ho' S2) as [_ R2].
      unfold MapMutAdd.upo in E1, E2. rewrite E1, E2 in E. lia.
  Qed.

  Variables (nd2 : nodemap) (ca2 : cachemap).
  Hypothesis Eap : apply_moves H HO ms (nd1, ca1) = (nd2, ca2).
  Notation nd3 := (nodes_put P' pNode nd2).

  Lemma ms_member r o : (r < h0)%nat -> inSub r o \/ belowD r o ->
    In (gp T r o, gp T (S r) (upo r o)) ms.
  Proof. intros Hr Ho. apply In_ms. exists r, o. auto. Qed.

  Lemma reg_of r o : inSub r o \/ belowD r o -> inReg' r o.
  Proof. intros [A|A]; [apply sub_reg'|apply below_reg']; exact A. Qed.

  Theorem Bstep_moved r o v : (r < h0)%nat -> inSub r o -> nodes_get nd (gp T r o) = Some v ->
    nodes_get nd3 (gp T (S r) (upo r o)) = Some v.
  Proof.
    intros Hr Hs Ev.
    destruct (apply_moves_spec H HO HOK ms nd1 ca1 ms_safe nd2 ca2 Eap) as (Ia & _).
    pose proof (upo_reg' r o (or_introl Hs)) as Hreg. destruct (reg'_valid _ _ Hreg) as [A B].
    destruct (reg'_valid _ _ P'_reg') as [C D].
    rewrite nodes_get_put.
    destruct (N.eqb_spec (gp T (S r) (upo r o)) P') as [E|_];
      [exfalso; apply (gp_neq (S r) (upo r o) (S h0) q) in E; auto; left; lia|].
    rewrite (Ia _ _ (ms_member r o Hr (or_introl Hs))).
    - rewrite (nd1_get r o Hr (sub_reg' _ _ Hs)). exact Ev.
    - unfold sto. rewrite (nd1_get r o Hr (sub_reg' _ _ Hs)), Ev. discriminate.
  Qed.

  Theorem Bstep_new : nodes_get nd3 P' = Some pNode.
  Proof. rewrite nodes_get_put, N.eqb_refl. reflexivity. Qed.

  Theorem Bstep_out r o : N.of_nat r <= T -> o < 2 ^ (T - N.of_nat r) -> ~ inReg' r o ->
    nodes_get nd3 (gp T r o) = nodes_get nd (gp T r o).
  Proof.
    intros A B Hout.
    destruct (apply_moves_spec H HO HOK ms nd1 ca1 ms_safe nd2 ca2 Eap) as (_ & _ & Ic & _).
    rewrite nodes_get_put.
    destruct (N.eqb_spec (gp T r o) P') as [E|_];
      [exfalso; exact (out_neq r o _ _ A B Hout P'_reg' E)|].
    rewrite Ic.
    - rewrite !nodes_get_del.
      destruct (N.eqb_spec (gp T r o) P0) as [E|_];
        [exfalso; exact (out_neq r o _ _ A B Hout P0_reg' E)|].
      destruct (N.eqb_spec (gp T r o) Dp) as [E|_];
        [exfalso; exact (out_neq r o _ _ A B Hout D_reg' E)|]. reflexivity.
    - intros c t Hin. apply In_ms in Hin as (rho & x & Hlt & Hx & -> & ->). split.
      + exact (out_neq r o _ _ A B Hout (reg_of _ _ Hx)).
      + intros _. apply (out_neq r o _ _ A B Hout). apply upo_reg'. exact Hx.
  Qed.

  Theorem Bstep_back p v : nodes_get nd3 p = Some v ->
    (p = P' /\ v = pNode) \/
    (exists r o, (r < h0)%nat /\ inSub r o /\ p = gp T (S r) (upo r o) /\
                 nodes_get nd (gp T r o) = Some v) \/
    (p <> Dp /\ p <> P0 /\ p <> P' /\ (forall r o, (r < h0)%nat -> inSub r o -> p <> gp T r o) /\
     nodes_get nd p = Some v).
  Proof.
    destruct (apply_moves_spec H HO HOK ms nd1 ca1 ms_safe nd2 ca2 Eap) as (_ & _ & _ & Iback & _).
    rewrite nodes_get_put. destruct (N.eqb_spec p P') as [->|Hne].
    - intros E. injection E as <-. left. auto.
    - intros Ev. right. destruct (Iback p v Ev) as [(c & t & Hin & -> & Ec)|[Hno Ep]].
      + left. apply In_ms in Hin as (rho & x & Hlt & Hx & -> & Et).
        rewrite (nd1_get rho x Hlt (reg_of _ _ Hx)) in Ec. destruct Hx as [Hx|Hx].
        * exists rho, x. auto.
        * rewrite (HU rho x Hlt Hx) in Ec. discriminate.
      + right. rewrite !nodes_get_del in Ep.
        destruct (N.eqb_spec p P0) as [E|Hp0]; [discriminate|].
        destruct (N.eqb_spec p Dp) as [E|HpD]; [discriminate|].
        split; [exact HpD|]. split; [exact Hp0|]. split; [exact Hne|]. split; [|exact Ep].
        intros r o Hr Hs. exact (Hno _ _ (ms_member r o Hr (or_introl Hs))).
  Qed.

  Theorem Bstep_nodup : NoDup (map fst nd3).
  Proof.
    destruct (apply_moves_spec H HO HOK ms nd1 ca1 ms_safe nd2 ca2 Eap) as (_ & _ & _ & _ & Ind & _).
    apply NoDup_nodes_put, Ind, NoDup_nodes_del, NoDup_nodes_del, Hnd.
  Qed.

  Theorem Bstep_keys k : In k (map fst ca2) <-> In k (map fst ca1).
  Proof.
    destruct (apply_moves_spec H HO HOK ms nd1 ca1 ms_safe nd2 ca2 Eap) as (_ & _ & _ & _ & _ & Ik & _).
    apply Ik.
  Qed.

  Theorem Bstep_cache k p : In (k, p) ca2 ->
    (exists r o b, (r < h0)%nat /\ inSub r o /\ nodes_get nd (gp T r o) = Some (k, b) /\
                   p = gp T (S r) (upo r o)) \/
    (In (k, p) ca1 /\ forall r o b, (r < h0)%nat -> inSub r o -> nodes_get nd (gp T r o) <> Some (k, b)).
  Proof.
    destruct (apply_moves_spec H HO HOK ms nd1 ca1 ms_safe nd2 ca2 Eap) as (_ & _ & _ & _ & _ & _ & Ica).
    intros Hin. destruct (Ica k p Hin) as [(c & t & b & Hin' & Ec & ->)|[Hin' Hno]].
    - left. apply In_ms in Hin' as (rho & x & Hlt & Hx & -> & Et).
      rewrite (nd1_get rho x Hlt (reg_of _ _ Hx)) in Ec. destruct Hx as [Hx|Hx].
      + exists rho, x, b. auto.
      + rewrite (HU rho x Hlt Hx) in Ec. discriminate.
    - right. split; [exact Hin'|]. intros r o b Hr Hs E.
      apply (Hno _ _ b (ms_member r o Hr (or_introl Hs))).
      rewrite (nd1_get r o Hr (sub_reg' _ _ Hs)). exact E.
  Qed.
End StepBMirror.







(** * Part 4a'': the step over an empty root, on the abstract invariant *)
Section StepBAbs.
  Variable H : Type.
  Variable HO : ops H.
  Hypothesis HOK : ops_ok HO.
  Notation nodemap := (list (N * (H * bool))).
  Notation cachemap := (list (H * N)).
  Variables (V V' Vrest Vsub : nat -> N -> H -> bool -> Prop) (RT RT' RTrest : nat -> N -> Prop).
  Variable R : list H.
  Variable T : N.
  Variable h0 : nat.
  Variable q : N.
  Hypothesis HV : Vok V RT T.
  Hypothesis HV' : Vok V' RT' T.
  Hypothesis Hh0 : N.of_nat h0 < T.
  Hypothesis Hq : q < 2 ^ (T - N.of_nat h0 - 1).
  Notation inSub := (inSub h0 q).
  Notation belowD := (belowD h0 q).
  Notation inReg' := (inReg' h0 q).
  Notation upo := (upo h0).
  Notation Dp := (gp T h0 (2 * q)).
  Notation P0 := (gp T h0 (2 * q + 1)).
  Notation P' := (gp T (S h0) q).
  Variables (hC : H) (lC : bool) (a : H) (rem : bool).

  Hypothesis HVd : forall r o hh l, V r o hh l <->
    Vrest r o hh l \/ (r = h0 /\ o = 2 * q /\ hh = op_empty HO /\ l = false) \/ Vsub r o hh l.
  Hypothesis HV'd : forall r' o' hh l, V' r' o' hh l <->
    Vrest r' o' hh l \/ (exists r o, Vsub r o hh l /\ r' = S r /\ o' = upo r o).
  Hypothesis Hrest_out : forall r o hh l, Vrest r o hh l -> ~ inReg' r o.
  Hypothesis Hsub_in : forall r o hh l, Vsub r o hh l -> inSub r o.
  Hypothesis Hhead : Vsub h0 (2 * q + 1) hC lC.
  Hypothesis HRTd : forall r o, RT r o <->
    RTrest r o \/ (r = h0 /\ o = 2 * q) \/ (r = h0 /\ o = 2 * q + 1).
  Hypothesis HRT'd : forall r o, RT' r o <-> RTrest r o \/ (r = S h0 /\ o = q).
  Hypothesis HRTrest : forall r o, RTrest r o -> ~ inReg' r o.
  Hypothesis Hsep : forall r o k l, Vsub r o k l -> In k R -> l = true.
  Hypothesis HlC : lC = true -> hC = a.
  Hypothesis Hrem1 : rem = true -> In a R.
  Hypothesis Hrem2 : In a R -> rem = true.

  Variables (nd : nodemap) (ca : cachemap) (pNode : H * bool).
  Hypothesis G : GInv V RT R T nd ca.
  Hypothesis Hp0 : nodes_get nd P0 = Some pNode.
  Hypothesis HpC : fst pNode = hC.
  Notation ca1 := (if rem && op_eqb HO hC a then cached_move HO a P' ca else ca).
  Notation nd1 := (nodes_del P0 (nodes_del Dp nd)).
  Variables (nd2 : nodemap) (ca2 : cachemap).
  Hypothesis Eap : apply_moves H HO (allmoves T h0 h0 (2 * q) 2) (nd1, ca1) = (nd2, ca2).
  Notation nd3 := (nodes_put P' pNode nd2).

  Lemma sub_not_below r o : inSub r o -> ~ belowD r o.
  Proof. intros [_ A] [_ B]. lia. Qed.

  Lemma sub_top o : inSub h0 o -> o = 2 * q + 1.
  Proof. intros [_ A]. rewrite Nat.sub_diag in A. change (p2 0) with 1 in A. lia. Qed.

  Lemma upo_top : upo h0 (2 * q + 1) = q.
  Proof. unfold MapMutAdd.upo. rewrite N.sub_diag, rmbit_0. apply div2_odd_aux. Qed.

  Let HT : T <= 63 := v_T63 HV.

  Lemma Dr : inReg' h0 (2 * q).
  Proof. split; [lia|]. replace (S h0 - h0)%nat with 1%nat by lia. change (p2 1) with 2. lia. Qed.
  Lemma P0r : inReg' h0 (2 * q + 1).
  Proof. split; [lia|]. replace (S h0 - h0)%nat with 1%nat by lia. change (p2 1) with 2. lia. Qed.
  Lemma P'r : inReg' (S h0) q.
  Proof. split; [lia|]. rewrite Nat.sub_diag. change (p2 0) with 1. lia. Qed.

  (** nothing is stored below the empty root *)
  Lemma HU : forall r o, (r < h0)%nat -> belowD r o -> nodes_get nd (gp T r o) = None.
  Proof.
    intros r o Hr Hb. destruct (nodes_get nd (gp T r o)) as [[hh b]|] eqn:E; [exfalso|reflexivity].
    destruct (g_true G _ _ _ (nodes_get_In H _ _ _ E)) as (r1 & o1 & l & Ep & Hv).
    destruct (v_valid HV Hv) as [A B].
    destruct (reg'_valid T HT h0 Hh0 q Hq r o (below_reg' T HT h0 Hh0 q Hq r o Hb)) as [C D].
    destruct (gp_inj T r o r1 o1 C D A B Ep) as [<- <-].
    apply HVd in Hv as [Hv|[(-> & _)|Hv]].
    - exact (Hrest_out _ _ _ _ Hv (below_reg' T HT h0 Hh0 q Hq r o Hb)).
    - lia.
    - exact (sub_not_below r o (Hsub_in _ _ _ _ Hv) Hb).
  Qed.

  Lemma HfreshP : forall hh l, ~ V (S h0) q hh l.
  Proof.
    intros hh l Hv. apply HVd in Hv as [Hv|[(E & _)|Hv]].
    - exact (Hrest_out _ _ _ _ Hv P'r).
    - lia.
    - destruct (Hsub_in _ _ _ _ Hv) as [Hr _]. lia.
  Qed.

  Lemma V_sub_coords r o hh l : V r o hh l -> inSub r o -> Vsub r o hh l.
  Proof.
    intros Hv Hs. apply HVd in Hv as [Hv|[(-> & -> & _)|Hv]]; [exfalso| |exact Hv].
    - exact (Hrest_out _ _ _ _ Hv (sub_reg' T HT h0 Hh0 q Hq r o Hs)).
    - apply sub_top in Hs. lia.
  Qed.

  Lemma sub_valid r o : inSub r o -> N.of_nat r <= T /\ o < 2 ^ (T - N.of_nat r).
  Proof. intros Hs. exact (reg'_valid T HT h0 Hh0 q Hq r o (sub_reg' T HT h0 Hh0 q Hq r o Hs)). Qed.

  Lemma stored_sub r o v : (r < h0)%nat -> inSub r o -> nodes_get nd (gp T r o) = Some v ->
    exists l, Vsub r o (fst v) l.
  Proof.
    intros Hr Hs E. destruct v as [hh b].
    destruct (g_true G _ _ _ (nodes_get_In H _ _ _ E)) as (r1 & o1 & l & Ep & Hv).
    destruct (v_valid HV Hv) as [A B]. destruct (sub_valid r o Hs) as [C D].
    destruct (gp_inj T r o r1 o1 C D A B Ep) as [<- <-]. exists l. exact (V_sub_coords _ _ _ _ Hv Hs).
  Qed.

  Lemma V'_up r o hh l : Vsub r o hh l -> V' (S r) (upo r o) hh l.
  Proof. intros Hv. apply HV'd. right. exists r, o. auto. Qed.

  Lemma V'_new : V' (S h0) q hC lC.
  Proof. rewrite <- upo_top. apply V'_up, Hhead. Qed.

  Lemma known_up : forall r' o', known V' RT' R r' o' ->
    (~ inReg' r' o' /\ known V RT R r' o') \/
    (exists r o, inSub r o /\ known V RT R r o /\ r' = S r /\ o' = upo r o).
  Proof.
    intros r' o' Hk. induction Hk as [r' o' k Hv Hk|r' o' _ IH Hn].
    - apply HV'd in Hv as [Hv|(r & o & Hv & -> & ->)].
      + left. split; [exact (Hrest_out _ _ _ _ Hv)|].
        apply (kn_leaf _ _ _ _ _ k); [apply HVd; left; exact Hv|exact Hk].
      + right. exists r, o. split; [exact (Hsub_in _ _ _ _ Hv)|]. split; [|auto].
        apply (kn_leaf _ _ _ _ _ k); [apply HVd; right; right; exact Hv|exact Hk].
    - destruct IH as [[Hout Hk]|(r & o & Hs & Hk & -> & ->)].
      + left.
        assert (Hnr : ~ RT r' o').
        { intros C. apply HRTd in C as [C|[[-> ->]|[-> ->]]].
          - apply Hn, HRT'd. left. exact C.
          - exact (Hout Dr).
          - exact (Hout P0r). }
        split; [|apply kn_up; assumption].
        intros [Hr Ho]. apply Hout.
        destruct (Nat.eq_dec r' (S h0)) as [->|Hne]; [lia|].
        split; [lia|]. replace (S h0 - r')%nat with (S (S h0 - S r')) by lia. rewrite p2_S.
        pose proof (N.div_mod' o' 2). pose proof (N.mod_lt o' 2 ltac:(lia)). lia.
      + (* below the climbing node *)
        destruct (Nat.eq_dec r h0) as [->|Hne].
        * exfalso. apply sub_top in Hs. subst o. apply Hn, HRT'd. right. rewrite upo_top. auto.
        * destruct Hs as [Hr Ho]. assert (Hlt : (r < h0)%nat) by lia.
          assert (Hnr : ~ RT r o).
          { intros C. apply HRTd in C as [C|[[-> _]|[-> _]]]; [|lia|lia].
            apply (HRTrest _ _ C). apply (sub_reg' T HT h0 Hh0 q Hq). split; assumption. }
          right. exists (S r), (o / 2). split; [|split; [apply kn_up; assumption|]].
          -- split; [lia|]. replace (h0 - r)%nat with (S (h0 - S r)) in Ho by lia.
             rewrite p2_S in Ho. pose proof (N.div_mod' o 2). pose proof (N.mod_lt o 2 ltac:(lia)). lia.
          -- split; [reflexivity|]. unfold MapMutAdd.upo. rewrite rmbit_div2 by lia. f_equal. lia.
  Qed.

  Theorem stepB_GInv : GInv V' RT' R T nd3 ca2.
  Proof.
    pose proof (Bstep_moved H HO HOK T HT h0 Hh0 q Hq nd ca1 pNode HU nd2 ca2 Eap) as Bm.
    pose proof (Bstep_out H HO HOK T HT h0 Hh0 q Hq nd ca1 pNode HU nd2 ca2 Eap) as Bo.
    pose proof (Bstep_back H HO HOK T HT h0 Hh0 q Hq nd ca1 pNode HU nd2 ca2 Eap) as Bb.
    pose proof (Bstep_cache H HO HOK T HT h0 Hh0 q Hq nd ca1 HU nd2 ca2 Eap) as Bc.
    pose proof (Bstep_keys H HO HOK T HT h0 Hh0 q Hq nd ca1 HU nd2 ca2 Eap) as Bk.
    pose proof (Bstep_nodup H HO HOK T HT h0 Hh0 q Hq nd ca1 pNode (g_nodup G) HU nd2 ca2 Eap) as Bn.
    assert (Bnew : nodes_get nd3 P' = Some pNode) by (rewrite nodes_get_put, N.eqb_refl; reflexivity).
    assert (Hkeys1 : forall k, In k (map fst ca1) <-> In k (map fst ca)).
    { intros k. destruct (rem && op_eqb HO hC a); [apply (keys_cached_move H HO HOK)|reflexivity]. }
    (* a node of the rest keeps its position *)
    assert (Hrest : forall r o hh l, Vrest r o hh l -> nodes_get nd3 (gp T r o) = nodes_get nd (gp T r o)).
    { intros r o hh l Hv. assert (Hv0 : V r o hh l) by (apply HVd; left; exact Hv).
      destruct (v_valid HV Hv0) as [A B]. exact (Bo r o A B (Hrest_out _ _ _ _ Hv)). }
    constructor.
    - exact Bn.
    - (* every binding is true *)
      intros p hh b Hin. apply (nodes_get_In_iff H _ _ _ Bn) in Hin.
      destruct (Bb p (hh, b) Hin) as [[-> E]|[(r & o & Hr & Hs & -> & E)|(HpD & Hp0' & HpP & Hns & E)]].
      + exists (S h0), q, lC. split; [reflexivity|]. rewrite <- E in HpC. cbn [fst] in HpC.
        rewrite HpC. exact V'_new.
      + destruct (stored_sub r o _ Hr Hs E) as [l Hv]. cbn [fst] in Hv.
        exists (S r), (upo r o), l. split; [reflexivity|exact (V'_up _ _ _ _ Hv)].
      + destruct (g_true G _ _ _ (nodes_get_In H _ _ _ E)) as (r & o & l & -> & Hv).
        exists r, o, l. split; [reflexivity|].
        apply HVd in Hv as [Hv|[(-> & -> & _)|Hv]]; [apply HV'd; left; exact Hv|congruence|].
        exfalso. pose proof (Hsub_in _ _ _ _ Hv) as Hs.
        destruct (Nat.eq_dec r h0) as [->|Hne].
        * apply sub_top in Hs. subst o. congruence.
        * destruct Hs as [Hr Ho]. apply (Hns r o ltac:(lia)); [split; assumption|reflexivity].
    - intros k. rewrite Bk, Hkeys1. exact (g_cR G k).
    - (* the cached positions *)
      intros k p Hin.
      assert (HkR : In k R) by (apply (g_cR G), Hkeys1, Bk, in_map_iff; exists (k, p); auto).
      destruct (Bc k p Hin) as [(r & o & b & Hr & Hs & E & ->)|[Hin1 Hno]].
      + destruct (stored_sub r o _ Hr Hs E) as [l Hv]. cbn [fst] in Hv.
        rewrite (Hsep _ _ _ _ Hv HkR) in Hv. exists (S r), (upo r o). split; [exact (V'_up _ _ _ _ Hv)|reflexivity].
      + assert (Hnewc : rem = true -> hC = a -> exists r o, V' r o a true /\ P' = gp T r o).
        { intros Er Ea. exists (S h0), q. split; [|reflexivity].
          pose proof V'_new as Hn. rewrite Ea in Hn.
          assert (El : lC = true) by (apply (Hsep _ _ _ _ Hhead); rewrite Ea; exact (Hrem1 Er)).
          rewrite El in Hn. exact Hn. }
        assert (Hold : In (k, p) ca -> (k = a -> rem && op_eqb HO hC a = false) ->
                  exists r o, V' r o k true /\ p = gp T r o).
        { intros Hinc Hcond. destruct (g_cpos G _ _ Hinc) as (r & o & Hv & ->).
          pose proof (g_tgt G Hv HkR) as Est.
          exists r, o. split; [|reflexivity].
          apply HVd in Hv as [Hv|[(_ & _ & _ & C)|Hv]]; [apply HV'd; left; exact Hv|discriminate|].
          exfalso. pose proof (Hsub_in _ _ _ _ Hv) as Hs.
          destruct (Nat.eq_dec r h0) as [->|Hne].
          - apply sub_top in Hs. subst o.
            assert (Hv0 : V h0 (2 * q + 1) k true) by (apply HVd; right; right; exact Hv).
            assert (Hv1 : V h0 (2 * q + 1) hC lC) by (apply HVd; right; right; exact Hhead).
            destruct (v_fun HV Hv0 Hv1) as [Ek El]. symmetry in El. pose proof (HlC El) as Ea.
            assert (Eka : k = a) by congruence. specialize (Hcond Eka).
            rewrite Eka in HkR. rewrite (Hrem2 HkR) in Hcond.
            rewrite Ea, (Heqb_refl H HO HOK) in Hcond. discriminate.
          - destruct Hs as [Hr Ho]. exact (Hno r o true ltac:(lia) (conj Hr Ho) Est). }
        destruct (rem && op_eqb HO hC a) eqn:Econd.
        * apply Bool.andb_true_iff in Econd as [Er Ea]. apply HOK in Ea.
          apply (In_cached_move H HO HOK) in Hin1 as [[-> ->]|[Hne Hinc]].
          -- exact (Hnewc Er Ea).
          -- apply Hold; [exact Hinc|]. intros C. contradiction.
        * apply Hold; [exact Hin1|reflexivity].
    - intros k Hk. destruct (g_Rin G _ Hk) as (r & o & Hv).
      apply HVd in Hv as [Hv|[(_ & _ & _ & C)|Hv]]; [|discriminate|].
      + exists r, o. apply HV'd. left. exact Hv.
      + exists (S r), (upo r o). exact (V'_up _ _ _ _ Hv).
    - (* the roots *)
      intros r o Hr. apply HRT'd in Hr as [Hr|[-> ->]]; [|rewrite Bnew; discriminate].
      assert (Hr0 : RT r o) by (apply HRTd; left; exact Hr).
      destruct (v_root HV Hr0) as (hh & l & Hv). destruct (v_valid HV Hv) as [A B].
      rewrite (Bo r o A B (HRTrest _ _ Hr)). exact (g_roots G Hr0).
    - (* the remembered leaves *)
      intros r' o' k Hv Hk. apply HV'd in Hv as [Hv|(r & o & Hv & -> & ->)].
      + rewrite (Hrest _ _ _ _ Hv). apply (g_tgt G); [apply HVd; left; exact Hv|exact Hk].
      + assert (Hv0 : V r o k true) by (apply HVd; right; right; exact Hv).
        pose proof (g_tgt G Hv0 Hk) as Est. pose proof (Hsub_in _ _ _ _ Hv) as Hs.
        destruct (Nat.eq_dec r h0) as [->|Hne].
        * apply sub_top in Hs. subst o. rewrite upo_top, Bnew. congruence.
        * destruct Hs as [Hr Ho]. apply Bm; [lia|split; assumption|exact Est].
    - (* the siblings of the known coordinates *)
      intros r' o' Hk Hn. destruct (known_up r' o' Hk) as [[Hout Hk0]|(r & o & Hs & Hk0 & -> & ->)].
      + assert (Hnr : ~ RT r' o').
        { intros C. apply HRTd in C as [C|[[-> ->]|[-> ->]]].
          - apply Hn, HRT'd. left. exact C.
          - exact (Hout Dr).
          - exact (Hout P0r). }
        pose proof (g_sibs G Hk0 Hnr) as Hst.
        destruct (known_valid H V RT R T HV _ _ Hk0 Hnr) as [A B].
        pose proof (lxor1_valid T r' o' A B) as B'.
        rewrite Bo; [exact Hst|lia|exact B'|].
        intros [Hr Ho]. destruct (Nat.eq_dec r' (S h0)) as [->|Hne].
        * (* the sibling of the new position would have been stored *)
          rewrite Nat.sub_diag in Ho. change (p2 0) with 1 in Ho.
          assert (Eq : N.lxor o' 1 = q) by lia. rewrite Eq in Hst.
          destruct (nodes_get nd P') as [[hh b]|] eqn:E; [|congruence].
          destruct (g_true G _ _ _ (nodes_get_In H _ _ _ E)) as (r1 & o1 & l & Ep & Hv).
          destruct (v_valid HV Hv) as [C D].
          destruct (reg'_valid T HT h0 Hh0 q Hq _ _ P'r) as [C' D'].
          destruct (gp_inj T (S h0) q r1 o1 C' D' C D Ep) as [<- <-]. exact (HfreshP _ _ Hv).
        * apply Hout. split; [lia|]. replace (S h0 - r')%nat with (S (h0 - r')) in * by lia.
          rewrite p2_S in *. pose proof (lxor1_div2 o'). pose proof (N.div_mod' o' 2).
          pose proof (N.div_mod' (N.lxor o' 1) 2). pose proof (N.mod_lt o' 2 ltac:(lia)).
          pose proof (N.mod_lt (N.lxor o' 1) 2 ltac:(lia)). lia.
      + destruct (Nat.eq_dec r h0) as [->|Hne].
        * exfalso. apply sub_top in Hs. subst o. apply Hn, HRT'd. right. rewrite upo_top. auto.
        * pose proof Hs as [Hr Ho]. assert (Hlt : (r < h0)%nat) by lia.
          assert (Hnr : ~ RT r o).
          { intros C. apply HRTd in C as [C|[[-> _]|[-> _]]]; [|lia|lia].
            exact (HRTrest _ _ C (sub_reg' T HT h0 Hh0 q Hq r o Hs)). }
          pose proof (g_sibs G Hk0 Hnr) as Hst.
          assert (Hs' : inSub r (N.lxor o 1)).
          { split; [exact Hr|]. replace (h0 - r)%nat with (S (h0 - S r)) in * by lia.
            rewrite p2_S in *. pose proof (lxor1_div2 o). pose proof (N.div_mod' o 2).
            pose proof (N.div_mod' (N.lxor o 1) 2). pose proof (N.mod_lt o 2 ltac:(lia)).
            pose proof (N.mod_lt (N.lxor o 1) 2 ltac:(lia)). lia. }
          destruct (nodes_get nd (gp T r (N.lxor o 1))) as [v|] eqn:E; [|congruence].
          unfold MapMutAdd.upo. rewrite <- rmbit_lxor1 by lia.
          fold (upo r (N.lxor o 1)). rewrite (Bm r (N.lxor o 1) v Hlt Hs' E). discriminate.
  Qed.

  (** ** nothing else is stored *)
  Lemma sub_lt_notroot r o : (r < h0)%nat -> inSub r o -> ~ RT r o /\ ~ RT' (S r) (upo r o).
  Proof.
    intros Hr Hs. split.
    - intros C. apply HRTd in C as [C|[[-> _]|[-> _]]]; [|lia|lia].
      exact (HRTrest _ _ C (sub_reg' T HT h0 Hh0 q Hq r o Hs)).
    - intros C. apply HRT'd in C as [C|[C _]]; [|lia].
      exact (HRTrest _ _ C (upo_reg' T HT h0 Hh0 q Hq r o (or_introl Hs))).
  Qed.

  Lemma sub_sib r o : (r < h0)%nat -> inSub r o -> inSub r (N.lxor o 1).
  Proof.
    intros Hr [Hle Ho]. split; [exact Hle|]. replace (h0 - r)%nat with (S (h0 - S r)) in * by lia.
    rewrite p2_S in *. pose proof (lxor1_div2 o). pose proof (N.div_mod' o 2).
    pose proof (N.div_mod' (N.lxor o 1) 2). pose proof (N.mod_lt o 2 ltac:(lia)).
    pose proof (N.mod_lt (N.lxor o 1) 2 ltac:(lia)). lia.
  Qed.

  Lemma sub_parent r o : inSub (S r) (o / 2) -> inSub r o.
  Proof.
    intros [Hle Ho]. split; [lia|]. replace (h0 - r)%nat with (S (h0 - S r)) by lia.
    rewrite p2_S. pose proof (N.div_mod' o 2). pose proof (N.mod_lt o 2 ltac:(lia)). lia.
  Qed.

  Lemma reg'_parent r o : (r <= h0)%nat -> inReg' r o -> inReg' (S r) (o / 2).
  Proof.
    intros Hr [Hle Ho]. split; [lia|]. replace (S h0 - r)%nat with (S (S h0 - S r)) in Ho by lia.
    rewrite p2_S in Ho. pose proof (N.div_mod' o 2). pose proof (N.mod_lt o 2 ltac:(lia)). lia.
  Qed.

  Lemma known_fwd : forall r o, known V RT R r o ->
    (inSub r o -> known V' RT' R (S r) (upo r o)) /\ (~ inReg' r o -> known V' RT' R r o).
  Proof.
    intros r o Hk. induction Hk as [r o k Hv Hk|r o Hk [IH1 IH2] Hn].
    - apply HVd in Hv as [Hv|[(_ & _ & _ & C)|Hv]]; [|discriminate|].
      + split.
        * intros Hs. exfalso. exact (Hrest_out _ _ _ _ Hv (sub_reg' T HT h0 Hh0 q Hq r o Hs)).
        * intros _. apply (kn_leaf _ _ _ _ _ k); [apply HV'd; left; exact Hv|exact Hk].
      + split.
        * intros _. exact (kn_leaf _ _ _ _ _ k (V'_up _ _ _ _ Hv) Hk).
        * intros Hout. exfalso. exact (Hout (sub_reg' T HT h0 Hh0 q Hq r o (Hsub_in _ _ _ _ Hv))).
    - split.
      + intros Hs. pose proof (sub_parent r o Hs) as Hs0. destruct Hs as [Hle _].
        destruct (sub_lt_notroot r o ltac:(lia) Hs0) as [_ Hn'].
        replace (upo (S r) (o / 2)) with (upo r o / 2).
        * apply kn_up; [exact (IH1 Hs0)|exact Hn'].
        * unfold MapMutAdd.upo. rewrite rmbit_div2 by lia. f_equal. lia.
      + intros Hout.
        assert (Hout0 : ~ inReg' r o).
        { intros C. destruct (Nat.le_gt_cases r h0) as [L|Gt]; [exact (Hout (reg'_parent r o L C))|].
          destruct C as [Hle Ho]. assert (r = S h0) by lia. subst r.
          rewrite Nat.sub_diag in Ho. change (p2 0) with 1 in Ho. assert (o = q) by lia. subst o.
          destruct (known_V H V RT R T HV _ _ Hk) as (h & l & Hv). exact (HfreshP _ _ Hv). }
        apply kn_up; [exact (IH2 Hout0)|]. intros C. apply HRT'd in C as [C|[-> ->]].
        * apply Hn, HRTd. left. exact C.
        * exact (Hout0 P'r).
  Qed.

  Lemma upo_inj r o1 o2 : inSub r o1 -> inSub r o2 -> upo r o1 = upo r o2 -> o1 = o2.
  Proof.
    intros H1 H2 E. rewrite (upo_sub T HT h0 Hh0 q Hq r o1 H1), (upo_sub T HT h0 Hh0 q Hq r o2 H2) in E.
    destruct H1 as [_ A], H2 as [_ B]. lia.
  Qed.

  Lemma img_get : forall r o, (r < h0)%nat -> inSub r o ->
    nodes_get nd3 (gp T (S r) (upo r o)) = nodes_get nd (gp T r o).
  Proof.
    intros r o Hr Hs.
    pose proof (Bstep_moved H HO HOK T HT h0 Hh0 q Hq nd ca1 pNode HU nd2 ca2 Eap) as Bm.
    pose proof (Bstep_back H HO HOK T HT h0 Hh0 q Hq nd ca1 pNode HU nd2 ca2 Eap) as Bb.
    destruct (nodes_get nd (gp T r o)) as [v|] eqn:E; [exact (Bm r o v Hr Hs E)|].
    destruct (nodes_get nd3 (gp T (S r) (upo r o))) as [v|] eqn:E'; [exfalso|reflexivity].
    pose proof (upo_reg' T HT h0 Hh0 q Hq r o (or_introl Hs)) as Hreg.
    destruct (reg'_valid T HT h0 Hh0 q Hq _ _ Hreg) as [A B].
    destruct (Bb _ _ E') as [[Ep _]|[(r1 & o1 & Hr1 & Hs1 & Ep & E1)|(HpD & HpP0 & HpP & Hns & E1)]].
    - destruct (reg'_valid T HT h0 Hh0 q Hq _ _ P'r) as [C D].
      destruct (gp_inj T (S r) (upo r o) (S h0) q A B C D Ep) as [Er _]. lia.
    - pose proof (upo_reg' T HT h0 Hh0 q Hq r1 o1 (or_introl Hs1)) as Hreg1.
      destruct (reg'_valid T HT h0 Hh0 q Hq _ _ Hreg1) as [C D].
      destruct (gp_inj T (S r) (upo r o) (S r1) (upo r1 o1) A B C D Ep) as [Er Eo].
      assert (r1 = r) by lia. subst r1. rewrite (upo_inj r o o1 Hs Hs1 Eo) in E. congruence.
    - destruct v as [hh b].
      destruct (g_true G _ _ _ (nodes_get_In H _ _ _ E1)) as (r2 & o2 & l & Ep & Hv).
      destruct (v_valid HV Hv) as [C D].
      destruct (gp_inj T (S r) (upo r o) r2 o2 A B C D Ep) as [<- <-].
      apply HVd in Hv as [Hv|[(Er & Eo & _)|Hv]].
      + exact (Hrest_out _ _ _ _ Hv Hreg).
      + apply HpD. rewrite Er, Eo. reflexivity.
      + pose proof (Hsub_in _ _ _ _ Hv) as Hs2. destruct (Nat.eq_dec (S r) h0) as [Eh|Hne].
        * rewrite Eh in Hs2. apply sub_top in Hs2. apply HpP0. rewrite Eh, Hs2. reflexivity.
        * destruct Hs2 as [Hle Ho2]. apply (Hns (S r) (upo r o) ltac:(lia)); [split; assumption|reflexivity].
  Qed.

  Hypothesis HTd : Tidy V RT R T nd.

  Theorem stepB_tidy : Tidy V' RT' R T nd3.
  Proof.
    destruct HTd as [T1 T2].
    pose proof (Bstep_out H HO HOK T HT h0 Hh0 q Hq nd ca1 pNode HU nd2 ca2 Eap) as Bo.
    assert (Bnew : nodes_get nd3 P' = Some pNode) by (rewrite nodes_get_put, N.eqb_refl; reflexivity).
    assert (Hrest : forall r o hh l, Vrest r o hh l -> nodes_get nd3 (gp T r o) = nodes_get nd (gp T r o)).
    { intros r o hh l Hv. assert (Hv0 : V r o hh l) by (apply HVd; left; exact Hv).
      destruct (v_valid HV Hv0) as [A B]. exact (Bo r o A B (Hrest_out _ _ _ _ Hv)). }
    split.
    - intros r' o' h l Hv E. apply HV'd in Hv as [Hv|(r & o & Hv & -> & ->)].
      + rewrite (Hrest _ _ _ _ Hv) in E. apply (T1 r' o' h l); [apply HVd; left; exact Hv|exact E].
      + assert (Hv0 : V r o h l) by (apply HVd; right; right; exact Hv).
        pose proof (Hsub_in _ _ _ _ Hv) as Hs. destruct (Nat.eq_dec r h0) as [->|Hne].
        * apply sub_top in Hs. subst o. rewrite upo_top, Bnew in E. apply (T1 _ _ _ _ Hv0). congruence.
        * destruct Hs as [Hle Ho]. rewrite (img_get r o ltac:(lia) (conj Hle Ho)) in E.
          exact (T1 _ _ _ _ Hv0 E).
    - intros r' o' h l Hv _ Hs. apply HV'd in Hv as [Hv|(r & o & Hv & -> & ->)].
      + rewrite (Hrest _ _ _ _ Hv) in Hs. assert (Hv0 : V r' o' h l) by (apply HVd; left; exact Hv).
        pose proof (Hrest_out _ _ _ _ Hv) as Hout.
        destruct (T2 _ _ _ _ Hv0 (fun C => C) Hs) as [A|[A|[A B]]].
        * left. apply HRT'd. left. apply HRTd in A as [A|[[-> ->]|[-> ->]]]; [exact A| |].
          -- exfalso. exact (Hout Dr).
          -- exfalso. exact (Hout P0r).
        * right. left. exact (proj2 (known_fwd _ _ A) Hout).
        * assert (Hout' : ~ inReg' r' (N.lxor o' 1)).
          { intros [Hr Ho]. destruct (Nat.eq_dec r' (S h0)) as [->|Hne].
            - rewrite Nat.sub_diag in Ho. change (p2 0) with 1 in Ho.
              assert (Eq : N.lxor o' 1 = q) by lia. rewrite Eq in A.
              destruct (known_V H V RT R T HV _ _ A) as (h' & l' & Hv'). exact (HfreshP _ _ Hv').
            - apply Hout. split; [lia|]. replace (S h0 - r')%nat with (S (h0 - r')) in * by lia.
              rewrite p2_S in *. pose proof (lxor1_div2 o'). pose proof (N.div_mod' o' 2).
              pose proof (N.div_mod' (N.lxor o' 1) 2). pose proof (N.mod_lt o' 2 ltac:(lia)).
              pose proof (N.mod_lt (N.lxor o' 1) 2 ltac:(lia)). lia. }
          right. right. split; [exact (proj2 (known_fwd _ _ A) Hout')|].
          intros C. apply HRT'd in C as [C|[-> C]]; [apply B, HRTd; left; exact C|].
          rewrite C in Hout'. exact (Hout' P'r).
      + pose proof (Hsub_in _ _ _ _ Hv) as Hs0. destruct (Nat.eq_dec r h0) as [->|Hne].
        * apply sub_top in Hs0. subst o. left. apply HRT'd. right. rewrite upo_top. auto.
        * pose proof Hs0 as [Hle Ho]. assert (Hlt : (r < h0)%nat) by lia.
          rewrite (img_get r o Hlt Hs0) in Hs.
          assert (Hv0 : V r o h l) by (apply HVd; right; right; exact Hv).
          destruct (sub_lt_notroot r o Hlt Hs0) as [Hnr _].
          destruct (T2 _ _ _ _ Hv0 (fun C => C) Hs) as [A|[A|[A B]]]; [contradiction| |].
          -- right. left. exact (proj1 (known_fwd _ _ A) Hs0).
          -- pose proof (sub_sib r o Hlt Hs0) as Hs1.
             right. right. unfold MapMutAdd.upo. rewrite <- rmbit_lxor1 by lia. fold (upo r (N.lxor o 1)).
             split; [exact (proj1 (known_fwd _ _ A) Hs1)|exact (proj2 (sub_lt_notroot _ _ Hlt Hs1))].
  Qed.
End StepBAbs.

(** arithmetic helpers *)
Lemma gp_0 T o : gp T 0 o = o.
Proof. unfold gp, UtilsGeom.gpos. change (N.of_nat 0) with 0. rewrite mrs_gstart_0. lia. Qed.
Lemma ofnat_S h : N.of_nat (S h) = N.of_nat h + 1.
Proof. lia. Qed.
Lemma subS T h : T - N.of_nat (S h) = T - N.of_nat h - 1.
Proof. lia. Qed.
Lemma half_bound T h q : N.of_nat h < T -> q < 2 ^ (T - N.of_nat h - 1) ->
  2 * q + 1 < 2 ^ (T - N.of_nat h) /\ 2 * q < 2 ^ (T - N.of_nat h).
Proof.
  intros Hh Hq. replace (T - N.of_nat h) with (T - N.of_nat h - 1 + 1) by lia.
  rewrite UtilsGeom.pow2_S. lia.
Qed.
Lemma div2_odd q : (2 * q + 1) / 2 = q.
Proof. rewrite N.mul_comm, N.div_add_l by lia. change (1 / 2) with 0. lia. Qed.
Lemma div2_even q : 2 * q / 2 = q.
Proof. rewrite N.mul_comm. apply N.div_mul. lia. Qed.
Lemma two_cases o q : o / 2 = q -> o = 2 * q \/ o = 2 * q + 1.
Proof.
  intros E. pose proof (N.div_mod' o 2) as Hdm. pose proof (N.mod_lt o 2 ltac:(lia)). lia.
Qed.

(** * Part 4b: the loop of [addSingle] *)
Section Loop.
  Variable H : Type.
  Variable HO : ops H.
  Hypothesis HOK : ops_ok HO.
  Notation hash2 := (op_hash2 HO).
  Notation empty := (op_empty HO).
  Notation Heqb := (op_eqb HO).
  Hypothesis Hh2 : forall x y, Heqb (hash2 x y) empty = false.
  Variables (s : slots H) (a : H) (T : N) (full rem : bool) (R : list H).
  Notation n := (N.of_nat (length s)).
  Notation s' := (s ++ [Some a]).
  Hypothesis HnT : n + 1 <= 2 ^ T.
  Hypothesis HT : T <= 63.
  Hypothesis Hlive : StumpAdd.live_ok H HO s.
  Notation R' := (if rem then R ++ [a] else R).
  Notation Vh h := (Vent HO (Fh HO s a h)).
  Notation RTh h := (RTent (Fh HO s a h)).

  Lemma Vh_ok h : al s h -> Vok (Vh h) (RTh h) T.
  Proof. intros Ha. apply Vent_ok; [apply Fh_ewf; assumption|exact HT]. Qed.


  Lemma al_row h : al s h -> N.of_nat h <= T.
  Proof.
    intros [m E]. assert (m <> 0) by (intros ->; lia). pose proof (p2_pos h).
    assert (Hle : p2 h <= 2 ^ T) by nia. unfold p2 in Hle.
    destruct (N.le_gt_cases (N.of_nat h) T) as [L|G]; [exact L|exfalso].
    pose proof (UtilsGeom.pow2_lt _ _ G). lia.
  Qed.

  Lemma alS_row h : al s (S h) -> N.of_nat h < T.
  Proof. intros Ha. pose proof (al_row _ Ha). lia. Qed.

  Lemma Vpt_head (c : ctree H) k q : Vpt c k q k q (chash c) (cleafb H c).
  Proof.
    apply (Vpt_any H c k q true k). exists (head_node H c k q true k).
    split; [apply place_tree_head_in|cbn; auto].
  Qed.

  (** the root of row [h] of [s] as the view [Vh h] sees it *)
  Lemma Vh_old_root h : al s (S h) ->
    exists l, Vh h h (2 * (n / p2 (S h))) (root_hash HO (oldt HO s h)) l.
  Proof.
    intros Ha. destruct (step_coords H s h Ha) as (_ & E2 & _).
    assert (Hin : In (h, Lh s (S h), oldt HO s h) (Fh HO s a h)).
    { apply (Fh_split H HO s a h _ Ha). right. left. reflexivity. }
    destruct (oldt HO s h) as [c|] eqn:Ec.
    - exists (cleafb H c).
      assert (Hv : Vent HO [(h, Lh s (S h), Some c)] h (2 * (n / p2 (S h))) (chash c) (cleafb H c)).
      { apply Vent_single. rewrite E2. apply Vpt_head. }
      destruct Hv as (e & x & [<-|[]] & Hx). exists (h, Lh s (S h), Some c), x. auto.
    - exists false.
      assert (Hv : Vent HO [(h, Lh s (S h), None)] h (2 * (n / p2 (S h))) empty false).
      { apply Vent_single. rewrite E2. auto. }
      destruct Hv as (e & x & [<-|[]] & Hx). exists (h, Lh s (S h), None), x. auto.
  Qed.

  Lemma root_lookup h nd ca : al s (S h) -> GInv (Vh h) (RTh h) R' T nd ca ->
    exists b, nodes_get nd (gp T h (2 * (n / p2 (S h)))) = Some (root_hash HO (oldt HO s h), b).
  Proof.
    intros Ha G. destruct (al_S_inv H s h Ha) as [Ha0 _]. pose proof (Vh_ok h Ha0) as HV.
    assert (Hrt : RTh h h (2 * (n / p2 (S h)))).
    { apply (step_roots_before H HO s a h _ _ Ha). right. left. auto. }
    pose proof (g_roots G Hrt) as Hst.
    destruct (nodes_get nd (gp T h (2 * (n / p2 (S h))))) as [[hn bn]|] eqn:E; [|congruence].
    exists bn. f_equal. f_equal.
    destruct (g_true G _ _ _ (nodes_get_In H _ _ _ E)) as (r & o & l & Ep & Hv).
    destruct (Vh_old_root h Ha) as (l0 & Hv0).
    destruct (gp_inj' H (Vh h) (RTh h) T HV _ _ _ _ _ _ _ _ Hv0 Hv Ep) as (_ & _ & E' & _).
    symmetry. exact E'.
  Qed.

  Lemma oldt_nonemp h c : oldt HO s h = Some c -> Heqb (chash c) empty = false.
  Proof.
    intros Ec. unfold oldt in Ec.
    exact (compress_nonemp H HO Hh2 _ _ _ (live_ok_skipn H HO _ _ Hlive) Ec).
  Qed.

  Hypothesis HaR : ~ In a R.
  (** no inner node of the new forest has the hash of a remembered leaf *)
  Hypothesis Hsep : forall x, In x (layout HO s') -> In (nhash x) R' -> nleaf x = true.

  Lemma Fold_row_ge h r o : RTent (Fold HO s h) r o -> (h <= r)%nat.
  Proof.
    intros (k & lo & t & He & -> & _). apply In_Fold in He as [_ Hk]. exact Hk.
  Qed.

  Lemma HnT' : n <= 2 ^ T.
  Proof. clear -HnT. lia. Qed.

  Lemma Hn63' : n + 1 <= 2 ^ 63.
  Proof. clear -HnT HT. assert (2 ^ T <= 2 ^ 63) by (apply UtilsGeom.pow2_le; exact HT). lia. Qed.

  Lemma sep_cl h C r o k l : al s h -> cl HO s a h = Some C -> Vpt C h (n / p2 h) r o k l ->
    In k R' -> l = true.
  Proof.
    intros Ha EC Hv Hk. apply Vpt_tnodes in Hv.
    destruct (cl_final H HO s a Hn63' (64 - h) h C (le_n _) Ha EC k l Hv) as (x & Hx & <- & <-).
    exact (Hsep x Hx Hk).
  Qed.

  Lemma rem_iff : In a R' <-> rem = true.
  Proof.
    clear -HaR. destruct rem; [split; [reflexivity|intros _; apply in_or_app; right; left; reflexivity]|].
    split; [intros C; contradiction|discriminate].
  Qed.

  Theorem as_loop_ok : forall fuel h (st : maps H) pNode position,
    (64 - h <= fuel)%nat -> al s h -> position = gp T h (n / p2 h) ->
    (exists C, cl HO s a h = Some C /\ fst pNode = chash C) ->
    nodes_get (fst st) position = Some pNode ->
    GInv (Vh h) (RTh h) R' T (fst st) (snd st) ->
    (full = false -> Tidy (Vh h) (RTh h) R' T (fst st)) ->
    exists st', as_loop HO fuel n T full a rem (N.of_nat h) pNode position st = Some st' /\
                GInv (Vlay HO s') (RTlay HO s') R' T (fst st') (snd st') /\
                (full = false -> Tidy (Vlay HO s') (RTlay HO s') R' T (fst st')).
  Proof.
    induction fuel as [|f IH]; intros h st pNode position Hf Ha Hpos (C & EC & EpN) Hpn G HTd.
    { pose proof (al_row h Ha) as Hr. clear -Hr Hf HT. lia. }
    cbn [as_loop]. rewrite bit_test.
    destruct (N.testbit n (N.of_nat h)) eqn:Hb.
    2:{ (* the loop ends: [Fh h] is the forest of [s'] *)
        exists st. split; [reflexivity|].
        destruct (Vent_ext H HO _ _ (fun e => forest_snoc_Fh H HO s a h e Ha Hb)) as [EV ER].
        assert (EV' : forall r o hh l, Vh h r o hh l <-> Vlay HO s' r o hh l)
          by (intros r o hh l; rewrite Vlay_Vent; symmetry; apply EV).
        assert (ER' : forall r o, RTh h r o <-> RTlay HO s' r o)
          by (intros r o; rewrite RTlay_RTent; symmetry; apply ER).
        split; [exact (GInv_ext H (Vh h) _ (RTh h) _ R' T _ _ EV' ER' G)|].
        intros Hfull. exact (Tidy_ext H (Vh h) _ (RTh h) _ R' T _ EV' ER' (HTd Hfull)). }
    pose proof (al_S H s h Ha Hb) as HaS. pose proof (alS_row h HaS) as HhT.
    assert (Hh63 : (h < 255)%nat) by (clear -HhT HT; lia).
    assert (Hf' : (64 - S h <= f)%nat) by (clear -Hf; lia).
    destruct (step_coords H s h HaS) as (E1 & E2 & E3 & E4).
    pose proof (Vh_ok h Ha) as HV. pose proof (Vh_ok (S h) HaS) as HV'.
    assert (HrtS : RTh (S h) (S h) (n / p2 (S h))).
    { apply (step_roots_after H HO s a h _ _ HaS). right. auto. }
    assert (Hq : n / p2 (S h) < 2 ^ (T - N.of_nat h - 1)).
    { destruct (v_root HV' HrtS) as (h0 & l0 & Hv0). destruct (v_valid HV' Hv0) as [_ B].
      rewrite subS in B. exact B. }
    destruct (half_bound T h _ HhT Hq) as [Hq2 Hq3].
    (* structure of the next view, for the pruning *)
    assert (Hrp' : Vrp (Vh (S h)) (RTh (S h))) by (apply (Vent_rp H HO _ T), Fh_ewf; assumption).
    assert (Hpair : (exists hh l, Vh (S h) h (2 * (n / p2 (S h))) hh l) <->
                    (exists hh l, Vh (S h) h (N.lxor (2 * (n / p2 (S h))) 1) hh l)).
    { assert (Hnr : forall o, ~ RTh (S h) h o).
      { intros o C0. apply (step_roots_after H HO s a h _ _ HaS) in C0 as [C0|[C0 _]];
          [|clear -C0; lia].
        destruct C0 as (k & lo & t & He & -> & _). apply In_Fold in He as [_ Hk]. cbn [fst] in Hk.
        clear -Hk. lia. }
      pose proof (Fh_ewf H HO s a (S h) T HaS HnT) as Hewf. pose proof (Fh_twf H HO s a (S h)) as Htwf.
      split; intros (hh & l & Hv).
      - exact (Vent_sib H HO _ T Hewf Htwf _ _ _ _ Hv (Hnr _)).
      - destruct (Vent_sib H HO _ T Hewf Htwf _ _ _ _ Hv (Hnr _)) as (h' & l' & Hv').
        rewrite lxor1_invol in Hv'. eauto. }
    (* the root of row [h] *)
    assert (Erp : rootPosition n (N.of_nat h) T = gp T h (2 * (n / p2 (S h)))).
    { rewrite (rootPosition_gpos n (N.of_nat h) T HT (N.lt_le_incl _ _ HhT) HnT').
      unfold gp. rewrite p2_S'. reflexivity. }
    cbv zeta. rewrite Erp. destruct (root_lookup h (fst st) (snd st) HaS G) as [bn Eroot]. rewrite Eroot.
    (* the parent position *)
    assert (Epar : Parent position T = gp T (S h) (n / p2 (S h))).
    { rewrite Hpos, E4. unfold gp. rewrite (Parent_gpos T (N.of_nat h) _ HT HhT Hq2).
      rewrite div2_odd, ofnat_S. reflexivity. }
    rewrite Epar.
    assert (Epn : forall nd,
              pruneNieces HO T nd (gp T (S h) (n / p2 (S h))) =
              prunePosition HO T nd (gp T h (2 * (n / p2 (S h))))).
    { intros nd. unfold pruneNieces, gp.
      rewrite (DetectRow_gpos T (N.of_nat (S h)) _ HT ltac:(rewrite ofnat_S; clear -HhT; lia)
                 ltac:(rewrite subS; exact Hq)).
      destruct (N.eqb_spec (N.of_nat (S h)) 0) as [E0|_]; [clear -E0; lia|].
      rewrite ofnat_S, (LeftChild_gpos T (N.of_nat h) _ HT HhT Hq). reflexivity. }
    assert (HnR : forall o, ~ RTh (S h) h o).
    { intros o C0. apply (step_roots_after H HO s a h _ _ HaS) in C0 as [C0|[C0 _]];
        [|clear -C0; lia].
      apply Fold_row_ge in C0. clear -C0. lia. }
    (* the new position is not touched by the pruning of its children *)
    assert (Hkeep : forall nd v, nodes_get nd (gp T (S h) (n / p2 (S h))) = Some v ->
              nodes_get (prunePosition HO T nd (gp T h (2 * (n / p2 (S h))))) (gp T (S h) (n / p2 (S h))) = Some v).
    { intros nd v Ev. rewrite prunePosition_get_other; [exact Ev| |].
      - unfold gp. pose proof (gpos_row_mono T (N.of_nat h) (2 * (n / p2 (S h))) (N.of_nat (S h)) (n / p2 (S h))
                                 ltac:(clear; lia) ltac:(clear -HhT; lia) Hq3) as Hlt.
        intros E. rewrite E in Hlt. exact (N.lt_irrefl _ Hlt).
      - unfold gp. rewrite (sibling_gpos T (N.of_nat h) _ (N.lt_le_incl _ _ HhT)).
        pose proof (gpos_row_mono T (N.of_nat h) (N.lxor (2 * (n / p2 (S h))) 1) (N.of_nat (S h)) (n / p2 (S h))
                      ltac:(clear; lia) ltac:(clear -HhT; lia) (lxor1_valid T h _ HhT Hq3)) as Hlt.
        intros E. rewrite E in Hlt. exact (N.lt_irrefl _ Hlt). }
    destruct (oldt HO s h) as [c|] eqn:Ec.
    - (* case A: the root is not empty *)
      cbn [fst root_hash]. rewrite (oldt_nonemp h c Ec).
      cbn [fst snd]. rewrite Epn, (add8_succ h Hh63).
      assert (G1 : GInv (Vh (S h)) (RTh (S h)) R' T
                     (nodes_put (gp T (S h) (n / p2 (S h))) (hash2 (chash c) (chash C), full) (fst st)) (snd st)).
      { apply (put_node H (Vh h) (Vh (S h)) (RTh h) (RTh (S h)) T HV' R' _ _ h (n / p2 (S h)));
          try assumption.
        + intros r o hh l. exact (stepA_view H HO s a h c C r o hh l HaS Ec EC).
        + intros r o Hr. apply (step_roots_after H HO s a h _ _ HaS) in Hr as [Hr|Hr]; [left|right; exact Hr].
          apply (step_roots_before H HO s a h _ _ HaS). left. exact Hr.
        + intros r o Hr. apply (step_roots_before H HO s a h _ _ HaS) in Hr as [Hr|[[-> ->]|[-> ->]]].
          * left. apply (step_roots_after H HO s a h _ _ HaS). left. exact Hr.
          * right. split; [reflexivity|apply div2_even].
          * right. split; [reflexivity|apply div2_odd].
        + intros o Eo. apply (step_roots_before H HO s a h _ _ HaS). right.
          destruct (two_cases _ _ Eo) as [-> | ->]; [left|right]; auto. }
      apply IH; [exact Hf'|exact HaS|reflexivity| | | |].
      + exists (CNode (hash2 (chash c) (chash C)) c C).
        rewrite (cl_S H HO s a h HaS), Ec, EC. cbn [join fst chash]. rewrite EpN. auto.
      + cbn [fst]. apply Hkeep. rewrite nodes_get_put, N.eqb_refl. reflexivity.
      + cbn [fst snd]. rewrite EpN.
        apply (prunePosition_preserves H HO (Vh (S h)) (RTh (S h)) R' T HV');
          [exact G1|exact HhT|exact Hq3|apply HnR|apply HnR].
      + intros Hfull. cbn [fst snd]. rewrite EpN.
        apply (prune_tidy H HO (Vh (S h)) (RTh (S h)) R' T HV' Hrp' _ (snd st) G1 h _ HhT Hq3
                 (HnR _) (HnR _) Hpair).
        apply (tidyx_weaken H (Vh (S h)) (RTh (S h)) R' T (fun r o => r = h /\ o / 2 = n / p2 (S h))).
        { intros r o [-> Eo]. split; [reflexivity|]. destruct (two_cases _ _ Eo) as [-> | ->]; [left; reflexivity|].
          right. rewrite lxor_1. replace (2 * (n / p2 (S h))) with (0 + 2 * (n / p2 (S h))) by (clear; lia).
          rewrite N.even_add_mul_2. change (N.even 0) with true. cbv iota. clear. lia. }
        rewrite Hfull.
        apply (put_node_tidyx H (Vh h) (Vh (S h)) (RTh h) (RTh (S h)) T HV HV' R' _ h (n / p2 (S h))).
        * exact (HTd Hfull).
        * intros r o hh l. exact (stepA_view H HO s a h c C r o hh l HaS Ec EC).
        * intros r o Hr. apply (step_roots_after H HO s a h _ _ HaS) in Hr as [Hr|Hr]; [left|right; exact Hr].
          apply (step_roots_before H HO s a h _ _ HaS). left. exact Hr.
        * intros r o Hr. apply (step_roots_before H HO s a h _ _ HaS) in Hr as [Hr|[[-> ->]|[-> ->]]].
          -- left. apply (step_roots_after H HO s a h _ _ HaS). left. exact Hr.
          -- right. split; [reflexivity|apply div2_even].
          -- right. split; [reflexivity|apply div2_odd].
        * exact HrtS.
        * intros hh l. exact (Vh_free H HO s a h hh l HaS).
    - (* case B: the root is empty; the climbing tree moves up *)
      cbn [fst root_hash]. rewrite (Heqb_refl H HO HOK).
      assert (ED : DetectRow (gp T h (2 * (n / p2 (S h)))) T = N.of_nat h).
      { unfold gp. apply DetectRow_gpos; [exact HT|exact (N.lt_le_incl _ _ HhT)|exact Hq3]. }
      rewrite Hpos, E4. unfold gp at 1 2 3.
      rewrite (moveUpDescendants_eq H HO T HT h HhT _ ED (n / p2 (S h)) _ Hq2 eq_refl).
      fold (gp T h (2 * (n / p2 (S h)) + 1)). fold (gp T h (2 * (n / p2 (S h)))).
      destruct (apply_moves H HO (allmoves T h h (2 * (n / p2 (S h))) 2)
                  (nodes_del (gp T h (2 * (n / p2 (S h)) + 1))
                     (nodes_del (gp T h (2 * (n / p2 (S h)))) (fst st)),
                   if rem && Heqb (fst pNode) a
                   then cached_move HO a (gp T (S h) (n / p2 (S h))) (snd st) else snd st))
        as [nd2 ca2] eqn:Eap.
      cbn [fst snd]. rewrite Epn, (add8_succ h Hh63).
      pose proof (cl_height H HO s a h C EC) as HcC.
      assert (G1 : GInv (Vh (S h)) (RTh (S h)) R' T
                     (nodes_put (gp T (S h) (n / p2 (S h))) pNode nd2) ca2).
      { rewrite EpN in Eap.
        apply (stepB_GInv H HO HOK (Vh h) (Vh (S h)) (Vent HO (Fold HO s (S h)))
                 (Vpt C h (2 * (n / p2 (S h)) + 1)) (RTh h) (RTh (S h)) (RTent (Fold HO s (S h)))
                 R' T h (n / p2 (S h)) HV HhT Hq (chash C) (cleafb H C) a rem) with (ca := snd st) (nd := fst st).
        - intros r o hh l. exact (stepB_view_before H HO s a h C r o hh l HaS Ec EC).
        - intros r o hh l. exact (stepB_view_after H HO s a h C r o hh l HaS Ec EC HcC).
        - intros r o hh l Hv. exact (Fold_out H HO s h r o hh l HaS Hv).
        - intros r o hh l Hv. exact (Vpt_in_sub H C h _ r o hh l Hv).
        - apply Vpt_head.
        - intros r o. exact (step_roots_before H HO s a h r o HaS).
        - intros r o. exact (step_roots_after H HO s a h r o HaS).
        - intros r o (k & lo & t & He & -> & ->).
          destruct (head_in_entry H HO k lo t) as (x & Hx & Er & Eo). rewrite <- Er at 1. rewrite <- Eo.
          apply (Fold_out H HO s h _ _ (nhash x) (nleaf x) HaS). exists (k, lo, t), x.
          repeat split; assumption || reflexivity.
        - intros r o k l Hv Hk. rewrite <- E4 in Hv. exact (sep_cl h C r o k l Ha EC Hv Hk).
        - intros El. pose proof (cl_has_a H HO s a h C Ha EC) as Hin.
          destruct C as [k|k c1 c2]; [|discriminate]. destruct Hin as [<-|[]]. reflexivity.
        - intros Er. apply rem_iff. exact Er.
        - intros Hin. apply rem_iff. exact Hin.
        - exact G.
        - rewrite <- E4, <- Hpos. exact Hpn.
        - exact EpN.
        - exact Eap. }
      assert (HTidyB : full = false -> Tidy (Vh (S h)) (RTh (S h)) R' T
                                         (nodes_put (gp T (S h) (n / p2 (S h))) pNode nd2)).
      { intros Hfull. rewrite EpN in Eap.
        apply (stepB_tidy H HO HOK (Vh h) (Vh (S h)) (Vent HO (Fold HO s (S h)))
                 (Vpt C h (2 * (n / p2 (S h)) + 1)) (RTh h) (RTh (S h)) (RTent (Fold HO s (S h)))
                 R' T h (n / p2 (S h)) HV HhT Hq (chash C) (cleafb H C) a rem) with (ca := snd st) (ca2 := ca2) (nd := fst st).
        - intros r o hh l. exact (stepB_view_before H HO s a h C r o hh l HaS Ec EC).
        - intros r o hh l. exact (stepB_view_after H HO s a h C r o hh l HaS Ec EC HcC).
        - intros r o hh l Hv. exact (Fold_out H HO s h r o hh l HaS Hv).
        - intros r o hh l Hv. exact (Vpt_in_sub H C h _ r o hh l Hv).
        - apply Vpt_head.
        - intros r o. exact (step_roots_before H HO s a h r o HaS).
        - intros r o. exact (step_roots_after H HO s a h r o HaS).
        - intros r o (k & lo & t & He & -> & ->).
          destruct (head_in_entry H HO k lo t) as (x & Hx & Er & Eo). rewrite <- Er at 1. rewrite <- Eo.
          apply (Fold_out H HO s h _ _ (nhash x) (nleaf x) HaS). exists (k, lo, t), x.
          repeat split; assumption || reflexivity.
        - intros r o k l Hv Hk. rewrite <- E4 in Hv. exact (sep_cl h C r o k l Ha EC Hv Hk).
        - intros El. pose proof (cl_has_a H HO s a h C Ha EC) as Hin.
          destruct C as [k|k c1 c2]; [|discriminate]. destruct Hin as [<-|[]]. reflexivity.
        - intros Er. apply rem_iff. exact Er.
        - intros Hin. apply rem_iff. exact Hin.
        - exact G.
        - rewrite <- E4, <- Hpos. exact Hpn.
        - exact Eap.
        - exact (HTd Hfull). }
      apply IH; [exact Hf'|exact HaS|reflexivity| | | |].
      + exists C. rewrite (cl_S H HO s a h HaS), Ec, EC. cbn [join]. auto.
      + cbn [fst]. apply Hkeep. rewrite nodes_get_put, N.eqb_refl. reflexivity.
      + cbn [fst snd].
        apply (prunePosition_preserves H HO (Vh (S h)) (RTh (S h)) R' T HV');
          [exact G1|exact HhT|exact Hq3|apply HnR|apply HnR].
      + intros Hfull. cbn [fst snd].
        apply (prune_tidy H HO (Vh (S h)) (RTh (S h)) R' T HV' Hrp' _ ca2 G1 h _ HhT Hq3
                 (HnR _) (HnR _) Hpair).
        apply (tidyx_weaken H (Vh (S h)) (RTh (S h)) R' T (fun _ _ => False)); [intros ? ? []|].
        exact (HTidyB Hfull).
  Qed.
End Loop.

(** * Part 4c: [remap] when the forest is one full tree of [2^T] leaves *)
Lemma maxpos_all :
  forallb (fun T => forallb (fun r => if (1 <=? r) && (r <=? T)
                                       then (fst (maxPositionAtRow r T (2 ^ T)) =? gstart T r + 2 ^ (T - r) - 1)
                                            && negb (snd (maxPositionAtRow r T (2 ^ T)))
                                       else true)
                            (map N.of_nat (seq 0 64)))
          (map N.of_nat (seq 0 63)) = true.
Proof. vm_compute. reflexivity. Qed.

Lemma maxpos_full T r : T <= 62 -> 1 <= r -> r <= T ->
  maxPositionAtRow r T (2 ^ T) = (gstart T r + 2 ^ (T - r) - 1, false).
Proof.
  intros HT Hr HrT. pose proof maxpos_all as Hall. rewrite forallb_forall in Hall.
  assert (Hin : forall k b, k < N.of_nat b -> In k (map N.of_nat (seq 0 b))).
  { intros k b Hk. apply in_map_iff. exists (N.to_nat k). split; [lia|]. apply in_seq. lia. }
  specialize (Hall T (Hin T 63%nat ltac:(lia))). rewrite forallb_forall in Hall.
  specialize (Hall r (Hin r 64%nat ltac:(lia))).
  destruct (N.leb_spec 1 r) as [_|C]; [|lia]. destruct (N.leb_spec r T) as [_|C]; [|lia].
  cbn [andb] in Hall. apply Bool.andb_true_iff in Hall as [A B]. apply N.eqb_eq in A.
  apply Bool.negb_true_iff in B. destruct (maxPositionAtRow r T (2 ^ T)) as [x y]. cbn [fst snd] in *.
  congruence.
Qed.

Section Remap.
  Variable H : Type.
  Variable HO : ops H.
  Hypothesis HOK : ops_ok HO.
  Notation nodemap := (list (N * (H * bool))).
  Notation cachemap := (list (H * N)).
  Variable T : N.
  Hypothesis HT : T <= 62.

  Definition nmove (ct : N * N) (nd : nodemap) : nodemap :=
    match nodes_get nd (fst ct) with
    | Some v => nodes_put (snd ct) v (nodes_del (fst ct) nd)
    | None => nd
    end.

  Lemma move1_fst ct (nd : nodemap) (ca : cachemap) : fst (move1 H HO ct (nd, ca)) = nmove ct nd.
  Proof. unfold move1, nmove. cbn [fst snd]. destruct (nodes_get nd (fst ct)); reflexivity. Qed.

  Lemma apply_moves_fst ms : forall (nd : nodemap) (ca : cachemap),
    fst (apply_moves H HO ms (nd, ca)) = fold_left (fun nd ct => nmove ct nd) ms nd.
  Proof.
    induction ms as [|ct ms IH]; intros nd ca; [reflexivity|]. cbn [apply_moves fold_left].
    fold (apply_moves H HO ms (move1 H HO ct (nd, ca))).
    destruct (move1 H HO ct (nd, ca)) as [nd1 ca1] eqn:E. rewrite IH. f_equal.
    rewrite <- (move1_fst ct nd ca), E. reflexivity.
  Qed.

  (** the step of the loop of [remap] *)
  Definition rstep (acc : option nodemap) (i : N) : option nodemap :=
    match acc with
    | None => None
    | Some nd =>
        let h := DetectRow i T in
        if (h =? 0) || (T <? h) then Some nd
        else
          let mp := maxPositionAtRow h T (2 ^ T) in
          if snd mp then None
          else if (startPositionAtRow h T <=? i) && (i <=? fst mp) then
            match nodes_get nd i with
            | Some v =>
                let j := add64 (startPositionAtRow h (T + 1)) (sub64 i (startPositionAtRow h T)) in
                Some (nodes_put j v (nodes_del i nd))
            | None => Some nd
            end
          else Some nd
    end.

  Definition rmoves (keys : list (nat * N)) : list (N * N) :=
    flat_map (fun c : nat * N => match fst c with
                                  | O => []
                                  | S _ => [(gp T (fst c) (snd c), gp (T + 1) (fst c) (snd c))]
                                  end) keys.

  Lemma rstep_eq r o (nd : nodemap) : N.of_nat r <= T -> o < 2 ^ (T - N.of_nat r) ->
    rstep (Some nd) (gp T r o) =
    Some (fold_left (fun nd ct => nmove ct nd) (rmoves [(r, o)]) nd).
  Proof.
    intros Hr Ho. unfold rstep, gp.
    rewrite (DetectRow_gpos T (N.of_nat r) o ltac:(lia) Hr Ho).
    destruct r as [|r']; [reflexivity|]. cbn [rmoves flat_map fst snd app fold_left].
    destruct (N.eqb_spec (N.of_nat (S r')) 0) as [E|_]; [lia|].
    destruct (N.ltb_spec T (N.of_nat (S r'))) as [E|_]; [lia|]. cbn [orb].
    rewrite (maxpos_full T (N.of_nat (S r')) HT ltac:(lia) Hr). cbn [fst snd].
    rewrite (startPositionAtRow_gstart (N.of_nat (S r')) T ltac:(lia) Hr).
    rewrite (startPositionAtRow_gstart (N.of_nat (S r')) (T + 1) ltac:(lia) ltac:(lia)).
    unfold UtilsGeom.gpos at 1 2.
    destruct (N.leb_spec (gstart T (N.of_nat (S r'))) (gstart T (N.of_nat (S r')) + o)) as [_|C]; [|lia].
    destruct (N.leb_spec (gstart T (N.of_nat (S r')) + o)
                (gstart T (N.of_nat (S r')) + 2 ^ (T - N.of_nat (S r')) - 1)) as [_|C]; [|lia].
    cbn [andb]. unfold nmove, gp. cbn [fst snd]. fold (gpos T (N.of_nat (S r')) o).
    destruct (nodes_get nd (gpos T (N.of_nat (S r')) o)) as [v|]; [|reflexivity].
    f_equal. f_equal.
    assert (Hw : gpos T (N.of_nat (S r')) o < W).
    { apply gpos_lt_W; [lia|exact Hr|exact Ho]. }
    unfold UtilsGeom.gpos in *. rewrite sub64_small by lia.
    replace (gstart T (N.of_nat (S r')) + o - gstart T (N.of_nat (S r'))) with o by lia.
    unfold add64. apply wrap_small.
    assert (Ho' : o < 2 ^ (T + 1 - N.of_nat (S r'))).
    { assert (2 ^ (T - N.of_nat (S r')) <= 2 ^ (T + 1 - N.of_nat (S r'))) by (apply UtilsGeom.pow2_le; lia). lia. }
    pose proof (gpos_lt_W (T + 1) (N.of_nat (S r')) o ltac:(lia) ltac:(lia) Ho') as Hw'.
    unfold UtilsGeom.gpos in Hw'. exact Hw'.
  Qed.

  Lemma rstep_fold : forall (keys : list (nat * N)) (nd : nodemap),
    (forall c, In c keys -> N.of_nat (fst c) <= T /\ snd c < 2 ^ (T - N.of_nat (fst c))) ->
    fold_left rstep (map (fun c => gp T (fst c) (snd c)) keys) (Some nd) =
    Some (fold_left (fun nd ct => nmove ct nd) (rmoves keys) nd).
  Proof.
    induction keys as [|[r o] keys IH]; intros nd Hval; [reflexivity|].
    cbn [map fold_left fst snd]. destruct (Hval (r, o) (or_introl eq_refl)) as [A B]. cbn [fst snd] in A, B.
    rewrite (rstep_eq r o nd A B), IH by (intros c Hc; apply Hval; right; exact Hc).
    replace (rmoves ((r, o) :: keys)) with (rmoves [(r, o)] ++ rmoves keys)
      by (unfold rmoves; cbn [flat_map]; rewrite app_nil_r; reflexivity).
    rewrite fold_left_app. reflexivity.
  Qed.

  Lemma In_rmoves kc c t : In (c, t) (rmoves kc) <->
    exists r o, In (S r, o) kc /\ c = gp T (S r) o /\ t = gp (T + 1) (S r) o.
  Proof.
    unfold rmoves. rewrite in_flat_map. split.
    - intros ([r o] & Hin & Hx). cbn [fst snd] in Hx. destruct r as [|r]; [destruct Hx|].
      destruct Hx as [E|[]]. injection E as <- <-. exists r, o. auto.
    - intros (r & o & Hin & -> & ->). exists (S r, o). split; [exact Hin|]. left. reflexivity.
  Qed.

  Lemma valid_up r o : N.of_nat r <= T -> o < 2 ^ (T - N.of_nat r) ->
    N.of_nat r <= T + 1 /\ o < 2 ^ (T + 1 - N.of_nat r).
  Proof.
    intros A B. split; [lia|].
    assert (2 ^ (T - N.of_nat r) <= 2 ^ (T + 1 - N.of_nat r)) by (apply UtilsGeom.pow2_le; lia). lia.
  Qed.

  Lemma old_pos_small r o : N.of_nat r <= T -> o < 2 ^ (T - N.of_nat r) -> gp T r o < 2 ^ (T + 1) - 1.
  Proof.
    intros A B. unfold gp. pose proof (gpos_range T (N.of_nat r) o A B).
    pose proof (UtilsGeom.pow2_S T). pose proof (UtilsGeom.pow2_pos T). lia.
  Qed.

  Lemma new_pos_big r o : gp (T + 1) (S r) o >= 2 ^ (T + 1).
  Proof.
    unfold gp, UtilsGeom.gpos, UtilsGeom.gstart.
    assert (E : 2 ^ (T + 1 + 1) = 2 * 2 ^ (T + 1)) by apply UtilsGeom.pow2_S. rewrite E.
    destruct (N.le_gt_cases (N.of_nat (S r)) (T + 1 + 1)) as [L|G].
    - assert (2 ^ (T + 1 + 1 - N.of_nat (S r)) <= 2 ^ (T + 1)) by (apply UtilsGeom.pow2_le; lia). lia.
    - replace (T + 1 + 1 - N.of_nat (S r)) with 0 by lia. change (2 ^ 0) with 1.
      pose proof (UtilsGeom.pow2_pos (T + 1)). lia.
  Qed.

  Variables (V : nat -> N -> H -> bool -> Prop) (RT : nat -> N -> Prop) (R : list H).
  Hypothesis HV : Vok V RT T.
  Variables (nd : nodemap) (ca : cachemap).
  Hypothesis G : GInv V RT R T nd ca.

  Definition gpc (c : nat * N) : N := gp T (fst c) (snd c).
  Definition cvalid (c : nat * N) : Prop := N.of_nat (fst c) <= T /\ snd c < 2 ^ (T - N.of_nat (fst c)).

  Lemma key_coord i : In i (map fst nd) -> exists c, cvalid c /\ i = gpc c.
  Proof.
    intros Hin. apply in_map_iff in Hin as ([k [h b]] & <- & Hin).
    destruct (g_true G _ _ _ Hin) as (r & o & l & E & Hv). exists (r, o). split; [exact (v_valid HV Hv)|exact E].
  Qed.

  Lemma coords_of : forall l : list N, (forall i, In i l -> exists c, cvalid c /\ i = gpc c) ->
    exists kc, l = map gpc kc /\ forall c, In c kc -> cvalid c.
  Proof.
    induction l as [|i l IH]; intros Hall; [exists []; split; [reflexivity|intros ? []]|].
    destruct (Hall i (or_introl eq_refl)) as (c & Hc & ->).
    destruct (IH (fun j Hj => Hall j (or_intror Hj))) as (kc & -> & Hkc).
    exists (c :: kc). split; [reflexivity|]. intros d [<-|Hd]; [exact Hc|exact (Hkc d Hd)].
  Qed.

  Lemma gpc_inj c d : cvalid c -> cvalid d -> gpc c = gpc d -> c = d.
  Proof.
    intros [A B] [C D] E. destruct c as [r o], d as [r' o']. cbn [fst snd] in *.
    destruct (gp_inj T r o r' o' A B C D E) as [-> ->]. reflexivity.
  Qed.

  Lemma rmoves_safe : forall kc, (forall c, In c kc -> cvalid c) -> NoDup (map gpc kc) ->
    safe H (rmoves kc) nd.
  Proof.
    induction kc as [|[r o] kc IH]; intros Hval Hnd; [exact I|].
    cbn [map] in Hnd. inversion Hnd as [|x y Hnin Hnd']; subst.
    assert (IH' := IH (fun c Hc => Hval c (or_intror Hc)) Hnd').
    destruct r as [|r]; [exact IH'|].
    change (rmoves ((S r, o) :: kc)) with ((gp T (S r) o, gp (T + 1) (S r) o) :: rmoves kc).
    cbn [safe]. split; [|exact IH'].
    intros c' t' Hin. apply In_rmoves in Hin as (r' & o' & Hin & -> & ->).
    destruct (Hval _ (or_introl eq_refl)) as [A B]. destruct (Hval _ (or_intror Hin)) as [C D].
    cbn [fst snd] in A, B, C, D. split; [|split].
    - intros E. apply Hnin. apply in_map_iff. exists (S r', o'). split; [exact E|exact Hin].
    - pose proof (old_pos_small (S r') o' C D). pose proof (new_pos_big r o). lia.
    - intros _ _ E. destruct (valid_up _ _ A B) as [A' B']. destruct (valid_up _ _ C D) as [C' D'].
      destruct (gp_inj (T + 1) (S r') o' (S r) o C' D' A' B' E) as [Er Eo].
      apply Hnin. apply in_map_iff. exists (S r', o'). split; [|exact Hin]. unfold gpc. cbn [fst snd].
      rewrite Er, Eo. reflexivity.
  Qed.

  (** the node map after [remap] *)
  Theorem remap_nodes : exists nd',
    fold_left (rstep) (keys_sorted nd) (Some nd) = Some nd' /\
    NoDup (map fst nd') /\
    (forall r o, N.of_nat r <= T -> o < 2 ^ (T - N.of_nat r) ->
       nodes_get nd' (gp (T + 1) r o) = nodes_get nd (gp T r o)) /\
    (forall p v, nodes_get nd' p = Some v ->
       exists r o, N.of_nat r <= T /\ o < 2 ^ (T - N.of_nat r) /\ p = gp (T + 1) r o /\
                   nodes_get nd (gp T r o) = Some v).
  Proof.
    assert (Hkeys : forall i, In i (keys_sorted nd) <-> In i (map fst nd)).
    { intros i. unfold keys_sorted. apply RefTheory.sortN_In. }
    destruct (coords_of (keys_sorted nd)) as (kc & Ekc & Hkc).
    { intros i Hi. apply key_coord, Hkeys, Hi. }
    assert (Hnd : NoDup (map gpc kc)).
    { rewrite <- Ekc. unfold keys_sorted.
      eapply Permutation.Permutation_NoDup; [apply Permutation.Permutation_sym, pps_sortN_perm|exact (g_nodup G)]. }
    rewrite Ekc. change (map gpc kc) with (map (fun c : nat * N => gp T (fst c) (snd c)) kc).
    rewrite (rstep_fold kc nd Hkc), <- (apply_moves_fst (rmoves kc) nd []).
    destruct (apply_moves H HO (rmoves kc) (nd, [])) as [nd' ca0] eqn:Eap. cbn [fst].
    destruct (apply_moves_spec H HO HOK (rmoves kc) nd [] (rmoves_safe kc Hkc Hnd) nd' ca0 Eap)
      as (Ia & _ & Ic & Iback & Ind & _).
    assert (Hkey_in : forall r o v, N.of_nat r <= T -> o < 2 ^ (T - N.of_nat r) ->
              nodes_get nd (gp T r o) = Some v -> In (r, o) kc).
    { intros r o v A B E.
      assert (Hin : In (gp T r o) (map gpc kc)).
      { rewrite <- Ekc. apply Hkeys. apply nodes_get_In in E. apply in_map_iff. exists (gp T r o, v). auto. }
      apply in_map_iff in Hin as (c & Ec & Hc).
      rewrite (gpc_inj c (r, o) (Hkc c Hc) (conj A B) Ec) in Hc. exact Hc. }
    assert (Hback : forall p v, nodes_get nd' p = Some v ->
              exists r o, N.of_nat r <= T /\ o < 2 ^ (T - N.of_nat r) /\ p = gp (T + 1) r o /\
                          nodes_get nd (gp T r o) = Some v).
    { intros p v Ep. destruct (Iback p v Ep) as [(c & t & Hin & -> & Ec)|[Hno Ep0]].
      - apply In_rmoves in Hin as (r & o & Hin & -> & ->). destruct (Hkc _ Hin) as [A B].
        exists (S r), o. auto.
      - destruct (key_coord p) as ([r o] & [A B] & Ec).
        { apply nodes_get_In in Ep0. apply in_map_iff. exists (p, v). auto. }
        cbn [fst snd] in A, B. unfold gpc in Ec. cbn [fst snd] in Ec.
        destruct r as [|r].
        + exists 0%nat, o. rewrite gp_0 in Ec. rewrite gp_0. rewrite gp_0. subst p. auto.
        + exfalso. apply (Hno (gp T (S r) o) (gp (T + 1) (S r) o)); [|exact Ec].
          apply In_rmoves. exists r, o. split; [|auto]. rewrite Ec in Ep0.
          exact (Hkey_in (S r) o v A B Ep0). }
    exists nd'. split; [reflexivity|]. split; [exact (Ind (g_nodup G))|]. split; [|exact Hback].
    intros r o A B. destruct (nodes_get nd (gp T r o)) as [v|] eqn:E.
    - destruct r as [|r].
      + rewrite gp_0 in *. rewrite Ic; [exact E|]. intros c t Hin.
        apply In_rmoves in Hin as (r' & o' & Hin & -> & ->). destruct (Hkc _ Hin) as [C D].
        cbn [fst snd] in C, D.
        assert (Hlt : o < gp T (S r') o').
        { unfold gp. rewrite <- (gp_0 T o) at 1. unfold gp. apply gpos_row_mono; [lia|exact C|].
          change (N.of_nat 0) with 0. rewrite N.sub_0_r in *. exact B. }
        split; [lia|]. intros _. pose proof (new_pos_big r' o').
        assert (o < 2 ^ (T + 1)). { rewrite N.sub_0_r in B. rewrite UtilsGeom.pow2_S. lia. } lia.
      + rewrite (Ia (gp T (S r) o) (gp (T + 1) (S r) o)); [exact E| |unfold sto; rewrite E; discriminate].
        apply In_rmoves. exists r, o. split; [exact (Hkey_in (S r) o v A B E)|auto].
    - destruct (nodes_get nd' (gp (T + 1) r o)) as [v|] eqn:E'; [exfalso|reflexivity].
      destruct (Hback _ _ E') as (r1 & o1 & A1 & B1 & Ep & E1).
      destruct (valid_up _ _ A B) as [A' B']. destruct (valid_up _ _ A1 B1) as [A1' B1'].
      destruct (gp_inj (T + 1) r o r1 o1 A' B' A1' B1' Ep) as [-> ->]. congruence.
  Qed.

  Theorem remap_tidy nd' :
    (forall r o, N.of_nat r <= T -> o < 2 ^ (T - N.of_nat r) ->
       nodes_get nd' (gp (T + 1) r o) = nodes_get nd (gp T r o)) ->
    Tidy V RT R T nd -> Tidy V RT R (T + 1) nd'.
  Proof.
    intros K1 [T1 T2]. split.
    - intros r o h l Hv E. destruct (v_valid HV Hv) as [A B]. rewrite (K1 r o A B) in E.
      exact (T1 _ _ _ _ Hv E).
    - intros r o h l Hv _ Hs. destruct (v_valid HV Hv) as [A B]. rewrite (K1 r o A B) in Hs.
      exact (T2 _ _ _ _ Hv (fun C => C) Hs).
  Qed.

  Hypothesis HV1 : Vok V RT (T + 1).

  Theorem remap_GInv nd' :
    NoDup (map fst nd') ->
    (forall r o, N.of_nat r <= T -> o < 2 ^ (T - N.of_nat r) ->
       nodes_get nd' (gp (T + 1) r o) = nodes_get nd (gp T r o)) ->
    (forall p v, nodes_get nd' p = Some v ->
       exists r o, N.of_nat r <= T /\ o < 2 ^ (T - N.of_nat r) /\ p = gp (T + 1) r o /\
                   nodes_get nd (gp T r o) = Some v) ->
    GInv V RT R (T + 1) nd' (map (fun e : H * N => (fst e, translatePos (snd e) T (T + 1))) ca).
  Proof.
    intros Hnd K1 K2. constructor.
    - exact Hnd.
    - intros p h b Hin. apply (nodes_get_In_iff H _ _ _ Hnd) in Hin.
      destruct (K2 _ _ Hin) as (r & o & A & B & -> & E).
      destruct (g_true G _ _ _ (nodes_get_In H _ _ _ E)) as (r1 & o1 & l & Ep & Hv).
      destruct (v_valid HV Hv) as [A1 B1]. destruct (gp_inj T r o r1 o1 A B A1 B1 Ep) as [-> ->].
      exists r1, o1, l. auto.
    - intros h. rewrite map_map. cbn [fst]. exact (g_cR G h).
    - intros h p Hin. apply in_map_iff in Hin as ([h' p'] & E & Hin). cbn [fst snd] in E.
      injection E as -> <-. destruct (g_cpos G _ _ Hin) as (r & o & Hv & ->).
      exists r, o. split; [exact Hv|]. destruct (v_valid HV Hv) as [A B].
      destruct (valid_up r o A B) as [A' B']. unfold gp.
      apply translatePos_gpos; try assumption; lia.
    - exact (g_Rin G).
    - intros r o Hr. destruct (v_root HV Hr) as (h & l & Hv). destruct (v_valid HV Hv) as [A B].
      rewrite (K1 r o A B). exact (g_roots G Hr).
    - intros r o h Hv Hh. destruct (v_valid HV Hv) as [A B]. rewrite (K1 r o A B).
      exact (g_tgt G Hv Hh).
    - intros r o Hk Hn. destruct (known_valid H V RT R T HV _ _ Hk Hn) as [A B].
      rewrite (K1 r (N.lxor o 1) ltac:(lia) (lxor1_valid T r o A B)). exact (g_sibs G Hk Hn).
  Qed.
End Remap.



(** * Part 5: [addSingle], [add], [Modify] without deletions *)
Section Add.
  Variable H : Type.
  Variable HO : ops H.
  Hypothesis HOK : ops_ok HO.
  Notation hash2 := (op_hash2 HO).
  Notation empty := (op_empty HO).
  Notation Heqb := (op_eqb HO).
  Hypothesis Hh2 : forall x y, Heqb (hash2 x y) empty = false.

  (** the strengthened invariant: [consistent] + the remembered leaves carry the flag + the live
      leaves are pairwise different and none is the empty hash *)
  Record Inv (s : slots H) (R : list H) (m : mstate H) : Prop := mkInv {
    inv_n : ms_n m = num_leaves s;
    inv_n63 : ms_n m <= 2 ^ 63;
    inv_rows : TreeRows (ms_n m) <= ms_total m;
    inv_T63 : ms_total m <= 63;
    inv_nodup : NoDup (live s);
    inv_live : StumpAdd.live_ok H HO s;
    inv_g : GInv (Vlay HO s) (RTlay HO s) R (ms_total m) (ms_nodes m) (ms_cached m);
    inv_tidy : ms_full m = false -> Tidy (Vlay HO s) (RTlay HO s) R (ms_total m) (ms_nodes m) }.

  Theorem Inv_consistent s R m : Inv s R m -> consistent HO s R m.
  Proof.
    intros [A B C D E F G _]. apply (GInv_consistent H HO HOK); assumption.
  Qed.

  (** the flag of a remembered leaf is set *)
  Theorem Inv_flag s R m h x : Inv s R m -> In h R -> find_leaf HO (layout HO s) h = Some x ->
    nodes_get (ms_nodes m) (gp (ms_total m) (nrow x) (noff x)) = Some (h, true).
  Proof.
    intros I Hh Hx. destruct (find_leaf_spec H HO HOK _ _ _ Hx) as (Hin & Hl & Eh).
    apply (g_tgt (inv_g _ _ _ I)); [|exact Hh]. exists x. auto.
  Qed.

  Theorem Inv_empty T full : T <= 63 -> Inv [] [] (mkM [] [] 0 T full).
  Proof.
    intros HT. constructor; cbn [ms_n ms_total ms_nodes ms_cached]; try reflexivity; try assumption.
    - cbn. lia.
    - rewrite TreeRows_0. lia.
    - constructor.
    - intros h [].
    - constructor.
      + constructor.
      + intros p h b [].
      + intros h. cbn. tauto.
      + intros h p [].
      + intros h [].
      + intros r o (x & [] & _).
      + intros r o h _ [].
      + intros r o Hk. exfalso. induction Hk as [r o h _ []|r o _ IH _]; exact IH.
    - intros _. split; [intros r o h l _ E; discriminate|intros r o h l _ _ E; exfalso; apply E; reflexivity].
  Qed.

  (** G4: a partial forest stores nothing beyond the roots, the remembered leaves with their
      ancestors' siblings ... : every stored position is one the reference allows *)
  Theorem Inv_stores_allowed s R m : Inv s R m -> ms_full m = false ->
    forall p, In p (stored_min m) -> exists al, allowed_pos HO s R = Some al /\ In p al.
  Proof.
    intros I Hfull p Hp. pose proof (Inv_consistent s R m I) as Hc.
    destruct I as [En En63 Hrows HT Hnd Hlive G HTd]. destruct (HTd Hfull) as [_ T2].
    set (lay := layout HO s) in *. set (T := ms_total m) in *.
    destruct (R_leaves H HO HOK s R m Hc) as (ts & Hts). fold lay in Hts.
    assert (Hn63 : N.of_nat (length s) <= 2 ^ 63) by (unfold num_leaves in En; lia).
    assert (Hts_lay : forall x, In x ts -> In x lay).
    { intros x Hx. apply (RefTheory.find_leaves_In H HO _ _ _ Hts) in Hx as (h & _ & Hx).
      exact (proj1 (find_leaf_spec H HO HOK _ _ _ Hx)). }
    assert (Hleaf : forall h x, In x lay -> nleaf x = true -> nhash x = h ->
              find_leaf HO lay h = Some x).
    { intros h x Hx Hl Hh.
      destruct (find_leaf_ex H HO lay h HOK) as [y Hy]; [exists x; auto|].
      rewrite Hy. f_equal. destruct (find_leaf_spec H HO HOK _ _ _ Hy) as (Hyin & Hyl & Hyh).
      apply (live_leaf_unique H HO s y x Hnd); auto. congruence. }
    assert (Hroot : forall r o, ~ RTlay HO s r o -> is_root_coord lay (r, o) = false).
    { intros r o Hn. unfold is_root_coord. cbn [fst snd].
      destruct (find_coord lay r o) as [x|] eqn:E; [|reflexivity].
      destruct (nroot x) eqn:Er; [|reflexivity]. exfalso. apply Hn.
      apply find_coord_some in E as (Hx & Exr & Exo). exists x. auto. }
    assert (Hknown : forall r o, known (Vlay HO s) (RTlay HO s) R r o -> In (r, o) (known_set lay ts)).
    { intros r o Hk. induction Hk as [r o h (x & Hx & <- & <- & Eh & El) Hh|r o _ IH Hn].
      - apply RefTheory.known_set_target. apply (RefTheory.find_leaves_In H HO _ _ _ Hts).
        exists h. split; [exact Hh|apply Hleaf; assumption].
      - exact (proj1 (known_closed H HO s Hn63 ts Hts_lay (r, o) IH (Hroot _ _ Hn))). }
    unfold allowed_pos. fold lay. rewrite Hts. eexists. split; [reflexivity|].
    rewrite RefTheory.sortN_In, RefTheory.dedupN_In, !in_app_iff.
    (* the stored position is the position of a node *)
    unfold stored_min in Hp. apply in_map_iff in Hp as (k & Ek & Hk).
    apply in_map_iff in Hk as ([k' [h b]] & Ek' & Hin). cbn [fst] in Ek'. subst k'.
    destruct (g_true G _ _ _ Hin) as (r & o & l & Ekp & (x & Hx & Er & Eo & Eh & El)).
    assert (Ep : p = npos (rows_of (num_leaves s)) x).
    { rewrite <- Ek, Ekp, <- Er, <- Eo. exact (translate_node H HO s R m Hc x Hx). }
    assert (Hst : nodes_get (ms_nodes m) (gp T r o) <> None).
    { rewrite <- Ekp. exact (In_nodes_get H _ _ _ Hin). }
    assert (Hv : Vlay HO s r o h l) by (exists x; auto).
    destruct (T2 r o h l Hv (fun C => C) Hst) as [(y & Hy & Hyr & Eyr & Eyo)|[Hk|[Hk Hn]]].
    - left. rewrite Ep. apply in_map, filter_In. split; [exact Hx|].
      rewrite (node_coord_eq H HO s x y Hx Hy ltac:(congruence) ltac:(congruence)). exact Hyr.
    - right. left. apply in_map_iff. exists (r, o). split; [|exact (Hknown _ _ Hk)].
      rewrite Ep. unfold npos. cbn [fst snd]. congruence.
    - right. right. apply in_map_iff. exists (r, o). split; [rewrite Ep; unfold npos; cbn [fst snd]; congruence|].
      apply in_flat_map. exists (r, N.lxor o 1). split; [exact (Hknown _ _ Hk)|].
      rewrite (Hroot _ _ Hn). left. unfold sib_coord. cbn [fst snd]. rewrite lxor1_invol. reflexivity.
  Qed.

  (** no inner node of the forest has the hash of a remembered leaf *)
  Definition leaf_sep (s : slots H) (R : list H) : Prop :=
    forall x, In x (layout HO s) -> In (nhash x) R -> nleaf x = true.

  Lemma add64_1 n : n + 1 <= 2 ^ 63 -> add64 n 1 = n + 1.
  Proof.
    intros Hn. unfold add64. apply wrap_small. rewrite W_eq.
    assert (2 ^ 63 < 2 ^ 64) by (apply UtilsGeom.pow2_lt; lia). lia.
  Qed.

  Lemma live_snoc_nodup (s : slots H) a : NoDup (live s) -> ~ In (Some a) s -> NoDup (live (s ++ [Some a])).
  Proof.
    intros Hnd Hf. rewrite live_app. cbn [live flat_map app].
    apply NoDup_app_intro; [exact Hnd|constructor; [intros []|constructor]|].
    intros x Hx [<-|[]]. apply Hf, (live_in H). exact Hx.
  Qed.

  (** G1: one addition that fits into the allocated rows *)
  Theorem addSingle_Inv s R m a (rem0 : bool) :
    Inv s R m -> N.of_nat (length s) + 1 <= 2 ^ ms_total m ->
    ~ In (Some a) s -> Heqb a empty = false ->
    leaf_sep (s ++ [Some a]) (if ms_full m || rem0 then R ++ [a] else R) ->
    exists nd ca,
      addSingle HO (ms_n m) (ms_total m) (ms_full m) (a, rem0) (ms_nodes m, ms_cached m)
        = Some (ms_total m, (nd, ca)) /\
      Inv (s ++ [Some a]) (if ms_full m || rem0 then R ++ [a] else R)
          (mkM nd ca (ms_n m + 1) (ms_total m) (ms_full m)).
  Proof.
    intros I HnT Hfresh Hne Hsep. destruct I as [En En63 Hrows HT Hnd Hlive G HTd].
    unfold num_leaves in En. set (T := ms_total m) in *. set (n := N.of_nat (length s)) in *.
    assert (Hn63 : n + 1 <= 2 ^ 63).
    { assert (2 ^ T <= 2 ^ 63) by (apply UtilsGeom.pow2_le; exact HT). lia. }
    unfold addSingle, remap. rewrite En, (add64_1 n Hn63).
    destruct (N.leb_spec (TreeRows (n + 1)) T) as [_|C];
      [|exfalso; apply TreeRows_le_iff in HnT; lia].
    cbn [fst snd]. set (rem := ms_full m || rem0).
    assert (HVl : Vok (Vlay HO s) (RTlay HO s) T) by (apply Vlay_ok; [lia|exact HT]).
    assert (HV0 : Vok (Vent HO (Fh HO s a 0)) (RTent (Fh HO s a 0)) T)
      by (apply Vh_ok; [exact HnT|exact HT|apply al_0]).
    assert (EF : forall e, In e (Fh HO s a 0) <-> In e (forest HO s) \/ In e [(0%nat, n, Some (CLeaf a))]).
    { intros e. rewrite In_Fh, In_Fold, cl_0. unfold Lh. rewrite p2_0. fold n.
      replace (n + 1 - 1) with n by lia. cbn [In].
      assert (0 <= fst (fst e))%nat by lia. intuition congruence. }
    assert (G0 : GInv (Vent HO (Fh HO s a 0)) (RTent (Fh HO s a 0)) (if rem then R ++ [a] else R) T
                   (nodes_put n (a, rem) (ms_nodes m))
                   (if rem then cached_put HO a n (ms_cached m) else ms_cached m)).
    { rewrite <- (gp_0 T n).
      apply (put_leaf H HO HOK (Vlay HO s) _ (RTlay HO s) _ T HV0 R _ _ n a rem G).
      - intros r o h l. rewrite (Vent_split H HO _ _ _ EF), <- Vlay_Vent, Vent_single.
        unfold Vpt. cbn [place_tree map In]. unfold pj. cbn [nrow noff nhash nleaf].
        rewrite p2_0, N.div_1_r. split; (intros [A|A]; [left; exact A|right]).
        + destruct A as [A|[]]. injection A as <- <- <- <-. auto.
        + destruct A as (-> & -> & -> & ->). left. reflexivity.
      - intros r o. rewrite (RTent_split H _ _ _ EF), <- RTlay_RTent, RTent_single.
        rewrite p2_0, N.div_1_r. tauto.
      - intros r o (x & Hx & _ & _ & Eh & El). apply Hfresh. rewrite <- Eh.
        apply (layout_leaf_live H HO); assumption. }
    assert (HaR : ~ In a R).
    { intros Ha. destruct (g_Rin G _ Ha) as (r & o & x & Hx & _ & _ & Eh & El). apply Hfresh.
      rewrite <- Eh. apply (layout_leaf_live H HO); assumption. }
    destruct (as_loop_ok H HO HOK Hh2 s a T (ms_full m) rem R HnT HT Hlive HaR Hsep 65 0
                (nodes_put n (a, rem) (ms_nodes m),
                 if rem then cached_put HO a n (ms_cached m) else ms_cached m)
                (a, rem) n ltac:(lia) (al_0 H s)) as ([nd ca] & Eloop & G' & Td').
    - rewrite p2_0, N.div_1_r. symmetry. apply gp_0.
    - exists (CLeaf a). split; [apply cl_0|reflexivity].
    - cbn [fst]. rewrite nodes_get_put, N.eqb_refl. reflexivity.
    - exact G0.
    - intros Hfull. cbn [fst]. rewrite <- (gp_0 T n).
      apply (put_leaf_tidy H (Vlay HO s) _ (RTlay HO s) _ T HVl HV0 R _ n a rem (HTd Hfull)).
      + intros r o h l. rewrite (Vent_split H HO _ _ _ EF), <- Vlay_Vent, Vent_single.
        unfold Vpt. cbn [place_tree map In]. unfold pj. cbn [nrow noff nhash nleaf].
        rewrite p2_0, N.div_1_r. split; (intros [A|A]; [left; exact A|right]).
        * destruct A as [A|[]]. injection A as <- <- <- <-. auto.
        * destruct A as (-> & -> & -> & ->). left. reflexivity.
      + intros r o. rewrite (RTent_split H _ _ _ EF), <- RTlay_RTent, RTent_single.
        rewrite p2_0, N.div_1_r. tauto.
      + intros h l (x & Hx & Er & Eo & _). pose proof (layout_coords_valid H HO s x Hx) as Hv.
        rewrite Er, Eo in Hv. change (2 ^ N.of_nat 0) with 1 in Hv. fold n in Hv. lia.
    - exists nd, ca. change (N.of_nat 0) with 0 in Eloop. fold n in Eloop.
      replace (if rem then cached_put HO a n (ms_cached m) else ms_cached m)
        with (if rem then cached_put HO (fst (a, rem0)) n (ms_cached m) else ms_cached m) in Eloop
        by reflexivity.
      cbn [fst snd] in *. rewrite Eloop. split; [reflexivity|].
      constructor; cbn [ms_n ms_total ms_nodes ms_cached].
      + unfold num_leaves. rewrite app_length. cbn [length]. lia.
      + lia.
      + apply TreeRows_le_iff. lia.
      + exact HT.
      + apply live_snoc_nodup; assumption.
      + apply live_ok_snoc; assumption.
      + exact G'.
      + exact Td'.
  Qed.

  (** G2: a list of additions that fit into the allocated rows *)
  Definition Rnext (full : bool) (R : list H) (e : H * bool) : list H :=
    if full || snd e then R ++ [fst e] else R.

  Fixpoint adds_ok (s : slots H) (R : list H) (full : bool) (adds : list (H * bool)) : Prop :=
    match adds with
    | [] => True
    | e :: rest =>
        ~ In (Some (fst e)) s /\ Heqb (fst e) empty = false /\
        leaf_sep (s ++ [Some (fst e)]) (Rnext full R e) /\
        adds_ok (s ++ [Some (fst e)]) (Rnext full R e) full rest
    end.

  Theorem add_all_Inv adds : forall s R m,
    Inv s R m -> N.of_nat (length s) + N.of_nat (length adds) <= 2 ^ ms_total m ->
    adds_ok s R (ms_full m) adds ->
    exists nd ca,
      add_all HO (ms_full m) adds (ms_n m) (ms_total m) (ms_nodes m, ms_cached m)
        = Some (ms_n m + N.of_nat (length adds), ms_total m, (nd, ca)) /\
      Inv (s ++ map Some (map fst adds)) (fold_left (Rnext (ms_full m)) adds R)
          (mkM nd ca (ms_n m + N.of_nat (length adds)) (ms_total m) (ms_full m)).
  Proof.
    induction adds as [|[a r] rest IH]; intros s R m I Hfit Hok.
    - exists (ms_nodes m), (ms_cached m). cbn [add_all length map fold_left]. rewrite N.add_0_r, app_nil_r.
      split; [reflexivity|]. destruct m; exact I.
    - cbn [adds_ok fst snd] in Hok. destruct Hok as (Hfresh & Hne & Hsep & Hrest).
      cbn [length] in Hfit.
      destruct (addSingle_Inv s R m a r I ltac:(lia) Hfresh Hne Hsep) as (nd1 & ca1 & E1 & I1).
      cbn [add_all]. rewrite E1.
      assert (En1 : add64 (ms_n m) 1 = ms_n m + 1).
      { apply add64_1. pose proof (inv_n _ _ _ I) as En. unfold num_leaves in En.
        pose proof (inv_T63 _ _ _ I) as HT.
        assert (2 ^ ms_total m <= 2 ^ 63) by (apply UtilsGeom.pow2_le; exact HT). lia. }
      rewrite En1.
      destruct (IH (s ++ [Some a]) (Rnext (ms_full m) R (a, r))
                  (mkM nd1 ca1 (ms_n m + 1) (ms_total m) (ms_full m)) I1) as (nd & ca & E & I2).
      + cbn [ms_total]. rewrite app_length. cbn [length]. lia.
      + exact Hrest.
      + cbn [ms_n ms_total ms_nodes ms_cached ms_full] in E, I2. exists nd, ca.
        replace (ms_n m + N.of_nat (length ((a, r) :: rest)))
          with (ms_n m + 1 + N.of_nat (length rest)) by (cbn [length]; lia).
        split; [exact E|]. cbn [map fold_left]. rewrite <- app_assoc in I2. exact I2.
  Qed.

  (** a block without deletions *)
  Theorem modify_adds_Inv adds s R m :
    Inv s R m -> N.of_nat (length s) + N.of_nat (length adds) <= 2 ^ ms_total m ->
    adds_ok s R (ms_full m) adds ->
    exists m', mm_modify HO m adds [] [] [] = Some m' /\
      Inv (s ++ map Some (map fst adds)) (fold_left (Rnext (ms_full m)) adds R) m' /\
      ms_total m' = ms_total m /\ ms_full m' = ms_full m.
  Proof.
    intros I Hfit Hok. destruct (add_all_Inv adds s R m I Hfit Hok) as (nd & ca & E & I').
    unfold mm_modify, MapMut.remove. cbn [forallb negb fold_left].
    change (sortN []) with (@nil N).
    replace (deTwin (if ms_total m =? TreeRows (ms_n m) then []
                     else translatePositions [] (TreeRows (ms_n m)) (ms_total m)) (ms_total m))
      with (@nil N) by (destruct (ms_total m =? TreeRows (ms_n m)); reflexivity).
    cbv [fold_left].
    match goal with
    | |- context [add_all ?x1 ?x2 ?x3 ?x4 ?x5 ?x6] =>
        replace (add_all x1 x2 x3 x4 x5 x6)
          with (Some (ms_n m + N.of_nat (length adds), ms_total m, (nd, ca))) by (symmetry; exact E)
    end.
    eexists. split; [reflexivity|]. split; [exact I'|auto].
  Qed.

  (** G3: the forest outgrows the allocated rows *)
  Lemma TreeRows_pow2_succ T : TreeRows (2 ^ T + 1) = T + 1.
  Proof.
    pose proof (proj2 (TreeRows_le_iff (2 ^ T + 1) (T + 1))) as H1.
    pose proof (proj1 (TreeRows_le_iff (2 ^ T + 1) T)) as H2.
    rewrite UtilsGeom.pow2_S in H1. pose proof (UtilsGeom.pow2_pos T).
    assert (TreeRows (2 ^ T + 1) <= T + 1) by (apply H1; lia).
    destruct (N.le_gt_cases (TreeRows (2 ^ T + 1)) T) as [L|G]; [specialize (H2 L); lia|lia].
  Qed.

  Theorem remap_Inv s R m :
    Inv s R m -> ms_n m = 2 ^ ms_total m -> ms_total m <= 62 ->
    exists nd ca,
      remap (ms_n m) (ms_total m) (ms_nodes m, ms_cached m) = Some (ms_total m + 1, (nd, ca)) /\
      Inv s R (mkM nd ca (ms_n m) (ms_total m + 1) (ms_full m)).
  Proof.
    intros I En HT. destruct I as [En0 En63 Hrows HT63 Hnd Hlive G HTd].
    set (T := ms_total m) in *.
    assert (HV : Vok (Vlay HO s) (RTlay HO s) T).
    { apply Vlay_ok; [unfold num_leaves in En0; rewrite <- En0, En; lia|lia]. }
    assert (HV1 : Vok (Vlay HO s) (RTlay HO s) (T + 1)).
    { apply Vlay_ok; [|lia]. unfold num_leaves in En0. rewrite <- En0, En.
      apply UtilsGeom.pow2_le. lia. }
    destruct (remap_nodes H HO HOK T HT (Vlay HO s) (RTlay HO s) R HV (ms_nodes m) (ms_cached m) G)
      as (nd' & Efold & Hnd' & K1 & K2).
    exists nd', (map (fun e : H * N => (fst e, translatePos (snd e) T (T + 1))) (ms_cached m)).
    assert (Hn1 : add64 (ms_n m) 1 = 2 ^ T + 1).
    { rewrite En. apply add64_1. assert (2 ^ T <= 2 ^ 62) by (apply UtilsGeom.pow2_le; lia).
      change (2 ^ 63) with (2 * 2 ^ 62). lia. }
    split.
    - unfold remap. rewrite Hn1, TreeRows_pow2_succ.
      destruct (N.leb_spec (T + 1) T) as [C|_]; [lia|]. cbn [fst snd]. rewrite En.
      change (fold_left _ (keys_sorted (ms_nodes m)) (Some (ms_nodes m)))
        with (fold_left (rstep H T) (keys_sorted (ms_nodes m)) (Some (ms_nodes m))).
      rewrite Efold. reflexivity.
    - constructor; cbn [ms_n ms_total ms_nodes ms_cached]; try assumption.
      + apply TreeRows_le_iff. rewrite En. apply UtilsGeom.pow2_le. lia.
      + lia.
      + exact (remap_GInv H T HT (Vlay HO s) (RTlay HO s) R HV (ms_nodes m) (ms_cached m) G nd' Hnd' K1 K2).
      + intros Hfull. exact (remap_tidy H T (Vlay HO s) (RTlay HO s) R HV (ms_nodes m) nd' K1 (HTd Hfull)).
  Qed.

  Lemma remap_noop n T (st : maps H) : n + 1 <= 2 ^ T -> n + 1 <= 2 ^ 63 -> remap n T st = Some (T, st).
  Proof.
    intros HnT Hn63. unfold remap. rewrite (add64_1 n Hn63).
    destruct (N.leb_spec (TreeRows (n + 1)) T) as [_|C]; [reflexivity|].
    apply TreeRows_le_iff in HnT. lia.
  Qed.

  (** one addition, with or without [remap] *)
  Theorem addSingle_gen s R m a (rem0 : bool) :
    Inv s R m -> N.of_nat (length s) + 1 <= 2 ^ 63 ->
    ~ In (Some a) s -> Heqb a empty = false ->
    leaf_sep (s ++ [Some a]) (if ms_full m || rem0 then R ++ [a] else R) ->
    exists T' nd ca,
      addSingle HO (ms_n m) (ms_total m) (ms_full m) (a, rem0) (ms_nodes m, ms_cached m)
        = Some (T', (nd, ca)) /\
      T' = (if N.of_nat (length s) + 1 <=? 2 ^ ms_total m then ms_total m else ms_total m + 1) /\
      Inv (s ++ [Some a]) (if ms_full m || rem0 then R ++ [a] else R)
          (mkM nd ca (ms_n m + 1) T' (ms_full m)).
  Proof.
    intros I Hn63 Hfresh Hne Hsep.
    destruct (N.leb_spec (N.of_nat (length s) + 1) (2 ^ ms_total m)) as [Hfit|Hbig].
    - destruct (addSingle_Inv s R m a rem0 I Hfit Hfresh Hne Hsep) as (nd & ca & E & I').
      exists (ms_total m), nd, ca. auto.
    - pose proof (inv_n _ _ _ I) as En. unfold num_leaves in En.
      pose proof (proj1 (TreeRows_le_iff _ _) (inv_rows _ _ _ I)) as HnT.
      assert (En2 : ms_n m = 2 ^ ms_total m) by lia.
      assert (HT62 : ms_total m <= 62).
      { destruct (N.le_gt_cases (ms_total m) 62) as [L|G]; [exact L|exfalso].
        assert (2 ^ 63 <= 2 ^ ms_total m) by (apply UtilsGeom.pow2_le; lia). lia. }
      destruct (remap_Inv s R m I En2 HT62) as (nd1 & ca1 & Er & I1).
      set (m1 := mkM nd1 ca1 (ms_n m) (ms_total m + 1) (ms_full m)) in *.
      assert (Hfit1 : N.of_nat (length s) + 1 <= 2 ^ ms_total m1).
      { cbn [ms_total m1]. rewrite UtilsGeom.pow2_S. pose proof (UtilsGeom.pow2_pos (ms_total m)). lia. }
      destruct (addSingle_Inv s R m1 a rem0 I1 Hfit1 Hfresh Hne Hsep) as (nd & ca & E & I').
      cbn [ms_n ms_total ms_full ms_nodes ms_cached m1] in E, I'.
      exists (ms_total m + 1), nd, ca. split; [|split; [reflexivity|exact I']].
      assert (F1 : ms_n m + 1 <= 2 ^ (ms_total m + 1)).
      { rewrite UtilsGeom.pow2_S. pose proof (UtilsGeom.pow2_pos (ms_total m)). lia. }
      assert (F2 : ms_n m + 1 <= 2 ^ 63) by lia.
      unfold addSingle in *. rewrite Er.
      match type of E with
      | context [remap ?x1 ?x2 ?x3] =>
          replace (remap x1 x2 x3) with (Some (x2, x3)) in E
            by (symmetry; exact (remap_noop _ _ _ F1 F2))
      end.
      exact E.
  Qed.

  (** any list of additions *)
  Theorem add_all_gen adds : forall s R m,
    Inv s R m -> N.of_nat (length s) + N.of_nat (length adds) <= 2 ^ 63 ->
    adds_ok s R (ms_full m) adds ->
    exists T' nd ca,
      add_all HO (ms_full m) adds (ms_n m) (ms_total m) (ms_nodes m, ms_cached m)
        = Some (ms_n m + N.of_nat (length adds), T', (nd, ca)) /\
      ms_total m <= T' /\
      Inv (s ++ map Some (map fst adds)) (fold_left (Rnext (ms_full m)) adds R)
          (mkM nd ca (ms_n m + N.of_nat (length adds)) T' (ms_full m)).
  Proof.
    induction adds as [|[a r] rest IH]; intros s R m I Hfit Hok.
    - exists (ms_total m), (ms_nodes m), (ms_cached m). cbn [add_all length map fold_left].
      rewrite N.add_0_r, app_nil_r. split; [reflexivity|]. split; [lia|]. destruct m; exact I.
    - cbn [adds_ok fst snd] in Hok. destruct Hok as (Hfresh & Hne & Hsep & Hrest).
      cbn [length] in Hfit.
      destruct (addSingle_gen s R m a r I ltac:(lia) Hfresh Hne Hsep) as (T1 & nd1 & ca1 & E1 & ET1 & I1).
      cbn [add_all]. rewrite E1.
      assert (En1 : add64 (ms_n m) 1 = ms_n m + 1).
      { apply add64_1. pose proof (inv_n _ _ _ I) as En. unfold num_leaves in En. lia. }
      rewrite En1.
      destruct (IH (s ++ [Some a]) (Rnext (ms_full m) R (a, r))
                  (mkM nd1 ca1 (ms_n m + 1) T1 (ms_full m)) I1) as (T' & nd & ca & E & HT' & I2).
      + rewrite app_length. cbn [length]. lia.
      + exact Hrest.
      + cbn [ms_n ms_total ms_nodes ms_cached ms_full] in E, I2, HT'. exists T', nd, ca.
        replace (ms_n m + N.of_nat (length ((a, r) :: rest)))
          with (ms_n m + 1 + N.of_nat (length rest)) by (cbn [length]; lia).
        split; [exact E|]. split.
        * rewrite ET1 in HT'. destruct (N.of_nat (length s) + 1 <=? 2 ^ ms_total m); lia.
        * cbn [map fold_left]. rewrite <- app_assoc in I2. exact I2.
  Qed.

  (** G1-G3 for [Modify]: a block without deletions *)
  Theorem modify_adds_gen adds s R m :
    Inv s R m -> N.of_nat (length s) + N.of_nat (length adds) <= 2 ^ 63 ->
    adds_ok s R (ms_full m) adds ->
    exists m', mm_modify HO m adds [] [] [] = Some m' /\
      Inv (s ++ map Some (map fst adds)) (fold_left (Rnext (ms_full m)) adds R) m' /\
      ms_total m <= ms_total m' /\ ms_full m' = ms_full m.
  Proof.
    intros I Hfit Hok. destruct (add_all_gen adds s R m I Hfit Hok) as (T' & nd & ca & E & HT' & I').
    unfold mm_modify, MapMut.remove. cbn [forallb negb fold_left].
    change (sortN []) with (@nil N).
    replace (deTwin (if ms_total m =? TreeRows (ms_n m) then []
                     else translatePositions [] (TreeRows (ms_n m)) (ms_total m)) (ms_total m))
      with (@nil N) by (destruct (ms_total m =? TreeRows (ms_n m)); reflexivity).
    cbv [fold_left].
    match goal with
    | |- context [add_all ?x1 ?x2 ?x3 ?x4 ?x5 ?x6] =>
        replace (add_all x1 x2 x3 x4 x5 x6)
          with (Some (ms_n m + N.of_nat (length adds), T', (nd, ca))) by (symmetry; exact E)
    end.
    eexists. split; [reflexivity|]. split; [exact I'|auto].
  Qed.
End Add.

(** * Part 6: a decision procedure for the side conditions, and an example *)
Section Check.
  Variable H : Type.
  Variable HO : ops H.
  Hypothesis HOK : ops_ok HO.

  Definition leaf_sepb (s : slots H) (R : list H) : bool :=
    forallb (fun x => negb (memH HO (nhash x) R) || nleaf x) (layout HO s).

  Lemma leaf_sepb_sound s R : leaf_sepb s R = true -> leaf_sep H HO s R.
  Proof.
    unfold leaf_sepb. rewrite forallb_forall. intros Hall x Hx Hin. specialize (Hall x Hx).
    apply (memH_In H HO HOK) in Hin. rewrite Hin in Hall. exact Hall.
  Qed.

  Definition liveb (s : slots H) (a : H) : bool :=
    existsb (fun o => match o with Some h => op_eqb HO h a | None => false end) s.

  Lemma liveb_false s a : liveb s a = false -> ~ In (Some a) s.
  Proof.
    intros E Hin. assert (liveb s a = true); [|congruence].
    apply existsb_exists. exists (Some a). split; [exact Hin|apply HOK; reflexivity].
  Qed.

  Fixpoint adds_okb (s : slots H) (R : list H) (full : bool) (adds : list (H * bool)) : bool :=
    match adds with
    | [] => true
    | e :: rest =>
        negb (liveb s (fst e)) && negb (op_eqb HO (fst e) (op_empty HO)) &&
        leaf_sepb (s ++ [Some (fst e)]) (Rnext H full R e) &&
        adds_okb (s ++ [Some (fst e)]) (Rnext H full R e) full rest
    end.

  Lemma adds_okb_sound adds : forall s R full, adds_okb s R full adds = true -> adds_ok H HO s R full adds.
  Proof.
    induction adds as [|e rest IH]; intros s R full E; [exact I|]. cbn [adds_okb adds_ok] in *.
    apply Bool.andb_true_iff in E as [E E4]. apply Bool.andb_true_iff in E as [E E3].
    apply Bool.andb_true_iff in E as [E1 E2].
    split; [apply liveb_false, Bool.negb_true_iff, E1|].
    split; [apply Bool.negb_true_iff, E2|]. split; [apply leaf_sepb_sound, E3|apply IH, E4].
  Qed.
End Check.

From Utreexo Require Import Spec.Term.

(** nine additions to the empty partial forest allocated with 0 rows (so [remap] runs four
    times), three of them remembered: the theorem applies, and the result is the one computed *)
Definition mma_adds : list (term * bool) :=
  [(Atom 1, true); (Atom 2, false); (Atom 3, false); (Atom 4, true); (Atom 5, false);
   (Atom 6, false); (Atom 7, false); (Atom 8, false); (Atom 9, true)].

Example mma_ex :
  exists m', mm_modify term_ops (mkM [] [] 0 0 false) mma_adds [] [] [] = Some m' /\
    consistent term_ops (map Some (map fst mma_adds)) [Atom 1; Atom 4; Atom 9] m' /\
    (forall p, In p (stored_min m') ->
       exists al, allowed_pos term_ops (map Some (map fst mma_adds)) [Atom 1; Atom 4; Atom 9] = Some al /\
                  In p al) /\
    ms_full m' = false.
Proof.
  destruct (modify_adds_gen term term_ops term_ops_ok term_node_nonzero mma_adds [] []
              (mkM [] [] 0 0 false) (Inv_empty term term_ops 0 false ltac:(discriminate)))
    as (m' & E & I & _ & F).
  - cbn. discriminate.
  - apply (adds_okb_sound term term_ops term_ops_ok). vm_compute. reflexivity.
  - exists m'. split; [exact E|]. split; [exact (Inv_consistent term term_ops term_ops_ok _ _ _ I)|].
    split; [|exact F].
    exact (Inv_stores_allowed term term_ops term_ops_ok _ _ _ I F).
Qed.


Example mma_ex_run :
  mm_modify term_ops (mkM [] [] 0 0 false) mma_adds [] [] [] =
  Some (mkM [(8, (Atom 9, true));
             (28, (Node (Node (Node (Atom 1) (Atom 2)) (Node (Atom 3) (Atom 4)))
                        (Node (Node (Atom 5) (Atom 6)) (Node (Atom 7) (Atom 8))), false));
             (25, (Node (Node (Atom 5) (Atom 6)) (Node (Atom 7) (Atom 8)), false));
             (17, (Node (Atom 3) (Atom 4), false)); (16, (Node (Atom 1) (Atom 2), false));
             (3, (Atom 4, true)); (2, (Atom 3, false)); (1, (Atom 2, false)); (0, (Atom 1, true))]
            [(Atom 9, 8); (Atom 4, 3); (Atom 1, 0)] 9 4 false).
Proof. vm_compute. reflexivity. Qed.

(** [leaf_sep] is necessary: a full forest in which the remembered leaf
    [X = Node (Atom 12) (Atom 13)] has the hash of an inner node.  When the inner node moves over
    the empty root, [cached_move] (keyed by the hash) re-binds the cached position of [X]: the
    map is consistent before the addition and not after it *)
Definition mmc_X : term := Node (Atom 12) (Atom 13).
Definition mmc_s : slots term :=
  map Some ([mmc_X] ++ map Atom [1; 2; 3; 4; 5; 6; 7]) ++ [None; None; None; None] ++
  map Some (map Atom [12; 13; 14]).
Definition mmc_R : list term := [mmc_X] ++ map Atom [1; 2; 3; 4; 5; 6; 7; 12; 13; 14].
Definition mmc_m : mstate term :=
  match mm_modify term_ops (mkM [] [] 0 4 true)
          (map (fun h => (h, false)) ([mmc_X] ++ map Atom [1; 2; 3; 4; 5; 6; 7; 8; 9; 10; 11; 12; 13; 14]))
          [] [] [] with
  | Some m1 =>
      match mm_modify term_ops m1 [] (map Atom [8; 9; 10; 11])
              (GetLeafHashPositions term_ops m1 (map Atom [8; 9; 10; 11])) [] with
      | Some m2 => m2
      | None => m1
      end
  | None => mkM [] [] 0 4 true
  end.

Example mmc_collision :
  consistentb term_ops mmc_s mmc_R mmc_m = true /\
  leaf_sepb term term_ops (mmc_s ++ [Some (Atom 15)]) (mmc_R ++ [Atom 15]) = false /\
  match mm_modify term_ops mmc_m [(Atom 15, false)] [] [] [] with
  | Some m' =>
      consistentb term_ops (mmc_s ++ [Some (Atom 15)]) (mmc_R ++ [Atom 15]) m' = false /\
      GetLeafPosition term_ops m' mmc_X = Some 26 /\
      leaf_pos term_ops 4 (layout term_ops (mmc_s ++ [Some (Atom 15)])) mmc_X = Some 0
  | None => False
  end.
Proof. vm_compute. auto. Qed.

Print Assumptions addSingle_Inv.
Print Assumptions modify_adds_Inv.
Print Assumptions modify_adds_gen.
Print Assumptions Inv_consistent.
Print Assumptions Inv_stores_allowed.
