(** Unbounded soundness of the repaired verifier in the free hash algebra
    ("an accepted proof only states true facts, barring a hash collision").

    Assembled from three ingredients:
    - [Proofs.CalcSound.calc_claims_sound]: parametric soundness of [calculateHashes] for any
      truth predicate [V] that is locally sound for one hashing step;
    - [Proofs.LayoutStruct]: the structure of the reference layout ([node_cases], [root_node],
      [roots_nth_bit], [find_pos_coord]);
    - [Proofs.UtilsGeom], [Proofs.UtilsGeom2]: the geometry of the position arithmetic.

    The truth predicate is [V p h] = "position [p] is the coordinate [(r, o)] of the geometry of
    the forest and the node of the reference layout at [(r, o)] has hash [h]". *)
From Utreexo Require Import Model.Verify Spec.Forest Spec.Oracle Spec.Term
  Proofs.UtilsGeom Proofs.UtilsGeom2 Proofs.CalcSound Proofs.LayoutStruct.
From Coq Require Import List Arith PeanoNat NArith Lia ZifyNat ZifyN ZifyBool.
Import ListNotations.
Open Scope N_scope.

(** * 1. Geometry: the rows partition the positions of the frame *)

Lemma gstart_0 h : gstart h 0 = 0.
Proof. unfold gstart. rewrite N.sub_0_r. lia. Qed.

Lemma gstart_succ h r : r <= h -> gstart h (r + 1) = gstart h r + 2 ^ (h - r).
Proof.
  intros Hr. unfold gstart.
  replace (h + 1 - r) with (h - r + 1) by lia.
  replace (h + 1 - (r + 1)) with (h - r) by lia.
  rewrite (pow2_S (h - r)).
  assert (Hle : 2 * 2 ^ (h - r) <= 2 ^ (h + 1)).
  { rewrite <- pow2_S. apply pow2_le. lia. }
  lia.
Qed.

Lemma gstart_top h : gstart h (h + 1) = 2 ^ (h + 1) - 1.
Proof. unfold gstart. replace (h + 1 - (h + 1)) with 0 by lia. reflexivity. Qed.

Lemma gpos_surj_below h p : forall k : nat,
  N.of_nat k <= h + 1 -> p < gstart h (N.of_nat k) ->
  exists r o, r < N.of_nat k /\ o < 2 ^ (h - r) /\ p = gpos h r o.
Proof.
  induction k as [|k IH]; intros Hk Hp.
  - change (N.of_nat 0) with 0 in Hp. rewrite gstart_0 in Hp. lia.
  - rewrite Nat2N.inj_succ in *. replace (N.succ (N.of_nat k)) with (N.of_nat k + 1) in * by lia.
    assert (Hkh : N.of_nat k <= h) by lia.
    rewrite (gstart_succ h (N.of_nat k) Hkh) in Hp.
    destruct (N.lt_ge_cases p (gstart h (N.of_nat k))) as [Hlt|Hge].
    + destruct (IH ltac:(lia) Hlt) as (r & o & Hr & Ho & E).
      exists r, o. split; [lia|]. split; assumption.
    + exists (N.of_nat k), (p - gstart h (N.of_nat k)). split; [lia|]. split; [lia|].
      unfold gpos. lia.
Qed.

(** every position of the frame of height [h] is the position of a valid coordinate *)
Lemma gpos_surj h p : p <= 2 ^ (h + 1) - 2 ->
  exists r o, r <= h /\ o < 2 ^ (h - r) /\ p = gpos h r o.
Proof.
  intros Hp.
  destruct (gpos_surj_below h p (N.to_nat (h + 1))) as (r & o & Hr & Ho & E).
  - rewrite N2Nat.id. lia.
  - rewrite N2Nat.id, gstart_top. pose proof (pow2_S h). pose proof (pow2_pos h). lia.
  - rewrite N2Nat.id in Hr. exists r, o. split; [lia|]. split; assumption.
Qed.

(** the parent of the top position leaves the frame *)
Lemma Parent_top h : h <= 63 -> Parent (gpos h h 0) h = 2 ^ (h + 1) - 1.
Proof.
  intros Hh. unfold Parent, or64, shr, gpos, gstart. rewrite shl_1 by assumption.
  rewrite N.shiftr_div_pow2, N.pow_1_r.
  replace (h + 1 - h) with 1 by lia. rewrite N.pow_1_r, N.add_0_r.
  pose proof (pow2_S h) as ES. pose proof (pow2_pos h) as HP.
  assert (Ediv : (2 ^ (h + 1) - 2) / 2 = 2 ^ h - 1).
  { replace (2 ^ (h + 1) - 2) with ((2 ^ h - 1) * 2) by lia. apply N.div_mul. lia. }
  rewrite Ediv. rewrite lor_pow2_add by lia. lia.
Qed.

(** the two child offsets of [o / 2] are [o] and its sibling offset *)
Lemma child_offsets o :
  (if N.even o then 2 * (o / 2) = o /\ 2 * (o / 2) + 1 = N.lxor o 1
   else 2 * (o / 2) + 1 = o /\ 2 * (o / 2) = N.lxor o 1).
Proof.
  pose proof (N.div_mod' o 2) as Hdm. pose proof (mod2_even o) as Hm.
  rewrite lxor_1. destruct (N.even o) eqn:E; [lia|]. pose proof (odd_nz o E). lia.
Qed.

(** * 1b. [strict_match]: equal lengths mean that no candidate was dropped *)

Section StrictMatch.
  Variable H : Type.
  Variable HO : ops H.

  Lemma strict_match_length_le n roots : forall cands rows,
    (length (strict_match HO n roots cands rows) <= length cands)%nat.
  Proof.
    induction cands as [|c cs IH]; intros rows; [cbn [strict_match length]; lia|].
    destruct rows as [|r rs]; cbn [strict_match length]; [lia|].
    specialize (IH rs).
    destruct (nth_error roots (rootIndexForRow n r)) as [x|]; [|lia].
    destruct (op_eqb HO x c); cbn [length]; lia.
  Qed.

  Lemma strict_match_all n roots : forall cands rows,
    length cands = length rows ->
    length (strict_match HO n roots cands rows) = length cands ->
    forall i c r, nth_error cands i = Some c -> nth_error rows i = Some r ->
      exists x, nth_error roots (rootIndexForRow n r) = Some x /\ op_eqb HO x c = true.
  Proof.
    induction cands as [|c0 cs IH]; intros rows Hlen Hm i c r Hc Hr; [destruct i; discriminate|].
    destruct rows as [|r0 rs]; [discriminate Hlen|].
    cbn [length] in Hlen. cbn [strict_match] in Hm.
    pose proof (strict_match_length_le n roots cs rs) as Hle.
    destruct (nth_error roots (rootIndexForRow n r0)) as [x|] eqn:Ex;
      [|cbn [length] in Hm; lia].
    destruct (op_eqb HO x c0) eqn:Eq; cbn [length] in Hm; [|lia].
    destruct i as [|i]; cbn [nth_error] in Hc, Hr.
    - injection Hc as <-. injection Hr as <-. exists x. split; assumption.
    - apply (IH rs ltac:(lia) ltac:(lia) i c r Hc Hr).
  Qed.

  (** [claims_true] read claim by claim *)
  Lemma claims_true_nth (c : ctx H) : forall ts hs,
    claims_true HO c ts hs = true ->
    forall j t h, nth_error ts j = Some t -> nth_error hs j = Some h ->
      claim_true HO c t h = true.
  Proof.
    induction ts as [|t0 ts IH]; intros hs Hc j t h Ht Hh; [destruct j; discriminate|].
    destruct hs as [|h0 hs]; [destruct j; discriminate|].
    cbn [claims_true] in Hc. apply andb_true_iff in Hc. destruct Hc as [Hc0 Hc].
    destruct j as [|j]; cbn [nth_error] in Ht, Hh.
    - injection Ht as <-. injection Hh as <-. exact Hc0.
    - exact (IH hs Hc j t h Ht Hh).
  Qed.

  Lemma claims_true_intro (c : ctx H) : forall ts hs,
    length hs = length ts ->
    (forall j t h, nth_error ts j = Some t -> nth_error hs j = Some h ->
       claim_true HO c t h = true) ->
    claims_true HO c ts hs = true.
  Proof.
    induction ts as [|t0 ts IH]; intros hs Hlen Hall; destruct hs as [|h0 hs];
      cbn [length] in Hlen; try discriminate Hlen; [reflexivity|].
    cbn [claims_true]. apply andb_true_iff. split.
    - exact (Hall O t0 h0 eq_refl eq_refl).
    - apply IH; [lia|]. intros j t h Ht Hh. exact (Hall (S j) t h Ht Hh).
  Qed.

  Lemma claims_true_length (c : ctx H) : forall ts hs,
    claims_true HO c ts hs = true -> length hs = length ts.
  Proof.
    induction ts as [|t0 ts IH]; intros hs Hc; destruct hs as [|h0 hs];
      cbn [claims_true] in Hc; try discriminate Hc; [reflexivity|].
    apply andb_true_iff in Hc. destruct Hc as [_ Hc]. cbn [length]. rewrite (IH hs Hc).
    reflexivity.
  Qed.
End StrictMatch.

(** * 2. The truth predicate of a reference forest and its local soundness *)

Section Sound.
  Variable s : slots term.
  Hypothesis Hatoms : forall h, In (Some h) s -> exists i, h = Atom i.
  Hypothesis Hn63 : N.of_nat (length s) <= 2 ^ 63.

  Local Notation n := (N.of_nat (length s)).
  Local Notation total := (TreeRows (N.of_nat (length s))).
  Local Notation R := (rows_of (num_leaves s)).

  Lemma snd_R_total : N.of_nat R = total.
  Proof. unfold rows_of, num_leaves. rewrite N2Nat.id. reflexivity. Qed.

  Lemma snd_total_63 : total <= 63.
  Proof. apply TreeRows_le_63. exact Hn63. Qed.

  Definition V (p : N) (h : term) : Prop :=
    exists (r : nat) (o : N),
      (r <= R)%nat /\ o < 2 ^ (total - N.of_nat r) /\
      p = gpos total (N.of_nat r) o /\ thash term_ops s r o = Some h.

  Lemma V_intro (r : nat) o p h :
    N.of_nat r <= total -> o < 2 ^ (total - N.of_nat r) ->
    p = gpos total (N.of_nat r) o -> thash term_ops s r o = Some h -> V p h.
  Proof.
    intros Hr Ho Ep Eh. exists r, o. split; [|split; [exact Ho|split; [exact Ep|exact Eh]]].
    pose proof snd_R_total as ER. lia.
  Qed.

  Lemma V_step : forall p h hs,
    p <= 2 ^ (total + 1) - 2 -> NZ term_ops h -> NZ term_ops hs ->
    V (Parent p total)
      (if isLeftNiece p then op_hash2 term_ops h hs else op_hash2 term_ops hs h) ->
    V p h /\ V (sibling p) hs.
  Proof.
    intros p h hs Hp _ _ HV. cbn [op_hash2 term_ops] in HV.
    pose proof snd_total_63 as Ht63. pose proof snd_R_total as ER.
    destruct (gpos_surj total p Hp) as (r & o & Hr & Ho & Ep).
    destruct HV as (r' & o' & Hr' & Ho' & Epar & Eh).
    destruct (N.eq_dec r total) as [Ert|Hne].
    - (* the top position has no parent inside the frame *)
      exfalso. subst r. rewrite N.sub_diag in Ho. change (2 ^ 0) with 1 in Ho.
      assert (o = 0) by lia. subst o. rewrite Ep, Parent_top in Epar by exact Ht63.
      pose proof (gpos_range total (N.of_nat r') o' ltac:(lia) Ho') as Hrange.
      pose proof (pow2_S total). pose proof (pow2_pos total). lia.
    - assert (Hrlt : r < total) by lia.
      rewrite Ep, Parent_gpos in Epar by assumption.
      assert (Ho2 : o / 2 < 2 ^ (total - (r + 1))).
      { apply N.div_lt_upper_bound; [lia|]. rewrite <- pow2_S.
        replace (total - (r + 1) + 1) with (total - r) by lia. exact Ho. }
      apply gpos_inj in Epar; [|lia|exact Ho2|lia|exact Ho'].
      destruct Epar as [Er Eo]. subst o'.
      assert (Er' : r' = S (N.to_nat r)) by lia. subst r'.
      set (rn := N.to_nat r) in *.
      assert (Ern : N.of_nat rn = r) by (unfold rn; apply N2Nat.id).
      rewrite Ep, isLeftNiece_gpos in Eh by exact Hr.
      apply thash_some in Eh. destruct Eh as (x & Hx & Hhx).
      destruct (sib_offsets_lt total r o Hrlt Ho) as (Hsib & _ & _).
      assert (Esib : sibling p = gpos total (N.of_nat rn) (N.lxor o 1)).
      { rewrite Ern, Ep. apply sibling_gpos. exact Hr. }
      assert (Ep' : p = gpos total (N.of_nat rn) o) by (rewrite Ern; exact Ep).
      destruct (node_cases term term_ops s _ _ x Hx)
        as [r'' xl xr _ Er'' Hxl Hxr Hh _ _ _ _|Hlf Hin _|_ _ Hz _ _ _].
      + injection Er'' as <-. cbn [op_hash2 term_ops] in Hh. rewrite Hh in Hhx.
        pose proof (child_offsets o) as Hco.
        destruct (N.even o); destruct Hco as [E1 E2]; injection Hhx as Hl Hr2.
        * rewrite E1 in Hxl. rewrite E2 in Hxr. split.
          -- apply (V_intro rn o); [lia|rewrite Ern; exact Ho|exact Ep'|].
             apply thash_some. exists xl. split; assumption.
          -- apply (V_intro rn (N.lxor o 1)); [lia|rewrite Ern; exact Hsib|exact Esib|].
             apply thash_some. exists xr. split; assumption.
        * rewrite E1 in Hxr. rewrite E2 in Hxl. split.
          -- apply (V_intro rn o); [lia|rewrite Ern; exact Ho|exact Ep'|].
             apply thash_some. exists xr. split; assumption.
          -- apply (V_intro rn (N.lxor o 1)); [lia|rewrite Ern; exact Hsib|exact Esib|].
             apply thash_some. exists xl. split; assumption.
      + exfalso. destruct (Hatoms _ Hin) as [i Hi]. rewrite Hi in Hhx.
        destruct (N.even o); discriminate Hhx.
      + exfalso. cbn [op_empty term_ops] in Hz. rewrite Hz in Hhx.
        destruct (N.even o); discriminate Hhx.
  Qed.

  (** ** The root candidates *)

  Lemma rootIndexForRow_eq r : r <= 63 ->
    rootIndexForRow n r = N.to_nat (popcount (N.shiftr n (r + 1))).
  Proof.
    intros Hr. unfold rootIndexForRow, numRoots, shr. rewrite add8_small by lia. reflexivity.
  Qed.

  (** a candidate of row [r] (bit [r] of [n] set) that equals the stored root of its row is a
      true claim about the root position of that row *)
  Lemma V_root (c : term) (r : N) x :
    N.testbit n r = true -> r <= total ->
    nth_error (roots term_ops s) (rootIndexForRow n r) = Some x ->
    term_eqb x c = true ->
    V (rootPosition n r total) c.
  Proof.
    intros Hbit Hr Hnth Heq. pose proof snd_total_63 as Ht63.
    pose proof (TreeRows_upper n) as Hup.
    set (k := N.to_nat r).
    assert (Ek : N.of_nat k = r) by (unfold k; apply N2Nat.id).
    rewrite rootIndexForRow_eq in Hnth by lia.
    destruct (roots_nth_bit term term_ops s k) as (lo & t & Hin & Hroot);
      [rewrite Ek; exact Hbit|].
    rewrite Ek, Hnth in Hroot. injection Hroot as Ex.
    apply term_eqb_spec in Heq. subst c.
    destruct (root_node term term_ops s k lo t Hin) as (_ & _ & Ediv & xn & Hxn & _ & Hh & _).
    rewrite Ek in Ediv, Hxn. rewrite Ediv in Hxn.
    destruct (root_coord_valid n r total Hup Hbit) as [_ Hov].
    apply (V_intro k (2 * (n / 2 ^ (r + 1)))).
    - lia.
    - rewrite Ek. exact Hov.
    - rewrite Ek. apply rootPosition_gpos; assumption.
    - apply thash_some. exists xn. split; [exact Hxn|]. rewrite Hh. symmetry. exact Ex.
  Qed.

  (** ** From [V] to the oracle's judgement *)

  Lemma V_claim_true t h : V t h -> claim_true term_ops (mk_ctx term_ops s) t h = true.
  Proof.
    intros (r & o & Hr & Ho & Et & Eh). pose proof snd_R_total as ER.
    unfold claim_true, mk_ctx. cbn [crows clay].
    assert (Epos : t = pos R r o).
    { rewrite pos_gpos, ER. exact Et. }
    rewrite Epos.
    rewrite (find_pos_coord term term_ops s r o Hr) by (rewrite ER; exact Ho).
    apply thash_some in Eh. destruct Eh as (x & Hx & Hhx). unfold tnode in Hx.
    rewrite Hx. cbn [op_eqb term_ops]. apply term_eqb_spec. exact Hhx.
  Qed.

  (** ** The core: [calculateHashes] + all candidates matched *)

  Lemma calc_match_sound hs ts pf inter cands rows :
    length hs = length ts ->
    has_empty term_ops hs = false -> has_empty term_ops pf = false ->
    calculateHashes term_ops true n (Some hs) ts pf = Ok (inter, cands, rows) ->
    length cands = length (strict_match term_ops n (roots term_ops s) cands rows) ->
    claims_true term_ops (mk_ctx term_ops s) ts hs = true.
  Proof.
    intros Hlen Hhs Hpf Ecalc Hm.
    destruct (calc_claims_sound term term_ops V n total eq_refl Hn63 cs_term_hash_nz V_step
                hs ts pf inter cands rows Hlen Hhs Hpf Ecalc) as (Hcr & Hok & Hsound).
    apply claims_true_intro; [exact Hlen|].
    intros j t h Ht Hh. apply V_claim_true. apply (fun Hall => Hsound Hall j t h Ht Hh).
    intros i c r Hc Hr.
    destruct (Hok i c r Hc Hr) as (Hbit & Hrt & _ & _).
    destruct (strict_match_all term term_ops n (roots term_ops s) cands rows Hcr
                (eq_sym Hm) i c r Hc Hr) as (x & Hx & Heq).
    exact (V_root c r x Hbit Hrt Hx Heq).
  Qed.

  Theorem verify_sound hs ts pf idx :
    Verify term_ops true (the_stump (mk_ctx term_ops s)) hs ts pf = Ok idx ->
    claims_true term_ops (mk_ctx term_ops s) ts hs = true.
  Proof.
    unfold Verify, the_stump, mk_ctx. cbn [st_n st_roots croots cn]. unfold num_leaves.
    destruct (Nat.eqb_spec (length hs) (length ts)) as [Hlen|_]; cbn [negb]; [|discriminate].
    cbn [andb].
    destruct (has_empty term_ops hs) eqn:Ehs; cbn [orb]; [discriminate|].
    destruct (has_empty term_ops pf) eqn:Epf; [discriminate|].
    destruct (calculateHashes term_ops true n (Some hs) ts pf) as [[[inter cands] rows]| | |] eqn:Ecalc;
      try discriminate.
    destruct (Nat.eqb_spec (length cands)
                (length (strict_match term_ops n (roots term_ops s) cands rows))) as [Hm|_];
      [|discriminate].
    intros _. exact (calc_match_sound hs ts pf inter cands rows Hlen Ehs Epf Ecalc Hm).
  Qed.

  Theorem pollard_verify_sound hs ts pf :
    hs <> [] ->
    PollardVerify term_ops true (the_stump (mk_ctx term_ops s)) hs ts pf = Ok tt ->
    claims_true term_ops (mk_ctx term_ops s) ts hs = true.
  Proof.
    intros Hne. unfold PollardVerify, the_stump, mk_ctx. cbn [st_n st_roots croots cn].
    unfold num_leaves. destruct hs as [|h0 hs']; [exfalso; apply Hne; reflexivity|].
    set (hs := h0 :: hs') in *.
    destruct (Nat.eqb_spec (length hs) (length ts)) as [Hlen|_]; cbn [negb]; [|discriminate].
    cbn [andb].
    destruct (has_empty term_ops hs) eqn:Ehs; cbn [orb]; [discriminate|].
    destruct (has_empty term_ops pf) eqn:Epf; [discriminate|].
    destruct (calculateHashes term_ops true n (Some hs) ts pf) as [[[inter cands] rows]| | |] eqn:Ecalc;
      try discriminate.
    destruct cands as [|c0 cands']; [discriminate|]. set (cands := c0 :: cands') in *.
    destruct (Nat.eqb_spec (length cands)
                (length (strict_match term_ops n (roots term_ops s) cands rows))) as [Hm|_];
      [|discriminate].
    intros _. exact (calc_match_sound hs ts pf inter cands rows Hlen Ehs Epf Ecalc Hm).
  Qed.

End Sound.

(** * 3. The closed statements *)

(** every live leaf hash is an atom of the free algebra (same body as [Properties.C03.atoms_only]) *)
Definition leaves_atoms (s : slots term) : Prop :=
  forall h, In (Some h) s -> exists i, h = Atom i.

Definition C03_sound_statement : Prop :=
  forall (s : slots term) hs ts pf idx,
    leaves_atoms s ->
    N.of_nat (length s) <= 2 ^ 63 ->
    Verify term_ops true (the_stump (mk_ctx term_ops s)) hs ts pf = Ok idx ->
    claims_true term_ops (mk_ctx term_ops s) ts hs = true.

Theorem C03_sound_holds : C03_sound_statement.
Proof.
  intros s hs ts pf idx Hat Hn E. exact (verify_sound s Hat Hn hs ts pf idx E).
Qed.

(** (a) the same for [Pollard.Verify] *)
Definition C03_pollard_sound_statement : Prop :=
  forall (s : slots term) hs ts pf,
    leaves_atoms s ->
    N.of_nat (length s) <= 2 ^ 63 ->
    hs <> [] ->
    PollardVerify term_ops true (the_stump (mk_ctx term_ops s)) hs ts pf = Ok tt ->
    claims_true term_ops (mk_ctx term_ops s) ts hs = true.

Theorem C03_pollard_sound_holds : C03_pollard_sound_statement.
Proof.
  intros s hs ts pf Hat Hn Hne E. exact (pollard_verify_sound s Hat Hn hs ts pf Hne E).
Qed.

(** (b) [claims_true] lists nodes by position *)
Lemma claim_true_spec {H} (HO : ops H) (c : ctx H) p h : ops_ok HO ->
  (claim_true HO c p h = true <->
   exists x, find_pos (crows c) (clay c) p = Some x /\ nhash x = h).
Proof.
  intros Hok. unfold claim_true. destruct (find_pos (crows c) (clay c) p) as [x|].
  - rewrite (Hok (nhash x) h). split.
    + intros E. exists x. split; [reflexivity|exact E].
    + intros (y & Ey & Eh). injection Ey as ->. exact Eh.
  - split; [discriminate|]. intros (y & Ey & _). discriminate Ey.
Qed.

Theorem claims_true_nodes {H} (HO : ops H) (c : ctx H) ts hs : ops_ok HO ->
  claims_true HO c ts hs = true ->
  length hs = length ts /\
  forall j t h, nth_error ts j = Some t -> nth_error hs j = Some h ->
    exists x, find_pos (crows c) (clay c) t = Some x /\ nhash x = h.
Proof.
  intros Hok Hc. split; [exact (claims_true_length H HO c ts hs Hc)|].
  intros j t h Ht Hh. apply (claim_true_spec HO c t h Hok).
  exact (claims_true_nth H HO c ts hs Hc j t h Ht Hh).
Qed.

(** the soundness theorem read node by node: every accepted claim [(t, h)] names a node of the
    reference forest, at position [t], with hash [h] *)
Definition C03_sound_nodes_statement : Prop :=
  forall (s : slots term) hs ts pf idx,
    leaves_atoms s ->
    N.of_nat (length s) <= 2 ^ 63 ->
    Verify term_ops true (the_stump (mk_ctx term_ops s)) hs ts pf = Ok idx ->
    forall j t h, nth_error ts j = Some t -> nth_error hs j = Some h ->
      exists x, find_pos (crows (mk_ctx term_ops s)) (clay (mk_ctx term_ops s)) t = Some x /\
                nhash x = h.

Theorem C03_sound_nodes_holds : C03_sound_nodes_statement.
Proof.
  intros s hs ts pf idx Hat Hn E.
  exact (proj2 (claims_true_nodes term_ops (mk_ctx term_ops s) ts hs term_ops_ok
                  (C03_sound_holds s hs ts pf idx Hat Hn E))).
Qed.

(** ... and that node is the node of the layout at its (row, offset) coordinate *)
Theorem C03_sound_coords :
  forall (s : slots term) hs ts pf idx,
    leaves_atoms s ->
    N.of_nat (length s) <= 2 ^ 63 ->
    Verify term_ops true (the_stump (mk_ctx term_ops s)) hs ts pf = Ok idx ->
    forall j t h, nth_error ts j = Some t -> nth_error hs j = Some h ->
      exists x, tnode term_ops s (nrow x) (noff x) = Some x /\
                t = pos (rows_of (num_leaves s)) (nrow x) (noff x) /\ nhash x = h.
Proof.
  intros s hs ts pf idx Hat Hn E j t h Ht Hh.
  destruct (C03_sound_nodes_holds s hs ts pf idx Hat Hn E j t h Ht Hh) as (x & Hx & Hhx).
  unfold mk_ctx in Hx. cbn [crows clay] in Hx.
  destruct (find_pos_layout term term_ops s t x Hx) as [Htn Hp].
  exists x. split; [exact Htn|]. split; [exact Hp|exact Hhx].
Qed.

(** (c) rejection: a false claim is never accepted *)
Definition C03_reject_statement : Prop :=
  forall (s : slots term) hs ts pf idx,
    leaves_atoms s ->
    N.of_nat (length s) <= 2 ^ 63 ->
    claims_true term_ops (mk_ctx term_ops s) ts hs = false ->
    Verify term_ops true (the_stump (mk_ctx term_ops s)) hs ts pf <> Ok idx.

Theorem C03_reject_holds : C03_reject_statement.
Proof.
  intros s hs ts pf idx Hat Hn Hfalse E.
  rewrite (C03_sound_holds s hs ts pf idx Hat Hn E) in Hfalse. discriminate Hfalse.
Qed.

(** the same with the false claim named: claim [j] says [h] about position [t], and no node of
    the forest at position [t] has hash [h] *)
Theorem C03_reject_claim :
  forall (s : slots term) hs ts pf idx j t h,
    leaves_atoms s ->
    N.of_nat (length s) <= 2 ^ 63 ->
    nth_error ts j = Some t -> nth_error hs j = Some h ->
    (forall x, find_pos (crows (mk_ctx term_ops s)) (clay (mk_ctx term_ops s)) t = Some x ->
               nhash x <> h) ->
    Verify term_ops true (the_stump (mk_ctx term_ops s)) hs ts pf <> Ok idx.
Proof.
  intros s hs ts pf idx j t h Hat Hn Ht Hh Hno E.
  destruct (C03_sound_nodes_holds s hs ts pf idx Hat Hn E j t h Ht Hh) as (x & Hx & Hhx).
  exact (Hno x Hx Hhx).
Qed.

Theorem C03_pollard_reject :
  forall (s : slots term) hs ts pf,
    leaves_atoms s ->
    N.of_nat (length s) <= 2 ^ 63 ->
    hs <> [] ->
    claims_true term_ops (mk_ctx term_ops s) ts hs = false ->
    PollardVerify term_ops true (the_stump (mk_ctx term_ops s)) hs ts pf <> Ok tt.
Proof.
  intros s hs ts pf Hat Hn Hne Hfalse E.
  rewrite (C03_pollard_sound_holds s hs ts pf Hat Hn Hne E) in Hfalse. discriminate Hfalse.
Qed.

(** * 4. Non-vacuity: a forest with dead slots and an empty root ([LayoutStruct.ls_ex]:
    slots [Atom 1; -; Atom 3; Atom 4; -; -; Atom 7], roots [Node 1 (Node 3 4); Zero; Atom 7]) *)

Lemma ls_ex_atoms : leaves_atoms ls_ex.
Proof.
  intros h Hin. unfold ls_ex in Hin. cbn [In] in Hin.
  repeat (destruct Hin as [E|Hin]; [try discriminate E; injection E as <-; eexists; reflexivity|]).
  destruct Hin.
Qed.

Lemma ls_ex_bound : N.of_nat (length ls_ex) <= 2 ^ 63.
Proof. vm_compute. discriminate. Qed.

(** an honest proof for the leaves [Atom 7] (position 6) and [Atom 3] (position 2), targets given
    out of order, is accepted; it matches roots 2 and 0 *)
Example ex_honest_accepted :
  Verify term_ops true (the_stump (mk_ctx term_ops ls_ex))
         [Atom 7; Atom 3] [6; 2] [Atom 4; Atom 1] = Ok [2%nat; 0%nat].
Proof. vm_compute. reflexivity. Qed.

Example ex_honest_claims_true :
  claims_true term_ops (mk_ctx term_ops ls_ex) [6; 2] [Atom 7; Atom 3] = true.
Proof. vm_compute. reflexivity. Qed.

(** the theorem applied (not computed): its hypotheses are satisfiable *)
Example ex_honest_by_theorem :
  claims_true term_ops (mk_ctx term_ops ls_ex) [6; 2] [Atom 7; Atom 3] = true.
Proof.
  exact (C03_sound_holds ls_ex [Atom 7; Atom 3] [6; 2] [Atom 4; Atom 1] [2%nat; 0%nat]
           ls_ex_atoms ls_ex_bound ex_honest_accepted).
Qed.

Example ex_honest_pollard_accepted :
  PollardVerify term_ops true (the_stump (mk_ctx term_ops ls_ex))
                [Atom 7; Atom 3] [6; 2] [Atom 4; Atom 1] = Ok tt.
Proof. vm_compute. reflexivity. Qed.

(** the leaf [Atom 1] moved up to row 1 (position 8) when its sibling died: the honest claim
    names position 8; the claim "position 0 holds [Atom 1]" is false and rejected *)
Example ex_moved_leaf_accepted :
  Verify term_ops true (the_stump (mk_ctx term_ops ls_ex))
         [Atom 1] [8] [Node (Atom 3) (Atom 4)] = Ok [0%nat] /\
  claims_true term_ops (mk_ctx term_ops ls_ex) [8] [Atom 1] = true.
Proof. vm_compute. split; reflexivity. Qed.

Example ex_false_claim :
  claims_true term_ops (mk_ctx term_ops ls_ex) [0] [Atom 1] = false /\
  Verify term_ops true (the_stump (mk_ctx term_ops ls_ex))
         [Atom 1] [0] [Node (Atom 3) (Atom 4)] = Err.
Proof. vm_compute. split; reflexivity. Qed.

(** the rejection corollary applied: whatever the proof hashes, that claim is not accepted *)
Example ex_false_claim_never_accepted pf idx :
  Verify term_ops true (the_stump (mk_ctx term_ops ls_ex)) [Atom 1] [0] pf <> Ok idx.
Proof.
  apply (C03_reject_holds ls_ex [Atom 1] [0] pf idx ls_ex_atoms ls_ex_bound).
  vm_compute. reflexivity.
Qed.

Print Assumptions gpos_surj.
Print Assumptions V_step.
Print Assumptions strict_match_all.
Print Assumptions verify_sound.
Print Assumptions pollard_verify_sound.
Print Assumptions C03_sound_holds.
Print Assumptions C03_pollard_sound_holds.
Print Assumptions C03_sound_nodes_holds.
Print Assumptions C03_sound_coords.
Print Assumptions C03_reject_holds.
Print Assumptions C03_reject_claim.
Print Assumptions C03_pollard_reject.
Print Assumptions ex_honest_by_theorem.
Print Assumptions ex_false_claim_never_accepted.
