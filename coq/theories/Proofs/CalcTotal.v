(** Totality of the verifier core [calculateHashes] (mirror [Model.Verify], repaired form
    [strict = true]): with the fuel [calc_fuel] the main loop never reports [OutOfFuel], the
    inner row loop (fuel 300) never runs dry, and the verification entry points never report
    [Panic] - for arbitrary untrusted inputs.

    Measure.  [mp r] is the maximal position of row [r].  A queued parent [q] waiting in the
    second queue while the row cursor is [c] has the weight
    [g c q = 1 + #{ r | c <= r <= total /\ q <= mp r }], a target has the weight [total + 2].
    A continuing iteration pops at least one element and appends at most the parent of the
    popped position [p]; the strictly-increasing check on [c_prev] gives
    [mp (row - 1) < p <= mp row], from which [mp row < Parent p total]: the parent has lost the
    row [row] from its count, so its weight is smaller than the weight of [p].
    The sum of the weights decreases in every continuing iteration, it starts at
    [k * (total + 2)], the fuel is [(k + 1) * (total + 3)]. *)
From Utreexo Require Import Model.Verify Proofs.UtilsGeom Spec.Term.
From Coq Require Import Lia ZifyN ZifyNat ZifyBool.
Open Scope N_scope.

(** * 1. Arithmetic helpers (self-contained; prefixed [ct_]) *)

Lemma ct_pow2_nz n : 2 ^ n <> 0.
Proof. apply N.pow_nonzero; lia. Qed.

Lemma ct_pow2_sub_split a b : b <= a -> 2 ^ a = 2 ^ (a - b) * 2 ^ b.
Proof. intros Hba. rewrite <- N.pow_add_r. f_equal. lia. Qed.

Lemma ct_mod_add_small a b q : a < b -> (a + q * b) mod b = a.
Proof. intros Hab. rewrite N.mod_add by lia. apply N.mod_small; assumption. Qed.

Lemma ct_mod_mod_pow2 x a b : b <= a -> (x mod 2 ^ a) mod 2 ^ b = x mod 2 ^ b.
Proof.
  intros Hba. rewrite (ct_pow2_sub_split a b Hba), (N.mul_comm (2 ^ (a - b))).
  rewrite N.mod_mul_r by apply ct_pow2_nz.
  rewrite (N.mul_comm (2 ^ b)), N.mod_add by apply ct_pow2_nz.
  apply N.mod_mod, ct_pow2_nz.
Qed.

Lemma ct_wrap_mod_pow2 x k : k <= 64 -> (wrap x) mod 2 ^ k = x mod 2 ^ k.
Proof. intros Hk. rewrite wrap_mod. rewrite W_eq. apply ct_mod_mod_pow2; assumption. Qed.

Lemma ct_land_mask x h : h <= 63 -> and64 x (mask h) = x mod 2 ^ (h + 1).
Proof. intros Hh. unfold and64. rewrite mask_spec by assumption. apply land_ones_mod. Qed.

Lemma ct_shl_mod x s : s < 64 -> shl x s = (x * 2 ^ s) mod W.
Proof.
  intros Hs. unfold shl. destruct (N.leb_spec 64 s) as [Hge|Hlt]; [lia|].
  rewrite N.shiftl_mul_pow2. apply wrap_mod.
Qed.

Lemma ct_shl_land_mask x s h : s < 64 -> h <= 63 ->
  and64 (shl x s) (mask h) = (x * 2 ^ s) mod 2 ^ (h + 1).
Proof.
  intros Hs Hh. rewrite ct_land_mask by assumption. rewrite ct_shl_mod by assumption.
  rewrite <- wrap_mod. apply ct_wrap_mod_pow2. lia.
Qed.

Lemma ct_testbit_small x n i : x < 2 ^ n -> n <= i -> N.testbit x i = false.
Proof.
  intros Hx Hi. destruct (N.eq_dec x 0) as [->|Hx0]; [apply N.bits_0|].
  apply N.bits_above_log2. assert (Hl : N.log2 x < n) by (apply N.log2_lt_pow2; lia). lia.
Qed.

Lemma ct_land_shiftl_small x m s : x < 2 ^ s -> N.land x (N.shiftl m s) = 0.
Proof.
  intros Hx. apply N.bits_inj_0. intros i. rewrite N.land_spec.
  destruct (N.lt_ge_cases i s) as [Hi|Hi].
  - rewrite N.shiftl_spec_low by assumption. apply Bool.andb_false_r.
  - rewrite (ct_testbit_small x s i Hx Hi). reflexivity.
Qed.

Lemma ct_lor_shiftl_add x m s : x < 2 ^ s -> N.lor x (N.shiftl m s) = x + m * 2 ^ s.
Proof.
  intros Hx. pose proof (ct_land_shiftl_small x m s Hx) as Hl.
  rewrite <- N.shiftl_mul_pow2.
  rewrite (N.add_nocarry_lxor _ _ Hl). symmetry. apply N.lxor_lor, Hl.
Qed.

Lemma ct_gstart_shiftl h r : r <= h -> gstart h r = N.shiftl (N.ones r) (h + 1 - r).
Proof.
  intros Hr. rewrite N.shiftl_mul_pow2, N.ones_equiv. unfold gstart.
  rewrite (ct_pow2_sub_split (h + 1) (h + 1 - r)) by lia.
  replace (h + 1 - (h + 1 - r)) with r by lia.
  pose proof (pow2_pos r) as Hpr. nia.
Qed.

Lemma ct_add8_small a b : a + b < 256 -> add8 a b = a + b.
Proof. intros Hab. unfold add8, u8. apply N.mod_small; assumption. Qed.

Lemma ct_sub8_small a b : b <= a -> a < 256 -> sub8 a b = a - b.
Proof.
  intros Hba Ha. unfold sub8, u8. replace (a + 256 - b) with (a - b + 1 * 256) by lia.
  apply ct_mod_add_small. lia.
Qed.

Lemma ct_shl_mask_land h s : h <= 63 -> s <= h + 1 ->
  and64 (shl (mask h) s) (mask h) = 2 ^ (h + 1) - 2 ^ s.
Proof.
  intros Hh Hs. destruct (N.lt_ge_cases s 64) as [Hs64|Hs64].
  - rewrite ct_shl_land_mask by assumption. rewrite mask_spec by assumption.
    pose proof (pow2_le s (h + 1) Hs) as Hle. pose proof (pow2_pos s) as Hp.
    set (P := 2 ^ (h + 1)) in *. set (Q := 2 ^ s) in *.
    replace ((P - 1) * Q) with (P - Q + (Q - 1) * P) by nia.
    apply ct_mod_add_small. lia.
  - assert (Es : s = 64) by lia. assert (Eh : h = 63) by lia. subst s h. reflexivity.
Qed.

(** [ParentMany] on any in-range value: shift out [k] bits and put [k] ones on top. *)
Lemma ct_ParentMany_arith p k h : h <= 63 -> 1 <= k -> k <= h -> p < 2 ^ (h + 1) ->
  ParentMany p k h = Some (p / 2 ^ k + gstart h k).
Proof.
  intros Hh Hk1 Hk Hp. unfold ParentMany.
  destruct (N.eqb_spec k 0) as [H0|_]; [lia|].
  destruct (N.ltb_spec h k) as [H0|_]; [lia|].
  f_equal. rewrite (ct_sub8_small k 1) by lia. rewrite ct_sub8_small by lia.
  unfold and64, or64. rewrite N.land_lor_distr_l.
  fold (and64 (shl (mask h) (h - (k - 1))) (mask h)).
  rewrite ct_shl_mask_land by lia.
  fold (and64 (shr p k) (mask h)). rewrite ct_land_mask by assumption.
  unfold shr. rewrite N.shiftr_div_pow2.
  assert (Hq : p / 2 ^ k < 2 ^ (h + 1 - k)).
  { apply N.div_lt_upper_bound; [apply ct_pow2_nz|]. rewrite <- N.pow_add_r.
    replace (k + (h + 1 - k)) with (h + 1) by lia. assumption. }
  assert (Hle : 2 ^ (h + 1 - k) <= 2 ^ (h + 1)) by (apply pow2_le; lia).
  rewrite N.mod_small by lia.
  replace (h - (k - 1)) with (h + 1 - k) by lia.
  fold (gstart h k). rewrite ct_gstart_shiftl by assumption.
  rewrite ct_lor_shiftl_add by assumption. rewrite N.shiftl_mul_pow2. reflexivity.
Qed.

(** * 2. [TreeRows] *)

Lemma ct_TreeRows_upper n : n <= 2 ^ TreeRows n.
Proof.
  unfold TreeRows, len64. destruct (N.eqb_spec n 0) as [->|Hn]; [cbn; lia|].
  pose proof (N.size_gt (n - 1)) as Hgt. lia.
Qed.

Lemma ct_TreeRows_le n h : n <= 2 ^ h -> TreeRows n <= h.
Proof.
  intros Hn. unfold TreeRows, len64. destruct (N.eqb_spec n 0) as [->|Hn0]; [lia|].
  destruct (N.eq_dec (n - 1) 0) as [E|E]; [rewrite E; cbn; lia|].
  rewrite N.size_log2 by assumption.
  assert (Hl : N.log2 (n - 1) < h) by (apply N.log2_lt_pow2; lia). lia.
Qed.

Lemma ct_TreeRows_le_63 n : n <= 2 ^ 63 -> TreeRows n <= 63.
Proof. apply ct_TreeRows_le. Qed.

(** * 3. The maximal position of a row and the parent of a position *)

(** the value whose predecessor is the maximal position of row [r] *)
Lemma ct_maxpos_val n t r : t <= 63 -> n <= 2 ^ t -> r <= t ->
  ParentMany n r t = Some (n / 2 ^ r + gstart t r).
Proof.
  intros Ht Hn Hr. destruct (N.eq_dec r 0) as [->|Hr0].
  - unfold ParentMany. cbn [N.eqb]. unfold gstart. rewrite N.sub_0_r, N.sub_diag.
    rewrite N.pow_0_r, N.div_1_r, N.add_0_r. reflexivity.
  - apply ct_ParentMany_arith; try assumption; try lia.
    pose proof (pow2_lt t (t + 1) ltac:(lia)) as Hlt. lia.
Qed.

Definition mpos (n t r : N) : N := fst (maxPositionAtRow r t n).

Lemma ct_mpos_eq n t r : t <= 63 -> n <= 2 ^ t -> r <= t ->
  mpos n t r = (n / 2 ^ r + gstart t r) - 1.
Proof.
  intros Ht Hn Hr. unfold mpos, maxPositionAtRow. rewrite ct_maxpos_val by assumption.
  cbn [fst]. destruct (N.eqb_spec (n / 2 ^ r + gstart t r) 0) as [E|E]; [rewrite E|]; reflexivity.
Qed.

Lemma ct_le_lor_r a b : b <= N.lor a b.
Proof.
  assert (E1 : N.lor a b = N.lor (N.ldiff a b) b).
  { apply N.bits_inj. intros i. rewrite !N.lor_spec, N.ldiff_spec.
    destruct (N.testbit a i), (N.testbit b i); reflexivity. }
  assert (E0 : N.land (N.ldiff a b) b = 0).
  { apply N.bits_inj_0. intros i. rewrite N.land_spec, N.ldiff_spec.
    destruct (N.testbit a i), (N.testbit b i); reflexivity. }
  rewrite E1, <- (N.lxor_lor _ _ E0), <- (N.add_nocarry_lxor _ _ E0). lia.
Qed.

Lemma ct_le_lor_l a b : a <= N.lor a b.
Proof. rewrite N.lor_comm. apply ct_le_lor_r. Qed.

Lemma ct_parent_arith P A q p : 0 < A -> A <= P -> q <= 2 * A ->
  q + (2 * P - 2 * A) - 1 < p -> p <= q / 2 + (2 * P - A) - 1 ->
  p / 2 < P /\ q / 2 + (2 * P - A) - 1 < p / 2 + P.
Proof.
  intros HA HAP Hq Hlow Hup.
  pose proof (N.div_mod q 2 ltac:(lia)) as Eq. pose proof (N.mod_lt q 2 ltac:(lia)) as Lq.
  pose proof (N.div_mod p 2 ltac:(lia)) as Ep. pose proof (N.mod_lt p 2 ltac:(lia)) as Lp.
  set (q2 := q / 2) in *. set (qr := q mod 2) in *.
  set (p2 := p / 2) in *. set (pr := p mod 2) in *.
  clearbody q2 qr p2 pr. lia.
Qed.

Lemma ct_gstart_split t r : 1 <= r -> r <= t ->
  exists A, 0 < A /\ A <= 2 ^ t /\ 2 ^ (t - (r - 1)) = A /\
            gstart t r = 2 * 2 ^ t - A /\ gstart t (r - 1) = 2 * 2 ^ t - 2 * A.
Proof.
  intros Hr1 Hr. exists (2 ^ (t + 1 - r)). unfold gstart.
  rewrite (pow2_S t).
  replace (t + 1 - (r - 1)) with (t + 1 - r + 1) by lia.
  replace (t - (r - 1)) with (t + 1 - r) by lia.
  rewrite (pow2_S (t + 1 - r)).
  split; [apply pow2_pos|]. split; [apply pow2_le; lia|]. repeat split; reflexivity.
Qed.

Lemma ct_div_pow2_S n r : 1 <= r -> n / 2 ^ r = n / 2 ^ (r - 1) / 2.
Proof.
  intros Hr. replace r with (r - 1 + 1) at 1 by lia. rewrite pow2_S, N.mul_comm.
  symmetry. apply N.div_div; [apply ct_pow2_nz|lia].
Qed.

Lemma ct_div_pow2_le n t k : n <= 2 ^ t -> k <= t -> n / 2 ^ k <= 2 ^ (t - k).
Proof.
  intros Hn Hk. apply N.div_le_upper_bound; [apply ct_pow2_nz|].
  rewrite <- N.pow_add_r. replace (k + (t - k)) with t by lia. assumption.
Qed.

(** The geometric heart of the termination argument: a position that lies above row [r - 1] and
    within row [r] has its parent above row [r]. *)
Lemma ct_parent_above n t r p : t <= 63 -> n <= 2 ^ t -> r <= t ->
  (r = 0 \/ mpos n t (r - 1) < p) -> p <= mpos n t r ->
  mpos n t r < Parent p t.
Proof.
  intros Ht Hn Hr Hlow Hup.
  rewrite (ct_mpos_eq n t r) in * by assumption.
  unfold Parent, or64, shr. rewrite shl_1 by assumption.
  destruct (N.eq_dec r 0) as [->|Hr0].
  - pose proof (ct_le_lor_r (N.shiftr p 1) (2 ^ t)) as Hge.
    unfold gstart in *. rewrite N.sub_0_r, N.sub_diag, N.pow_0_r, N.div_1_r in *.
    pose proof (pow2_pos t) as Hpos. clear Hlow Hr Ht. lia.
  - destruct Hlow as [Hlow|Hlow]; [lia|].
    assert (Hr1 : 1 <= r) by lia. assert (Hr' : r - 1 <= t) by lia.
    rewrite (ct_mpos_eq n t (r - 1)) in Hlow by assumption.
    rewrite N.shiftr_div_pow2, N.pow_1_r.
    destruct (ct_gstart_split t r Hr1 Hr) as (A & HA0 & HAP & E2A & Eg & Eg').
    pose proof (ct_div_pow2_le n t (r - 1) Hn Hr') as Hq0. rewrite E2A in Hq0.
    assert (Hq : n / 2 ^ (r - 1) <= 2 * A) by (clear - Hq0; lia).
    rewrite (ct_div_pow2_S n r Hr1) in *. rewrite Eg in *. rewrite Eg' in Hlow.
    destruct (ct_parent_arith (2 ^ t) A (n / 2 ^ (r - 1)) p HA0 HAP Hq Hlow Hup) as [Hp1 Hgoal].
    rewrite (lor_pow2_add _ _ Hp1). exact Hgoal.
Qed.

Lemma ct_parent_ge n t r p : t <= 63 -> n <= 2 ^ t -> r <= t ->
  (r = 0 \/ mpos n t (r - 1) < p) -> p <= mpos n t r -> p <= Parent p t.
Proof.
  intros Ht Hn Hr Hlow Hup. pose proof (ct_parent_above n t r p Ht Hn Hr Hlow Hup) as Hab. lia.
Qed.

(** * 4. List helpers *)

Lemma ct_filter_length_le {A} (f g : A -> bool) l :
  (forall x, In x l -> f x = true -> g x = true) ->
  (length (filter f l) <= length (filter g l))%nat.
Proof.
  induction l as [|a l IH]; intros Himp; [apply le_n|].
  assert (IH' : (length (filter f l) <= length (filter g l))%nat).
  { apply IH. intros x Hx. apply Himp. right. exact Hx. }
  pose proof (Himp a (or_introl eq_refl)) as Ha.
  cbn [filter]. destruct (f a); [rewrite (Ha eq_refl)|destruct (g a)]; cbn [length]; lia.
Qed.

Lemma ct_filter_length_lt {A} (f g : A -> bool) l a :
  (forall x, In x l -> f x = true -> g x = true) ->
  In a l -> f a = false -> g a = true ->
  (length (filter f l) < length (filter g l))%nat.
Proof.
  induction l as [|b l IH]; intros Himp Hin Hfa Hga; [destruct Hin|].
  assert (Hle : (length (filter f l) <= length (filter g l))%nat).
  { apply ct_filter_length_le. intros x Hx. apply Himp. right. exact Hx. }
  pose proof (Himp b (or_introl eq_refl)) as Hb.
  cbn [filter]. destruct Hin as [->|Hin].
  - rewrite Hfa, Hga. cbn [length]. lia.
  - assert (IH' : (length (filter f l) < length (filter g l))%nat).
    { apply IH; try assumption. intros x Hx. apply Himp. right. exact Hx. }
    destruct (f b); [rewrite (Hb eq_refl)|destruct (g b)]; cbn [length]; lia.
Qed.

Lemma ct_filter_length {A} (f : A -> bool) l : (length (filter f l) <= length l)%nat.
Proof.
  induction l as [|a l IH]; [apply le_n|]. cbn [filter]. destruct (f a); cbn [length]; lia.
Qed.

Lemma ct_insertK_length {A} (x : N * A) l : length (insertK x l) = S (length l).
Proof.
  induction l as [|y l IH]; [reflexivity|]. cbn [insertK].
  destruct (fst x <=? fst y); cbn [length]; [reflexivity|]. rewrite IH. reflexivity.
Qed.

Lemma ct_sortK_length {A} (l : list (N * A)) : length (sortK l) = length l.
Proof.
  induction l as [|x l IH]; [reflexivity|]. unfold sortK in *. cbn [fold_right].
  rewrite ct_insertK_length, IH. reflexivity.
Qed.

(** * 5. One iteration of the main loop as a step function *)

Section Step.
  Variable H : Type.
  Variable HO : ops H.
  Variables n total : N.

  Inductive step_res := Done (o : outcome (calc_result H)) | Cont (st : cstate H).

  (** [getNextPos]: the smaller head of the two queues *)
  Definition pop (tp np : list (hp H)) : option (N * H * list (hp H) * list (hp H)) :=
    match tp, np with
    | x :: t, y :: u =>
        if fst x <? fst y then Some (fst x, snd x, t, np) else Some (fst y, snd y, tp, u)
    | x :: t, [] => Some (fst x, snd x, t, [])
    | [], y :: u => Some (fst y, snd y, [], u)
    | [], [] => None
    end.

  Definition pop_sib (p : N) (tp np : list (hp H)) : option (H * list (hp H) * list (hp H)) :=
    match pop tp np with
    | Some (q, h, tp', np') => if rightSib p =? q then Some (h, tp', np') else None
    | None => None
    end.

  Definition calc_step (st : cstate H) (tp_all : list (hp H)) : step_res :=
    let finish := Ok (mergeSortedHashAndPos (c_all st) tp_all, c_roots st, c_rows st) in
    if total <? c_row st then Done finish
    else
      match pop (c_tp st) (c_np st) with
      | None => Done finish
      | Some (p, h, tp1, np1) =>
          if (match c_prev st with Some q => p <=? q | None => false end) then Done Err
          else
            match row_loop true 300 p (c_row st) total n with
            | None => Done OutOfFuel
            | Some None => Done Err
            | Some (Some row) =>
                if isRootPositionOnRow p n row then
                  Cont (mkC row tp1 np1 (c_all st) (c_proof st) (Some p)
                            (c_roots st ++ [h]) (c_rows st ++ [row]))
                else
                  let par := Parent p total in
                  match pop_sib p tp1 np1 with
                  | Some (sh, tp2, np2) =>
                      if negb (isLeftNiece p) then Done Err
                      else
                        let e := (par, getNextHash HO p h sh) in
                        Cont (mkC row tp2 (np2 ++ [e]) (c_all st ++ [e]) (c_proof st)
                                  (Some (rightSib p)) (c_roots st) (c_rows st))
                  | None =>
                      match c_proof st with
                      | [] => Done Err
                      | ph :: prest =>
                          let e := (par, getNextHash HO p h ph) in
                          Cont (mkC row tp1 (np1 ++ [e]) (c_all st ++ [e]) prest
                                    (Some p) (c_roots st) (c_rows st))
                      end
                  end
            end
      end.

  Definition step_k (f : nat) (tp_all : list (hp H)) (r : step_res) : outcome (calc_result H) :=
    match r with
    | Done o => o
    | Cont st' => calc_loop HO true f n total st' tp_all
    end.

  Ltac ct_crush :=
    repeat (unfold pop_sib, pop;
      cbn [step_k nextLeast fst snd N.eqb Pos.eqb negb andb];
      match goal with
      | |- ?x = ?x => reflexivity
      | |- context [match ?l with [] => _ | _ :: _ => _ end] =>
          is_var l; first [destruct l as [|[? ?] ?]|destruct l as [|? ?]]
      | |- context [?a <? ?b] => destruct (a <? b)
      | |- context [rightSib ?p =? ?q] => destruct (rightSib p =? q)
      | |- context [isLeftNiece ?p] => destruct (isLeftNiece p)
      | |- context [match row_loop ?a ?b ?c ?d ?e ?f with _ => _ end] =>
          destruct (row_loop a b c d e f) as [[?|]|]
      | |- context [if ?b then _ else _] => destruct b
      end).

  (** the loop of [Model.Verify] is the iteration of [calc_step] *)
  Lemma calc_loop_S f st tp_all :
    calc_loop HO true (S f) n total st tp_all = step_k f tp_all (calc_step st tp_all).
  Proof.
    destruct st as [row tp np all pf prev roots rows].
    unfold calc_step.
    cbn [calc_loop c_row c_tp c_np c_all c_proof c_prev c_roots c_rows andb].
    destruct (total <? row); [reflexivity|].
    destruct tp as [|[a ha] tp]; destruct np as [|[b hb] np];
      cbn [pop nextLeast fst snd N.eqb Pos.eqb].
    - reflexivity.
    - ct_crush.
    - ct_crush.
    - ct_crush.
  Qed.

  (** ** What a step pops *)

  Lemma pop_spec tp np p h tp1 np1 : pop tp np = Some (p, h, tp1, np1) ->
    (tp = (p, h) :: tp1 /\ np1 = np) \/ (np = (p, h) :: np1 /\ tp1 = tp).
  Proof.
    unfold pop. intros E.
    destruct tp as [|[a ha] tp]; destruct np as [|[b hb] np]; cbn [fst snd] in E.
    - discriminate.
    - injection E as <- <- <- <-. right. split; reflexivity.
    - injection E as <- <- <- <-. left. split; reflexivity.
    - destruct (a <? b); injection E as <- <- <- <-; [left|right]; split; reflexivity.
  Qed.

  Lemma pop_sib_spec p tp np sh tp2 np2 : pop_sib p tp np = Some (sh, tp2, np2) ->
    exists q, pop tp np = Some (q, sh, tp2, np2).
  Proof.
    unfold pop_sib. destruct (pop tp np) as [[[[q h] tp'] np']|]; [|discriminate].
    destruct (rightSib p =? q); [|discriminate].
    intros E. injection E as <- <- <-. exists q. reflexivity.
  Qed.

  (** ** No step reports [Panic] (no hypothesis on [n], [total]) *)

  Lemma calc_step_no_panic st tp_all :
    match calc_step st tp_all with Done o => o <> Panic | Cont _ => True end.
  Proof.
    unfold calc_step. cbv zeta.
    destruct (total <? c_row st); [discriminate|].
    destruct (pop (c_tp st) (c_np st)) as [[[[p h] tp1] np1]|]; [|discriminate].
    destruct (match c_prev st with Some q => p <=? q | None => false end); [discriminate|].
    destruct (row_loop true 300 p (c_row st) total n) as [[row|]|]; try discriminate.
    destruct (isRootPositionOnRow p n row); [exact I|].
    destruct (pop_sib p tp1 np1) as [[[sh tp2] np2]|].
    - destruct (negb (isLeftNiece p)); [discriminate|exact I].
    - destruct (c_proof st); [discriminate|exact I].
  Qed.

  Lemma calc_loop_no_panic tp_all : forall fuel st,
    calc_loop HO true fuel n total st tp_all <> Panic.
  Proof.
    induction fuel as [|f IH]; intros st; [cbn [calc_loop]; discriminate|].
    rewrite calc_loop_S. pose proof (calc_step_no_panic st tp_all) as Hs.
    destruct (calc_step st tp_all) as [o|st']; cbn [step_k]; [exact Hs|apply IH].
  Qed.

  (** ** The instrumented loop: the outcome and the number of iterations that were run *)

  Fixpoint calc_loop_i (fuel : nat) (st : cstate H) (tp_all : list (hp H))
    : outcome (calc_result H) * nat :=
    match fuel with
    | O => (OutOfFuel, O)
    | S f =>
        match calc_step st tp_all with
        | Done o => (o, 1%nat)
        | Cont st' => let '(o, k) := calc_loop_i f st' tp_all in (o, S k)
        end
    end.

  Lemma calc_loop_i_fst tp_all : forall fuel st,
    fst (calc_loop_i fuel st tp_all) = calc_loop HO true fuel n total st tp_all.
  Proof.
    induction fuel as [|f IH]; intros st; [reflexivity|].
    rewrite calc_loop_S. cbn [calc_loop_i].
    destruct (calc_step st tp_all) as [o|st']; cbn [step_k]; [reflexivity|].
    rewrite <- IH. destruct (calc_loop_i f st' tp_all) as [o k]. reflexivity.
  Qed.

  (** ** Geometry hypotheses: [total] is a height that holds [n] leaves *)

  Hypothesis Htot : total <= 63.
  Hypothesis Hn : n <= 2 ^ total.

  Local Notation T := (N.to_nat total).
  Local Notation mp := (mpos n total).

  (** the inner loop never runs dry: it stops within [total - c + 1] iterations *)
  Lemma row_loop_spec p : forall fuel c, c <= total -> (N.to_nat (total - c) < fuel)%nat ->
    row_loop true fuel p c total n = Some None \/
    exists r, row_loop true fuel p c total n = Some (Some r) /\ c <= r /\ r <= total /\
              p <= mp r /\ (forall r', c <= r' -> r' < r -> mp r' < p).
  Proof.
    induction fuel as [|f IH]; intros c Hc Hf; [lia|].
    cbn [row_loop]. change (fst (maxPositionAtRow c total n)) with (mp c).
    destruct (N.ltb_spec (mp c) p) as [Hlt|Hge].
    - rewrite ct_add8_small by lia. cbn [andb].
      destruct (N.ltb_spec total (c + 1)) as [Hend|Hmore]; [left; reflexivity|].
      destruct (IH (c + 1) Hmore ltac:(lia)) as [E|(r & E & Hcr & Hrt & Hpr & Hbelow)];
        [left; exact E|right].
      exists r. split; [exact E|]. split; [lia|]. split; [exact Hrt|]. split; [exact Hpr|].
      intros r' Hr1 Hr2. destruct (N.eq_dec r' c) as [->|Hne]; [exact Hlt|].
      apply Hbelow; lia.
    - right. exists c. split; [reflexivity|]. split; [lia|]. split; [exact Hc|].
      split; [exact Hge|]. intros r' Hr1 Hr2. lia.
  Qed.

  (** ** The measure *)

  Definition allrows : list N := map N.of_nat (seq 0 (S T)).

  Lemma in_allrows r : In r allrows <-> r <= total.
  Proof.
    unfold allrows. rewrite in_map_iff. split.
    - intros (x & <- & Hx). apply in_seq in Hx. lia.
    - intros Hr. exists (N.to_nat r). split; [lia|]. apply in_seq. lia.
  Qed.

  Lemma allrows_length : length allrows = S T.
  Proof. unfold allrows. rewrite map_length, seq_length. reflexivity. Qed.

  (** weight of a queued parent [q] while the cursor is on row [c] *)
  Definition gw (c q : N) : nat :=
    S (length (filter (fun r => (c <=? r) && (q <=? mp r)) allrows)).

  Lemma gw_pos c q : (1 <= gw c q)%nat.
  Proof. unfold gw. lia. Qed.

  Lemma gw_le c q : (gw c q <= T + 2)%nat.
  Proof.
    unfold gw. pose proof (ct_filter_length (fun r => (c <=? r) && (q <=? mp r)) allrows) as Hl.
    rewrite allrows_length in Hl. lia.
  Qed.

  Lemma gw_mono c c' q q' : c <= c' -> q <= q' -> (gw c' q' <= gw c q)%nat.
  Proof.
    intros Hc Hq. unfold gw. apply le_n_S, ct_filter_length_le. intros x _ Hx.
    apply andb_true_iff in Hx. destruct Hx as [H1 H2].
    apply N.leb_le in H1. apply N.leb_le in H2.
    apply andb_true_iff. split; apply N.leb_le; lia.
  Qed.

  Lemma gw_drop c r p e : c <= r -> r <= total -> p <= mp r -> mp r < e ->
    (gw r e < gw c p)%nat.
  Proof.
    intros Hc Hr Hp He. unfold gw.
    enough (Hlt : (length (filter (fun x => (r <=? x) && (e <=? mp x)) allrows)
                   < length (filter (fun x => (c <=? x) && (p <=? mp x)) allrows))%nat) by lia.
    apply (ct_filter_length_lt _ _ allrows r).
    - intros x _ Hx. apply andb_true_iff in Hx. destruct Hx as [H1 H2].
      apply N.leb_le in H1. apply N.leb_le in H2.
      apply andb_true_iff. split; apply N.leb_le; lia.
    - apply in_allrows. exact Hr.
    - apply andb_false_iff. right. apply N.leb_gt. exact He.
    - apply andb_true_iff. split; apply N.leb_le; [exact Hc|exact Hp].
  Qed.

  Fixpoint sumg (c : N) (np : list (hp H)) : nat :=
    match np with
    | [] => O
    | e :: t => (gw c (fst e) + sumg c t)%nat
    end.

  Lemma sumg_app c a b : sumg c (a ++ b) = (sumg c a + sumg c b)%nat.
  Proof.
    induction a as [|e a IH]; [reflexivity|]. cbn [app sumg]. rewrite IH. lia.
  Qed.

  Lemma sumg_mono c r np : c <= r -> (sumg r np <= sumg c np)%nat.
  Proof.
    intros Hc. induction np as [|e np IH]; [apply le_n|].
    cbn [sumg]. pose proof (gw_mono c r (fst e) (fst e) Hc ltac:(lia)) as Hg. lia.
  Qed.

  (** a target weighs [total + 2], a queued parent weighs [gw] *)
  Definition mu (c : N) (tp np : list (hp H)) : nat :=
    (length tp * (T + 2) + sumg c np)%nat.

  Lemma mu_mono c r tp np : c <= r -> (mu r tp np <= mu c tp np)%nat.
  Proof. intros Hc. unfold mu. pose proof (sumg_mono c r np Hc) as Hs. lia. Qed.

  Lemma mu_app c tp np e : mu c tp (np ++ [e]) = (mu c tp np + gw c (fst e))%nat.
  Proof. unfold mu. rewrite sumg_app. cbn [sumg]. lia. Qed.

  Lemma pop_mu c tp np p h tp1 np1 : pop tp np = Some (p, h, tp1, np1) ->
    (mu c tp1 np1 + gw c p <= mu c tp np)%nat.
  Proof.
    intros E. destruct (pop_spec _ _ _ _ _ _ E) as [[-> ->]|[-> ->]]; unfold mu.
    - cbn [length Nat.mul]. pose proof (gw_le c p) as Hg. lia.
    - cbn [sumg fst]. lia.
  Qed.

  Lemma pop_sib_mu c p tp np sh tp2 np2 : pop_sib p tp np = Some (sh, tp2, np2) ->
    (mu c tp2 np2 <= mu c tp np)%nat.
  Proof.
    intros E. destruct (pop_sib_spec _ _ _ _ _ _ E) as [q Eq].
    pose proof (pop_mu c _ _ _ _ _ _ Eq) as Hm. lia.
  Qed.

  (** the cursor row was reached by a position that lies above the previous row *)
  Definition Inv (st : cstate H) : Prop :=
    c_row st = 0 \/ exists q, c_prev st = Some q /\ mp (c_row st - 1) < q.

  Definition mu_st (st : cstate H) : nat := mu (c_row st) (c_tp st) (c_np st).

  Lemma calc_step_spec st tp_all : Inv st ->
    match calc_step st tp_all with
    | Done o => o <> OutOfFuel
    | Cont st' => Inv st' /\ (mu_st st' < mu_st st)%nat
    end.
  Proof.
    intros HI. unfold calc_step. cbv zeta.
    destruct (N.ltb_spec total (c_row st)) as [Hgt|Hc]; [discriminate|].
    destruct (pop (c_tp st) (c_np st)) as [[[[p h] tp1] np1]|] eqn:Epop; [|discriminate].
    destruct (match c_prev st with Some q => p <=? q | None => false end) eqn:Echk;
      [discriminate|].
    assert (Hlow0 : c_row st = 0 \/ mp (c_row st - 1) < p).
    { destruct HI as [E|(q & Eq & Hq)]; [left; exact E|right].
      rewrite Eq in Echk. apply N.leb_gt in Echk. lia. }
    destruct (row_loop_spec p 300 (c_row st) Hc ltac:(lia))
      as [E|(r & E & Hcr & Hrt & Hpr & Hbelow)]; rewrite E; [discriminate|].
    assert (Hlow : r = 0 \/ mp (r - 1) < p).
    { destruct (N.eq_dec r (c_row st)) as [->|Hne]; [exact Hlow0|].
      right. apply Hbelow; lia. }
    pose proof (ct_parent_above n total r p Htot Hn Hrt Hlow Hpr) as Hpar.
    pose proof (pop_mu (c_row st) _ _ _ _ _ _ Epop) as Hmu.
    pose proof (mu_mono (c_row st) r tp1 np1 Hcr) as Hmono.
    pose proof (gw_drop (c_row st) r p (Parent p total) Hcr Hrt Hpr Hpar) as Hdrop.
    pose proof (gw_pos (c_row st) p) as Hpos.
    assert (HinvP : forall q', p <= q' -> r = 0 \/ mp (r - 1) < q').
    { intros q' Hq'. destruct Hlow as [E0|Hl]; [left; exact E0|right; lia]. }
    destruct (isRootPositionOnRow p n r).
    - split.
      + unfold Inv. cbn [c_row c_prev].
        destruct (HinvP p ltac:(lia)) as [E0|Hl]; [left; exact E0|right].
        exists p. split; [reflexivity|exact Hl].
      + unfold mu_st. cbn [c_row c_tp c_np]. fold (mu_st st) in *.
        unfold mu_st in *. lia.
    - destruct (pop_sib p tp1 np1) as [[[sh tp2] np2]|] eqn:Esib.
      + destruct (negb (isLeftNiece p)); [discriminate|]. split.
        * unfold Inv. cbn [c_row c_prev].
          assert (Hrs : p <= rightSib p) by (unfold rightSib, or64; apply ct_le_lor_l).
          destruct (HinvP (rightSib p) Hrs) as [E0|Hl]; [left; exact E0|right].
          exists (rightSib p). split; [reflexivity|exact Hl].
        * unfold mu_st. cbn [c_row c_tp c_np]. rewrite mu_app. cbn [fst].
          pose proof (pop_sib_mu r _ _ _ _ _ _ Esib) as Hsib. unfold mu_st in *. lia.
      + destruct (c_proof st) as [|ph prest]; [discriminate|]. split.
        * unfold Inv. cbn [c_row c_prev].
          destruct (HinvP p ltac:(lia)) as [E0|Hl]; [left; exact E0|right].
          exists p. split; [reflexivity|exact Hl].
        * unfold mu_st. cbn [c_row c_tp c_np]. rewrite mu_app. cbn [fst].
          unfold mu_st in *. lia.
  Qed.

  (** the main loop does not run out of fuel when the fuel exceeds the measure *)
  Lemma calc_loop_fuel tp_all : forall fuel st, Inv st -> (mu_st st < fuel)%nat ->
    calc_loop HO true fuel n total st tp_all <> OutOfFuel.
  Proof.
    induction fuel as [|f IH]; intros st HI Hf; [lia|].
    rewrite calc_loop_S. pose proof (calc_step_spec st tp_all HI) as Hs.
    destruct (calc_step st tp_all) as [o|st']; cbn [step_k]; [exact Hs|].
    destruct Hs as [HI' Hmu]. apply IH; [exact HI'|lia].
  Qed.

  (** whatever the fuel, the number of iterations is bounded by the measure *)
  Lemma calc_loop_i_bound tp_all : forall fuel st, Inv st ->
    (snd (calc_loop_i fuel st tp_all) <= S (mu_st st))%nat.
  Proof.
    induction fuel as [|f IH]; intros st HI; [cbn [calc_loop_i snd]; lia|].
    cbn [calc_loop_i]. pose proof (calc_step_spec st tp_all HI) as Hs.
    destruct (calc_step st tp_all) as [o|st']; [cbn [snd]; lia|].
    destruct Hs as [HI' Hmu]. pose proof (IH st' HI') as Hb.
    destruct (calc_loop_i f st' tp_all) as [o k]. cbn [snd] in *. lia.
  Qed.
End Step.

(** * 6. T1: [calculateHashes] never runs out of fuel *)

Lemma ct_zip_hp_length {H} (ts : list N) (hs : list H) :
  (length (zip_hp ts hs) <= length ts)%nat.
Proof.
  revert hs. induction ts as [|t ts IH]; intros hs; [apply le_n|].
  destruct hs as [|h hs]; cbn [zip_hp length]; [lia|]. pose proof (IH hs) as Hi. lia.
Qed.

Lemma ct_fuel_enough k k' t : (k' <= k)%nat -> (k' * (t + 2) < calc_fuel k (N.of_nat t))%nat.
Proof.
  intros Hk. unfold calc_fuel. rewrite Nat2N.id. nia.
Qed.

Section Totality.
  Variable H : Type.
  Variable HO : ops H.

  Definition calc_init (proof : list H) (tp : list (hp H)) : cstate H :=
    mkC 0 tp [] [] proof None [] [].

  Lemma calc_init_inv n proof tp : Inv H n (TreeRows n) (calc_init proof tp).
  Proof. left. reflexivity. Qed.

  Lemma calc_init_mu n proof tp :
    mu_st H n (TreeRows n) (calc_init proof tp)
    = (length tp * (N.to_nat (TreeRows n) + 2))%nat.
  Proof. unfold mu_st, mu, calc_init. cbn [c_row c_tp c_np sumg]. lia. Qed.

  (** T1, without any bound on the targets *)
  Theorem calc_no_out_of_fuel_gen n hashes targets proof : n <= 2 ^ 63 ->
    calculateHashes HO true n hashes targets proof <> OutOfFuel.
  Proof.
    intros Hn. unfold calculateHashes.
    set (hs := match hashes with Some l => l | None => map (fun _ => op_empty HO) targets end).
    destruct (negb (Nat.eqb (length hs) (length targets))); [discriminate|].
    set (tp := sortK (zip_hp targets hs)).
    apply (calc_loop_fuel H HO n (TreeRows n) (ct_TreeRows_le_63 n Hn) (ct_TreeRows_upper n)).
    - apply calc_init_inv.
    - change (mkC 0 tp [] [] proof None [] []) with (calc_init proof tp).
      rewrite calc_init_mu.
      rewrite <- (N2Nat.id (TreeRows n)) at 2. apply ct_fuel_enough.
      unfold tp. rewrite ct_sortK_length. apply ct_zip_hp_length.
  Qed.

  Theorem calc_no_out_of_fuel n hashes targets proof :
    n <= 2 ^ 63 -> (forall t, In t targets -> t < 2 ^ 64) ->
    calculateHashes HO true n hashes targets proof <> OutOfFuel.
  Proof. intros Hn _. apply calc_no_out_of_fuel_gen. exact Hn. Qed.

  (** * 7. T3: the number of main-loop iterations *)

  (** [calculateHashes] with the main loop instrumented by an iteration counter and run on an
      arbitrary fuel *)
  Definition calculateHashes_i (fuel : nat) (n : N) (hashes : option (list H))
             (targets : list N) (proof : list H) : outcome (calc_result H) * nat :=
    let total := TreeRows n in
    let hs := match hashes with
              | Some l => l
              | None => map (fun _ => op_empty HO) targets
              end in
    if negb (Nat.eqb (length hs) (length targets)) then (Panic, O)
    else
      let tp := sortK (zip_hp targets hs) in
      calc_loop_i H HO n total fuel (mkC 0 tp [] [] proof None [] []) tp.

  (** the instrumented function on the model's fuel is the model *)
  Theorem calculateHashes_i_fst n hashes targets proof :
    fst (calculateHashes_i (calc_fuel (length targets) (TreeRows n)) n hashes targets proof)
    = calculateHashes HO true n hashes targets proof.
  Proof.
    unfold calculateHashes_i, calculateHashes. cbv zeta.
    destruct (negb (Nat.eqb (length _) (length targets))); [reflexivity|].
    apply calc_loop_i_fst.
  Qed.

  (** whatever fuel is given, at most [(k + 1) * (total + 3)] iterations are run (in fact at
      most [k * (total + 2) + 1]) *)
  Theorem calc_iterations_bound fuel n hashes targets proof : n <= 2 ^ 63 ->
    (snd (calculateHashes_i fuel n hashes targets proof)
     <= length targets * (N.to_nat (TreeRows n) + 2) + 1)%nat
    /\ (snd (calculateHashes_i fuel n hashes targets proof)
        <= calc_fuel (length targets) (TreeRows n))%nat.
  Proof.
    intros Hn.
    assert (Hfirst : (snd (calculateHashes_i fuel n hashes targets proof)
                      <= length targets * (N.to_nat (TreeRows n) + 2) + 1)%nat).
    { unfold calculateHashes_i. cbv zeta.
      set (hs := match hashes with Some l => l | None => map (fun _ => op_empty HO) targets end).
      destruct (negb (Nat.eqb (length hs) (length targets))); [cbn [snd]; lia|].
      set (tp := sortK (zip_hp targets hs)).
      pose proof (calc_loop_i_bound H HO n (TreeRows n) (ct_TreeRows_le_63 n Hn)
                    (ct_TreeRows_upper n) tp fuel _ (calc_init_inv n proof tp)) as Hb.
      change (mkC 0 tp [] [] proof None [] []) with (calc_init proof tp).
      rewrite calc_init_mu in Hb.
      assert (Hl : (length tp <= length targets)%nat).
      { unfold tp. rewrite ct_sortK_length. apply ct_zip_hp_length. }
      pose proof (PeanoNat.Nat.mul_le_mono_r _ _ (N.to_nat (TreeRows n) + 2) Hl) as Hm.
      unfold hp in *. lia. }
    split; [exact Hfirst|].
    unfold calc_fuel.
    set (X := snd (calculateHashes_i fuel n hashes targets proof)) in *.
    set (k := length targets) in *. set (t := N.to_nat (TreeRows n)) in *.
    clearbody X k t. nia.
  Qed.

  (** * 8. T2: the entry points never report [Panic] *)

  Lemma calculateHashes_no_panic_some n hashes targets proof :
    length hashes = length targets ->
    calculateHashes HO true n (Some hashes) targets proof <> Panic.
  Proof.
    intros Hl. unfold calculateHashes. rewrite Hl, PeanoNat.Nat.eqb_refl. cbn [negb].
    apply calc_loop_no_panic.
  Qed.

  Lemma calculateHashes_no_panic_none n targets proof :
    calculateHashes HO true n None targets proof <> Panic.
  Proof.
    unfold calculateHashes. rewrite map_length, PeanoNat.Nat.eqb_refl. cbn [negb].
    apply calc_loop_no_panic.
  Qed.

  Theorem Verify_no_panic s hashes targets proof :
    Verify HO true s hashes targets proof <> Panic.
  Proof.
    unfold Verify.
    destruct (Nat.eqb (length hashes) (length targets)) eqn:El; cbn [negb]; [|discriminate].
    apply PeanoNat.Nat.eqb_eq in El.
    destruct (true && (has_empty HO hashes || has_empty HO proof)); [discriminate|].
    pose proof (calculateHashes_no_panic_some (st_n s) hashes targets proof El) as Hnp.
    destruct (calculateHashes HO true (st_n s) (Some hashes) targets proof)
      as [[[inter cands] rows]| | |]; try discriminate.
    - destruct (Nat.eqb (length cands) (length _)); discriminate.
    - exfalso. apply Hnp. reflexivity.
  Qed.

  Theorem PollardVerify_no_panic s hashes targets proof :
    PollardVerify HO true s hashes targets proof <> Panic.
  Proof.
    unfold PollardVerify. destruct hashes as [|h0 hashes0]; [discriminate|].
    set (hashes := h0 :: hashes0).
    destruct (Nat.eqb (length hashes) (length targets)) eqn:El; cbn [negb]; [|discriminate].
    apply PeanoNat.Nat.eqb_eq in El.
    destruct (true && (has_empty HO hashes || has_empty HO proof)); [discriminate|].
    pose proof (calculateHashes_no_panic_some (st_n s) hashes targets proof El) as Hnp.
    destruct (calculateHashes HO true (st_n s) (Some hashes) targets proof)
      as [[[inter cands] rows]| | |]; try discriminate.
    - destruct cands as [|c0 cands0]; [discriminate|].
      destruct (Nat.eqb (length _) (length _)); discriminate.
    - exfalso. apply Hnp. reflexivity.
  Qed.

  (** the matched root indexes come from a successful [nth_error] *)
  Lemma strict_match_bound n roots : forall cands rows,
    Forall (fun i => (i < length roots)%nat) (strict_match HO n roots cands rows).
  Proof.
    induction cands as [|c cs IH]; intros rows; [constructor|].
    destruct rows as [|r rs]; [constructor|]. cbn [strict_match].
    destruct (nth_error roots (rootIndexForRow n r)) as [x|] eqn:En; [|apply IH].
    destruct (op_eqb HO x c); [|apply IH].
    constructor; [|apply IH]. apply nth_error_Some. rewrite En. discriminate.
  Qed.

  Lemma set_nth_some (x : H) : forall i l, (i < length l)%nat ->
    exists l', set_nth i x l = Some l' /\ length l' = length l.
  Proof.
    induction i as [|i IH]; intros l Hi; destruct l as [|y l]; cbn [length] in Hi; try lia.
    - exists (x :: l). split; reflexivity.
    - destruct (IH l ltac:(lia)) as (l' & E & El). exists (y :: l').
      cbn [set_nth]. rewrite E. split; [reflexivity|]. cbn [length]. rewrite El. reflexivity.
  Qed.

  Lemma write_roots_some : forall (idxs : list nat) (roots vals : list H),
    Forall (fun i => (i < length roots)%nat) idxs -> write_roots roots idxs vals <> None.
  Proof.
    induction idxs as [|i idxs IH]; intros roots vals Hall; [destruct vals; discriminate|].
    destruct vals as [|v vs]; [discriminate|]. cbn [write_roots].
    inversion Hall as [|i' l' Hi Hrest]; subst.
    destruct (set_nth_some v i roots Hi) as (r' & E & El). rewrite E.
    apply IH. rewrite El. exact Hrest.
  Qed.

  Lemma Verify_ok_bound s hashes targets proof idxs :
    Verify HO true s hashes targets proof = Ok idxs ->
    Forall (fun i => (i < length (st_roots s))%nat) idxs.
  Proof.
    unfold Verify.
    destruct (negb (Nat.eqb (length hashes) (length targets))); [discriminate|].
    destruct (true && (has_empty HO hashes || has_empty HO proof)); [discriminate|].
    destruct (calculateHashes HO true (st_n s) (Some hashes) targets proof)
      as [[[inter cands] rows]| | |]; try discriminate.
    destruct (Nat.eqb (length cands) (length _)); [|discriminate].
    intros E. injection E as <-. apply strict_match_bound.
  Qed.

  Theorem stump_del_no_panic s hashes targets proof :
    snd (stump_del HO true s hashes targets proof) <> Panic.
  Proof.
    unfold stump_del.
    pose proof (Verify_no_panic s hashes targets proof) as Hv.
    destruct (Verify HO true s hashes targets proof) as [idxs| | |] eqn:Ev;
      cbn [snd]; try discriminate; [|exfalso; apply Hv; reflexivity].
    pose proof (calculateHashes_no_panic_none (st_n s) targets proof) as Hc.
    destruct (calculateHashes HO true (st_n s) None targets proof)
      as [[[inter modified] rows]| | |]; cbn [snd]; try discriminate;
      [|exfalso; apply Hc; reflexivity].
    destruct (negb (Nat.eqb (length modified) (length idxs))); cbn [snd]; [discriminate|].
    pose proof (write_roots_some idxs (st_roots s) modified (Verify_ok_bound _ _ _ _ _ Ev)) as Hw.
    destruct (write_roots (st_roots s) idxs modified); cbn [snd]; [discriminate|].
    exfalso. apply Hw. reflexivity.
  Qed.

  Theorem stump_update_no_panic filler s dels adds ts pf :
    snd (stump_update HO true filler s dels adds ts pf) <> Panic.
  Proof.
    unfold stump_update.
    pose proof (stump_del_no_panic s dels ts pf) as Hd.
    destruct (stump_del HO true s dels ts pf) as [s1 o]. cbn [snd] in Hd.
    destruct o as [inter| | |]; cbn [snd]; try discriminate; [|exfalso; apply Hd; reflexivity].
    destruct (stump_add HO true filler s1 adds) as [[s2 added] destroyed].
    cbn [snd]. discriminate.
  Qed.

  Theorem verify_no_panic s hashes targets proof filler dels adds :
    Verify HO true s hashes targets proof <> Panic
    /\ PollardVerify HO true s hashes targets proof <> Panic
    /\ snd (stump_update HO true filler s dels adds targets proof) <> Panic.
  Proof.
    split; [apply Verify_no_panic|]. split; [apply PollardVerify_no_panic|].
    apply stump_update_no_panic.
  Qed.
End Totality.

(** * 9. The conclusions on concrete hostile inputs (free hash algebra, by computation) *)

Definition ctT := term_ops.

(** n = 4, target 7 (not below any root) *)
Example ex_n4_t7 : calculateHashes ctT true 4 (Some [Atom 0]) [7] [] <> OutOfFuel.
Proof. vm_compute. discriminate. Qed.
Example ex_n4_t7_val : calculateHashes ctT true 4 (Some [Atom 0]) [7] [] = Err.
Proof. vm_compute. reflexivity. Qed.
Example ex_n4_t7_verify : forall roots,
  Verify ctT true (mkStump roots 4) [Atom 0] [7] [] <> Panic.
Proof. intros roots. apply Verify_no_panic. Qed.

(** n = 5, targets [5; 5] (a position beyond the leaves, twice) *)
Example ex_n5_t55 : calculateHashes ctT true 5 (Some [Atom 0; Atom 1]) [5; 5] [] <> OutOfFuel.
Proof. vm_compute. discriminate. Qed.
Example ex_n5_t55_val : calculateHashes ctT true 5 (Some [Atom 0; Atom 1]) [5; 5] [] = Err.
Proof. vm_compute. reflexivity. Qed.
Example ex_n5_t55_len : calculateHashes ctT true 5 (Some [Atom 0]) [5; 5] [] = Panic.
Proof. vm_compute. reflexivity. Qed.
Example ex_n5_t55_verify :
  Verify ctT true (mkStump [Atom 7; Atom 8] 5) [Atom 0] [5; 5] [] = Err.
Proof. vm_compute. reflexivity. Qed.

(** n = 2^63, target 2^64 - 1 *)
Example ex_big : calculateHashes ctT true (2 ^ 63) (Some [Atom 0]) [2 ^ 64 - 1] [] <> OutOfFuel.
Proof. vm_compute. discriminate. Qed.
Example ex_big_val : calculateHashes ctT true (2 ^ 63) (Some [Atom 0]) [2 ^ 64 - 1] [] = Err.
Proof. vm_compute. reflexivity. Qed.
Example ex_big_iters :
  snd (calculateHashes_i term ctT 4000 (2 ^ 63) (Some [Atom 0]) [2 ^ 64 - 1] []) = 1%nat.
Proof. vm_compute. reflexivity. Qed.

(** n = 2^63, the honest shape: one leaf hashed through all 63 rows; 64 iterations *)
Example ex_big_chain :
  exists inter, calculateHashes ctT true (2 ^ 63) (Some [Atom 0]) [0] (repeat (Atom 1) 63)
                = Ok (inter, [fold_left (fun acc _ => Node acc (Atom 1)) (repeat tt 63) (Atom 0)], [63]).
Proof. eexists. vm_compute. reflexivity. Qed.
Example ex_big_chain_iters :
  snd (calculateHashes_i term ctT 4000 (2 ^ 63) (Some [Atom 0]) [0] (repeat (Atom 1) 63))
  = 65%nat.
Proof. vm_compute. reflexivity. Qed.

(** 200 duplicate targets *)
Example ex_dups :
  calculateHashes ctT true 8 (Some (repeat (Atom 0) 200)) (repeat 3 200) [] <> OutOfFuel.
Proof. vm_compute. discriminate. Qed.
Example ex_dups_val :
  calculateHashes ctT true 8 (Some (repeat (Atom 0) 200)) (repeat 3 200) [Atom 9; Atom 9; Atom 9]
  = Err.
Proof. vm_compute. reflexivity. Qed.
Example ex_dups_update :
  snd (stump_update ctT true (Atom 99) (mkStump [Atom 7] 8) (repeat (Atom 0) 200) []
         (repeat 3 200) [Atom 9; Atom 9; Atom 9]) = Err.
Proof. vm_compute. reflexivity. Qed.

(** the key geometric lemma, exhaustively for every forest of at most 2^4 leaves *)
Definition ct_key (n p r : N) : bool :=
  let t := TreeRows n in
  implb ((r <=? t) && ((r =? 0) || (mpos n t (r - 1) <? p)) && (p <=? mpos n t r))
        (mpos n t r <? Parent p t).
Definition ct_rng (k : N) : list N := map N.of_nat (seq 0 (N.to_nat k)).
Example ex_key_small :
  forallb (fun n => forallb (fun p => forallb (fun r => ct_key n p r) (ct_rng 6))
                            (ct_rng (2 ^ 5 + 3))) (ct_rng (2 ^ 4 + 1)) = true.
Proof. vm_compute. reflexivity. Qed.

Print Assumptions calc_no_out_of_fuel.
Print Assumptions calc_iterations_bound.
Print Assumptions verify_no_panic.
