(** First facts about the verifier mirror: atomic rejection and the witnesses that the code at the
    pinned commit (strict = false) violated C03/C04/C05 while the repaired code rejects them. *)
From Utreexo Require Import Model.Verify Spec.Term Spec.Forest Spec.Oracle.
Open Scope N_scope.

Section Atomic.
  Variable H : Type.
  Variable HO : ops H.

  Lemma stump_del_same strict s hs ts pf s' o :
    stump_del HO strict s hs ts pf = (s', o) -> (forall x, o <> Ok x) -> s' = s.
  Proof.
    unfold stump_del. intros E Hn.
    destruct (Verify HO strict s hs ts pf) as [idxs| | |];
      try (injection E as <- <-; reflexivity).
    destruct (calculateHashes HO strict (st_n s) None ts pf) as [[[inter modified] rows]| | |];
      try (injection E as <- <-; reflexivity).
    destruct (negb (Nat.eqb (length modified) (length idxs)));
      [injection E as <- <-; reflexivity|].
    destruct (write_roots (st_roots s) idxs modified).
    - injection E as <- <-. exfalso. eapply Hn. reflexivity.
    - injection E as <- <-. reflexivity.
  Qed.

  (** a rejected update leaves the leaf count and every root unchanged; the same holds when the
      mirror reports Panic or OutOfFuel *)
  Theorem stump_update_atomic strict filler s dels adds ts pf s' o :
    stump_update HO strict filler s dels adds ts pf = (s', o) ->
    (forall u, o <> Ok u) -> s' = s.
  Proof.
    unfold stump_update. intros E Hn.
    destruct (stump_del HO strict s dels ts pf) as [s1 o1] eqn:E1.
    destruct o1 as [inter| | |].
    - destruct (stump_add HO strict filler s1 adds) as [[s2 added] destroyed].
      injection E as <- <-. exfalso. eapply Hn. reflexivity.
    - injection E as <- <-. eapply stump_del_same; [exact E1|discriminate].
    - injection E as <- <-. eapply stump_del_same; [exact E1|discriminate].
    - injection E as <- <-. eapply stump_del_same; [exact E1|discriminate].
  Qed.
End Atomic.

(** ** Witnesses in the free algebra *)
Definition T := term_ops.
Definition lf (i : N) : term := Atom i.

(** 5 leaves, slots 1 and 3 deleted *)
Definition s5 : slots term := [Some (lf 0); None; Some (lf 2); None; Some (lf 4)].
Definition c5 := mk_ctx T s5.

(** D1: position 7 is not below any root of a 4-leaf forest: the pinned row loop runs out of any
    fuel (300 steps here; the uint8 row cursor wraps and revisits the same states) *)
Lemma D1_unrepaired_hangs :
  calculateHashes T false 4 (Some [lf 0]) [7] [] = OutOfFuel.
Proof. vm_compute. reflexivity. Qed.
Lemma D1_repaired_rejects :
  calculateHashes T true 4 (Some [lf 0]) [7] [] = Err.
Proof. vm_compute. reflexivity. Qed.

(** D3: the root of the left tree claimed at leaf position 0 with all-zero siblings *)
Definition root5 : term := Node (lf 0) (lf 2).
Lemma D3_unrepaired_accepts :
  exists idx, Verify T false (the_stump c5) [root5] [0] [Zero; Zero] = Ok idx
              /\ claims_true T c5 [0] [root5] = false.
Proof. eexists. split; vm_compute; reflexivity. Qed.
Lemma D3_repaired_rejects :
  Verify T true (the_stump c5) [root5] [0] [Zero; Zero] = Err.
Proof. vm_compute. reflexivity. Qed.

(** D2: the same position twice: 5 leaves, only slots 2 and 4 live; both roots are produced
    from the two copies of position 4 *)
Definition s5b : slots term := [None; None; Some (lf 2); None; Some (lf 4)].
Definition c5b := mk_ctx T s5b.
Lemma D2_unrepaired_accepts :
  exists idx, Verify T false (the_stump c5b) [lf 4; lf 2] [4; 4] [] = Ok idx
              /\ claims_true T c5b [4; 4] [lf 4; lf 2] = false.
Proof. eexists. split; vm_compute; reflexivity. Qed.
Lemma D2_repaired_rejects :
  Verify T true (the_stump c5b) [lf 4; lf 2] [4; 4] [] = Err.
Proof. vm_compute. reflexivity. Qed.

(** D4: 10 leaves, slots 1-3 deleted; leaf 0 (true position 24) claimed at position 8 *)
Definition s10 : slots term :=
  [Some (lf 0); None; None; None; Some (lf 4); Some (lf 5); Some (lf 6); Some (lf 7);
   Some (lf 8); Some (lf 9)].
Definition c10 := mk_ctx T s10.
Definition n25 : term := hash_at T 4 (clay c10) 25.
Lemma D4_unrepaired_accepts :
  exists idx, Verify T false (the_stump c10) [lf 0] [8] [n25] = Ok idx
              /\ claims_true T c10 [8] [lf 0] = false.
Proof. eexists. split; vm_compute; reflexivity. Qed.
Lemma D4_repaired_rejects :
  Verify T true (the_stump c10) [lf 0] [8] [n25] = Err.
Proof. vm_compute. reflexivity. Qed.

(** ... and the roots-only verifier then deletes another leaf than the forests do (C05) *)
Lemma D4_unrepaired_diverges :
  exists s' u,
    stump_update T false (Atom 99) (the_stump c10) [lf 0] [] [8] [n25] = (s', Ok u)
    /\ st_roots s' <> roots T (kill T [lf 8] s10).
Proof. do 2 eexists. split; [vm_compute; reflexivity|]. vm_compute. discriminate. Qed.

(** non-vacuity: the repaired verifier accepts the honest proofs of these states *)
Example honest5 :
  Verify T true (the_stump c5) [lf 2] [9] [lf 0] = Ok [0%nat].
Proof. vm_compute. reflexivity. Qed.
