(** Geometry of the position functions of utils.go (mirror [Model.Utils]):
    row [r] of a forest of height [h] holds the positions
    [gpos h r o = 2^(h+1) - 2^(h+1-r) + o], [o < 2^(h-r)]. *)
From Utreexo Require Import Model.Utils.
From Coq Require Import Lia ZifyN ZifyNat ZifyBool.
Open Scope N_scope.

Definition gstart (h r : N) : N := 2 ^ (h + 1) - 2 ^ (h + 1 - r).
Definition gpos (h r o : N) : N := gstart h r + o.
Definition valid (h r o : N) : Prop := h <= 63 /\ r <= h /\ o < 2 ^ (h - r).

Lemma pow2_S n : 2 ^ (n + 1) = 2 * 2 ^ n.
Proof. replace (n + 1) with (N.succ n) by lia. apply N.pow_succ_r'. Qed.
Lemma pow2_pos n : 0 < 2 ^ n.
Proof. apply N.neq_0_lt_0, N.pow_nonzero; lia. Qed.
Lemma pow2_lt a b : a < b -> 2 ^ a < 2 ^ b.
Proof. intros; apply N.pow_lt_mono_r; lia. Qed.
Lemma pow2_le a b : a <= b -> 2 ^ a <= 2 ^ b.
Proof. intros; apply N.pow_le_mono_r; lia. Qed.
Lemma W_eq : W = 2 ^ 64. Proof. reflexivity. Qed.
Lemma pow2_lt_W a : a <= 63 -> 2 ^ a < W.
Proof. intros; rewrite W_eq; apply pow2_lt; lia. Qed.
Lemma pow2_split a b : 2 ^ (a + b) = 2 ^ a * 2 ^ b.
Proof. apply N.pow_add_r. Qed.

Lemma wrap_small x : x < W -> wrap x = x.
Proof. intros; rewrite wrap_mod; apply N.mod_small; assumption. Qed.
Lemma wrap_add_W x : x < W -> wrap (x + W) = x.
Proof.
  intros Hx. rewrite wrap_mod. replace (x + W) with (x + 1 * W) by lia.
  rewrite N.mod_add by (rewrite W_eq; apply N.pow_nonzero; lia). apply N.mod_small; assumption.
Qed.

Lemma land_small_pow2 x h : x < 2 ^ h -> N.land x (2 ^ h) = 0.
Proof.
  intros Hx. apply N.bits_inj_0. intros n. rewrite N.land_spec, N.pow2_bits_eqb.
  destruct (N.eqb_spec h n) as [->|Hn]; [|apply Bool.andb_false_r].
  rewrite Bool.andb_true_r.
  destruct (N.eq_dec x 0) as [->|Hx0]; [apply N.bits_0|].
  apply N.bits_above_log2. apply N.log2_lt_pow2; lia.
Qed.
Lemma lor_pow2_add x h : x < 2 ^ h -> N.lor x (2 ^ h) = x + 2 ^ h.
Proof.
  intros Hx. pose proof (land_small_pow2 x h Hx) as Hl.
  rewrite (N.add_nocarry_lxor _ _ Hl). symmetry. apply N.lxor_lor, Hl.
Qed.
Lemma land_ones_mod x n : N.land x (2 ^ n - 1) = x mod 2 ^ n.
Proof. rewrite <- N.land_ones. f_equal. rewrite N.ones_equiv. symmetry. apply N.pred_sub. Qed.

Lemma shl_small x s : s < 64 -> x * 2 ^ s < W -> shl x s = x * 2 ^ s.
Proof.
  intros Hs Hx. unfold shl. destruct (N.leb_spec 64 s) as [H|H]; [lia|].
  rewrite N.shiftl_mul_pow2. apply wrap_small; assumption.
Qed.

Lemma shl_1 h : h <= 63 -> shl 1 h = 2 ^ h.
Proof.
  intros Hh. rewrite shl_small; [lia|lia|]. pose proof (pow2_lt_W h Hh). lia.
Qed.

Lemma mask_spec h : h <= 63 -> mask h = 2 ^ (h + 1) - 1.
Proof.
  intros Hh. unfold mask, sub64.
  destruct (N.eq_dec h 63) as [->|Hne]; [vm_compute; reflexivity|].
  assert (Hlt : 2 ^ (h + 1) < W) by (apply pow2_lt_W; lia).
  rewrite shl_small; [|lia|rewrite <- pow2_S; exact Hlt].
  rewrite <- pow2_S. pose proof (pow2_pos (h + 1)).
  replace (2 ^ (h + 1) + W - 1) with ((2 ^ (h + 1) - 1) + W) by lia.
  apply wrap_add_W. lia.
Qed.

Lemma gpos_lt h r o : r <= h -> o < 2 ^ (h - r) -> gpos h r o < 2 ^ (h + 1) - 2 ^ (h - r).
Proof.
  intros Hr Ho. unfold gpos, gstart.
  replace (h + 1 - r) with (h - r + 1) by lia. rewrite (pow2_S (h - r)).
  assert (2 * 2 ^ (h - r) <= 2 ^ (h + 1)) by (rewrite <- pow2_S; apply pow2_le; lia).
  lia.
Qed.

Theorem Parent_gpos h r o : h <= 63 -> r < h -> o < 2 ^ (h - r) ->
  Parent (gpos h r o) h = gpos h (r + 1) (o / 2).
Proof.
  intros Hh Hr Ho. unfold Parent, or64, shr, gpos, gstart.
  rewrite shl_1 by assumption.
  rewrite N.shiftr_div_pow2, N.pow_1_r.
  set (k := h - r - 1).
  replace (h + 1 - r) with (k + 2) by lia.
  replace (h + 1 - (r + 1)) with (k + 1) by lia.
  replace (h - r) with (k + 1) in Ho by lia.
  assert (Ea : 2 ^ (k + 2) = 2 * 2 ^ (k + 1)) by (replace (k + 2) with (k + 1 + 1) by lia; apply pow2_S).
  pose proof (pow2_S h) as Eb.
  assert (Ec : 2 ^ h = 2 ^ r * 2 ^ (k + 1)) by (replace h with (r + (k + 1)) at 1 by lia; apply N.pow_add_r).
  pose proof (pow2_pos (k + 1)) as Hp. pose proof (pow2_pos r) as Hr1.
  assert (Hdiv : (2 ^ (h + 1) - 2 ^ (k + 2) + o) / 2 = 2 ^ h - 2 ^ (k + 1) + o / 2).
  { rewrite Eb, Ea.
    replace (2 * 2 ^ h - 2 * 2 ^ (k + 1) + o) with (o + (2 ^ h - 2 ^ (k + 1)) * 2) by nia.
    rewrite N.div_add by lia. lia. }
  rewrite Hdiv.
  assert (Hlt : 2 ^ h - 2 ^ (k + 1) + o / 2 < 2 ^ h).
  { assert (o / 2 < 2 ^ (k + 1)) by (apply N.div_lt_upper_bound; lia). nia. }
  rewrite (lor_pow2_add _ _ Hlt). rewrite Eb. nia.
Qed.
