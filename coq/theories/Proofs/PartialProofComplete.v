(** C14, last clause, for the map forest: completeness of the partial-proof protocol
    [MapPollard.GetMissingPositions] + [MapPollard.VerifyPartialProof] (mirrors
    [Model.MapRead.GetMissingPositions], [VerifyPartialProof]).

    "The positions reported as missing for proving extra targets are exactly the canonical proof
    positions that cannot be taken from what is already held, and supplying the true hashes at
    those positions makes verification succeed."

    Setting: [m] any map forest [consistent] with the reference forest [s] ([Proofs.MapReadSpec]:
    full or partial, any allocation [TreeRows n <= ms_total m <= 63], [n <= 2^63]); [hs] distinct
    LIVE leaves of [s], remembered or not, in any order; [(ts, pf) = exp_prove hs]: their positions
    in the minimal geometry (in the order of [hs]) and their canonical proof.

    - [partial_proof_complete]: with [missing := GetMissingPositions m ts] and
      [supplied := map (hash_at rows lay) missing] (the true hashes at the missing positions, in the
      order reported), [missing] is what the reference oracle [exp_missing_stored] expects and
      [VerifyPartialProof m ts hs supplied = Ok idx] with [idx] the reference's root indexes.
    - [ppc_nodes] (section form, stronger): [VerifyPartialProof m ts hs supplied] EQUALS
      [Verify] of the canonical proof on the roots of the reference.
    - [partial_proof_complete_sublist]: the same with [supplied] read off the canonical proof [pf]:
      the entries whose canonical position is reported missing.
    - [partial_proof_fills_canonical]: what happens inside: [fill_proof] rebuilds exactly [pf]
      (stored hashes are true by [cs_true], and never empty), and [map_verify] on targets of the
      minimal geometry is [Verify] on the roots (the fit check passes, [translatePositions] is the
      identity on them), whatever [ms_total m >= TreeRows].
    - [partial_proof_complete_sound]: with [Proofs.MapVerifySound] (free hash algebra, leaves are
      atoms) the accepted claims are true.

    HYPOTHESES, as in [CalcComplete.verify_complete]: [op_hash2] never returns the empty hash and
    live leaves are not the empty hash.  They are used twice: [Verify] refuses empty hashes, and
    [fill_proof] decides "held" by [stored hash <> empty] whereas [GetMissingPositions] decides it
    by [key present in the map]; the two notions agree on canonical proof positions because those
    are non-root nodes, whose hashes are non-empty (an EMPTY ROOT is stored with the empty hash,
    but a root is never a proof position).  The bound [N.of_nat (length s) <= 2^63] is part of
    [consistent].

    The statement was first tested by [vm_compute] on every subset (both orders) of the live leaves
    of [mrs_ex_m], [mmu_m], the result of [mma_ex_run], [mm2_m], the final state of [mm3_ops],
    [mr_ex_m], and forests that remember nothing / everything with [ms_total = TreeRows] and
    [ms_total > TreeRows]: no rejection. *)
From Utreexo Require Import Base.Hash Model.Utils Model.UtilsFast Model.Verify Model.MapRead
  Spec.Forest Spec.Oracle Spec.Geometry Spec.Term
  Proofs.UtilsGeom Proofs.UtilsGeom2 Proofs.SpecBasics Proofs.LayoutStruct Proofs.ProofPosSpec
  Proofs.CalcSound Proofs.CalcComplete Proofs.MapReadSpec Proofs.Soundness Proofs.MapVerifySound.
From Utreexo Require Proofs.RefTheory.
From Coq Require Import List Arith PeanoNat NArith Lia ZifyNat ZifyN ZifyBool Sorted Permutation.
Import ListNotations.
Open Scope N_scope.

(** * 1. [fill_proof] *)
Section Fill.
  Variable H : Type.
  Variable HO : ops H.
  Hypothesis HOK : ops_ok HO.
  Variable nodes : list (N * (H * bool)).

  Definition absent (p : N) : bool :=
    match nodes_get nodes p with Some _ => false | None => true end.

  Lemma ppc_eqb_refl h : op_eqb HO h h = true.
  Proof. apply HOK. reflexivity. Qed.

  Lemma fill_proof_spec {E} (posT : E -> N) (hf : E -> H) : forall l : list E,
    (forall e, In e l -> NZ HO (hf e) /\
       forall h b, nodes_get nodes (posT e) = Some (h, b) -> h = hf e) ->
    fill_proof HO nodes (map posT l) (map hf (filter (fun e => absent (posT e)) l))
    = Some (map hf l).
  Proof.
    induction l as [|e l IH]; intros Hall; [reflexivity|].
    assert (IH' := IH (fun e' He' => Hall e' (or_intror He'))). clear IH.
    destruct (Hall e (or_introl eq_refl)) as [Hnz Hst].
    cbn [map fill_proof filter].
    assert (Ea : absent (posT e) = match nodes_get nodes (posT e) with Some _ => false | None => true end)
      by reflexivity.
    destruct (nodes_get nodes (posT e)) as [[h b]|] eqn:Eg; rewrite Ea.
    - rewrite (Hst h b eq_refl). unfold NZ in Hnz. rewrite Hnz, IH'. reflexivity.
    - rewrite ppc_eqb_refl. cbn [map]. rewrite IH'. reflexivity.
  Qed.
End Fill.
Arguments absent {H} nodes p.

Lemma ppc_combine_map {A B C} (f : A -> B) (g : A -> C) l :
  combine (map f l) (map g l) = map (fun e => (f e, g e)) l.
Proof. induction l as [|a l IH]; [reflexivity|]. cbn [map combine]. rewrite IH. reflexivity. Qed.

Lemma ppc_NoDup_map_inj {A B} (f : A -> B) l : NoDup (map f l) ->
  forall x y, In x l -> In y l -> f x = f y -> x = y.
Proof.
  induction l as [|a l IH]; intros Hn x y Hx Hy E; [destruct Hx|].
  cbn [map] in Hn. inversion Hn as [|? ? Hnin Hnd]; subst.
  destruct Hx as [<-|Hx], Hy as [<-|Hy]; [reflexivity| | |exact (IH Hnd x y Hx Hy E)].
  - exfalso. apply Hnin. rewrite E. apply in_map, Hy.
  - exfalso. apply Hnin. rewrite <- E. apply in_map, Hx.
Qed.

(** * 2. The protocol on a consistent state *)
Section Complete.
  Variable H : Type.
  Variable HO : ops H.
  Hypothesis HOK : ops_ok HO.
  Hypothesis hash_nz : forall a b, NZ HO (op_hash2 HO a b).
  Variables (s : slots H) (R : list H) (m : mstate H).
  Hypothesis Hlive_nz : forall h, In (Some h) s -> NZ HO h.
  Hypothesis Hc : consistent HO s R m.
  Notation lay := (layout HO s).
  Notation T := (ms_total m).
  Notation tr := (TreeRows (ms_n m)).
  Notation rows := (rows_of (num_leaves s)).

  (** the true hash at a canonical proof coordinate, and its position in the allocated frame *)
  Definition ppc_hash (e : N * (nat * N)) : H :=
    match find_coord lay (fst (snd e)) (snd (snd e)) with
    | Some x => nhash x | None => op_empty HO end.
  Definition ppc_posT (e : N * (nat * N)) : N := gp T (fst (snd e)) (snd (snd e)).

  Variables (hs : list H) (tsn : list (node H)).
  Hypothesis Hnd : NoDup hs.
  Hypothesis Hts : find_leaves HO lay hs = Some tsn.
  Notation SC := (sort_coords rows (proof_coords lay tsn)).
  Notation ts := (map (npos rows) tsn).

  Let Hn63 : N.of_nat (length s) <= 2 ^ 63 := cs_len63 H HO s R m Hc.
  Let Hlen : N.of_nat (length s) = ms_n m := cs_len H HO s R m Hc.
  Let Hrows : N.of_nat rows = tr := cs_rows_of H HO s R m Hc.

  Lemma ppc_lay x : In x tsn -> In x lay.
  Proof. intros Hx. exact (proj1 (leaves_nodes H HO HOK s hs tsn Hts x Hx)). Qed.
  Lemma ppc_leaf x : In x tsn -> nleaf x = true.
  Proof. intros Hx. exact (proj2 (leaves_nodes H HO HOK s hs tsn Hts x Hx)). Qed.
  Lemma ppc_nd : NoDup tsn.
  Proof. exact (RefTheory.find_leaves_NoDup H HO HOK _ _ _ Hnd Hts). Qed.

  (** every canonical proof coordinate is a non-root node of the reference layout *)
  Lemma ppc_sc_node e : In e SC ->
    exists sb, In sb lay /\ nroot sb = false /\
      find_coord lay (fst (snd e)) (snd (snd e)) = Some sb /\
      nrow sb = fst (snd e) /\ noff sb = snd (snd e) /\ fst e = npos rows sb.
  Proof.
    intros He. apply RefTheory.sort_coords_In in He as (c & Hin & ->). cbn [fst snd].
    apply RefTheory.proof_coords_In in Hin as (d & Hd & Hr & _ & ->).
    destruct (known_node H HO s Hn63 tsn ppc_lay d Hd) as [y Hy].
    rewrite (is_root_coord_node H HO s d y Hy) in Hr.
    destruct (node_sibling H HO s _ _ y Hy Hr) as (p & sb & _ & Hsb & _ & _ & _ & Hsbr & _).
    unfold sib_coord. cbn [fst snd]. exists sb.
    pose proof Hsb as Hsb'. apply tnode_some in Hsb' as (Hin & Er & Eo).
    split; [exact Hin|]. split; [exact Hsbr|]. split; [exact Hsb|]. split; [exact Er|].
    split; [exact Eo|]. unfold npos. rewrite Er, Eo. reflexivity.
  Qed.

  Lemma ppc_hash_nz e : In e SC -> NZ HO (ppc_hash e).
  Proof.
    intros He. destruct (ppc_sc_node e He) as (sb & Hin & Hr & Ef & _). unfold ppc_hash.
    rewrite Ef. exact (vc_nonroot_nz H HO hash_nz s Hlive_nz sb Hin Hr).
  Qed.

  Lemma ppc_stored_true e h b : In e SC ->
    nodes_get (ms_nodes m) (ppc_posT e) = Some (h, b) -> h = ppc_hash e.
  Proof.
    intros He Eg. destruct (ppc_sc_node e He) as (sb & Hin & _ & Ef & Er & Eo & _).
    unfold ppc_hash, ppc_posT in *. rewrite Ef. rewrite <- Er, <- Eo in Eg.
    exact (lookup_node H HO s R m Hc sb h b Hin Eg).
  Qed.

  Lemma ppc_sc_bounds e : In e SC ->
    N.of_nat (fst (snd e)) <= tr /\ snd (snd e) < 2 ^ (tr - N.of_nat (fst (snd e))) /\
    fst e = gp tr (fst (snd e)) (snd (snd e)).
  Proof.
    intros He. destruct (sc_entry H HO s tsn e He) as [Hp Ee]. rewrite Hlen in Ee.
    destruct (pc_bounds H HO s tsn ppc_lay _ Hp) as [A B]. rewrite Hlen in A, B. auto.
  Qed.

  (** the positions [VerifyPartialProof] walks over: the canonical proof positions, in the
      allocated frame, in canonical order *)
  Lemma ppc_positions :
    exists ds, ProofPositions_fast (sortN ts) (ms_n m) tr =
               (map (fun e : N * (nat * N) => gp tr (fst (snd e)) (snd (snd e))) SC, ds) /\
    (if tr =? T then map (fun e : N * (nat * N) => gp tr (fst (snd e)) (snd (snd e))) SC
     else translatePositions
            (map (fun e : N * (nat * N) => gp tr (fst (snd e)) (snd (snd e))) SC) tr T)
    = map ppc_posT SC.
  Proof.
    assert (Eorig : ts = map (fun x : node H => gp tr (nrow x) (noff x)) tsn).
    { apply map_ext. intros x. unfold npos. rewrite LayoutStruct.pos_gpos, Hrows. reflexivity. }
    rewrite Eorig, ProofPositions_fast_eq.
    destruct (pp_canon H HO s tr Hn63 ltac:(rewrite Hlen; lia)
                (cs_TreeRows_63 H HO s R m Hc) tsn ppc_lay ppc_leaf ppc_nd) as (ds & Epp).
    rewrite Hlen in Epp. exists ds. split; [exact Epp|].
    pose proof (cs_rows Hc) as Hlo. pose proof (cs_T63 Hc) as HT.
    pose proof (cs_TreeRows_63 H HO s R m Hc) as Htr63.
    destruct (N.eqb_spec tr T) as [E|E]; [unfold ppc_posT; rewrite <- E; reflexivity|].
    unfold translatePositions. rewrite map_map. apply map_ext_in. intros e He.
    destruct (ppc_sc_bounds e He) as (A & B & _). unfold ppc_posT, gp.
    apply translatePos_gpos; try assumption; [lia|].
    apply (valid_mono tr T); [exact A|exact B|exact Hlo].
  Qed.

  (** STEP 1: the stored hashes and the supplied ones assemble the canonical proof *)
  Lemma ppc_fill :
    fill_proof HO (ms_nodes m) (map ppc_posT SC)
      (map ppc_hash (filter (fun e => absent (ms_nodes m) (ppc_posT e)) SC))
    = Some (canon_proof_hashes HO rows lay tsn).
  Proof.
    apply (fill_proof_spec H HO HOK (ms_nodes m) ppc_posT ppc_hash SC).
    intros e He. split; [exact (ppc_hash_nz e He)|].
    intros h b Eg. exact (ppc_stored_true e h b He Eg).
  Qed.

  (** the reported missing positions, and the true hashes there *)
  Lemma ppc_missing :
    GetMissingPositions m ts =
    map fst (filter (fun e => absent (ms_nodes m) (ppc_posT e)) SC).
  Proof. exact (map_missing_spec H HO HOK s R m Hc hs tsn Hnd Hts). Qed.

  Lemma ppc_hash_at e : In e SC -> hash_at HO rows lay (fst e) = ppc_hash e.
  Proof.
    intros He. destruct (ppc_sc_node e He) as (sb & Hin & _ & Ef & Er & Eo & Ep).
    unfold hash_at, ppc_hash. rewrite Ef, Ep. unfold npos.
    destruct (layout_coords_rows_of H HO s sb Hin) as [A B].
    rewrite (find_pos_coord H HO s _ _ A B).
    change (find_coord lay (nrow sb) (noff sb)) with (tnode HO s (nrow sb) (noff sb)).
    rewrite (tnode_in H HO s sb Hin). reflexivity.
  Qed.

  Lemma ppc_supplied :
    map (hash_at HO rows lay) (GetMissingPositions m ts) =
    map ppc_hash (filter (fun e => absent (ms_nodes m) (ppc_posT e)) SC).
  Proof.
    rewrite ppc_missing, map_map. apply map_ext_in. intros e He.
    apply filter_In in He as [He _]. exact (ppc_hash_at e He).
  Qed.

  (** STEP 2: [MapPollard.verify] on targets of the minimal geometry is [Verify] on the roots *)
  Lemma ppc_stump : getStump HO m = the_stump (mk_ctx HO s).
  Proof.
    unfold getStump, the_stump, mk_ctx. cbn [croots cn].
    rewrite (map_getroots H HO s R m Hc), (cs_n Hc). reflexivity.
  Qed.

  Lemma ppc_targets_min t : In t ts -> t <= 2 ^ (tr + 1) - 2.
  Proof.
    intros Ht. apply in_map_iff in Ht as (x & <- & Hx).
    exact (npos_range H HO s R m Hc x (ppc_lay x Hx)).
  Qed.

  Lemma ppc_map_verify pf :
    map_verify HO m hs ts pf = Verify HO true (the_stump (mk_ctx HO s)) hs ts pf.
  Proof.
    unfold map_verify. cbv zeta. rewrite ppc_stump.
    destruct (N.eqb_spec tr T) as [E|E]; [reflexivity|].
    pose proof (cs_rows Hc) as Hlo. pose proof (cs_T63 Hc) as HT.
    match goal with |- context [forallb ?f ts] => assert (Hfa : forallb f ts = true) end.
    { apply forallb_forall. intros t Ht. rewrite (maxPosition_spec tr) by lia.
      pose proof (ppc_targets_min t Ht).
      destruct (N.leb_spec t (2 ^ (tr + 1) - 1)); [reflexivity|lia]. }
    rewrite Hfa.
    assert (Etr : translatePositions ts T tr = ts).
    { unfold translatePositions. rewrite <- (map_id ts) at 2. apply map_ext_in. intros t Ht.
      apply translatePos_row0; [exact HT|]. pose proof (ppc_targets_min t Ht).
      assert (2 ^ (tr + 1) <= 2 ^ T) by (apply pow2_le; lia).
      pose proof (pow2_pos (tr + 1)). lia. }
    rewrite Etr. reflexivity.
  Qed.

  (** the protocol, on the target nodes *)
  Theorem ppc_nodes :
    VerifyPartialProof HO m ts hs (map (hash_at HO rows lay) (GetMissingPositions m ts))
    = Verify HO true (the_stump (mk_ctx HO s)) hs ts (canon_proof_hashes HO rows lay tsn).
  Proof.
    unfold VerifyPartialProof. cbv zeta.
    destruct ppc_positions as (ds & Epp & Epp'). rewrite Epp, Epp', ppc_supplied, ppc_fill.
    apply ppc_map_verify.
  Qed.

  (** the supplied hashes are the sub-list of the canonical proof at the missing positions *)
  Lemma ppc_sublist :
    map (hash_at HO rows lay) (GetMissingPositions m ts) =
    map snd (filter (fun ph : N * H => memN (fst ph) (GetMissingPositions m ts))
                    (combine (canon_proof_pos rows lay tsn) (canon_proof_hashes HO rows lay tsn))).
  Proof.
    rewrite ppc_supplied. unfold canon_proof_pos.
    change (canon_proof_hashes HO rows lay tsn) with (map ppc_hash SC).
    rewrite ppc_combine_map, filter_map_comm, map_map. cbn [fst snd].
    f_equal. apply filter_ext_in. intros e He. rewrite ppc_missing.
    destruct (absent (ms_nodes m) (ppc_posT e)) eqn:Ea; symmetry.
    - apply RefTheory.memN_In. apply in_map_iff. exists e. split; [reflexivity|].
      apply filter_In. split; [exact He|exact Ea].
    - destruct (memN (fst e) _) eqn:Em; [exfalso|reflexivity].
      apply RefTheory.memN_In in Em. apply in_map_iff in Em as (e' & Ee & He').
      apply filter_In in He' as [He' Ea'].
      assert (e' = e).
      { pose proof (sc_keys_NoDup H HO s tsn ppc_lay) as Hk.
        apply (ppc_NoDup_map_inj fst SC Hk); assumption. }
      subst e'. congruence.
  Qed.
End Complete.

(** * 3. The closed statements *)

(** C14, last clause.  [hs]: distinct live leaves of the reference forest [s] (remembered or not),
    [ts] their positions in the minimal geometry in the order of [hs], [pf] their canonical proof;
    [m]: any map forest consistent with [s] (full or partial, any allocation).  Then
    - the mirror of [GetMissingPositions] reports what the reference says is missing: the
      canonical proof positions that are not stored;
    - supplying the true hashes [hash_at] at those positions, in that order, makes the mirror of
      [VerifyPartialProof] accept, with the root indexes of the reference. *)
Theorem partial_proof_complete {H} (HO : ops H) (s : slots H) (R : list H) (m : mstate H)
        (hs : list H) (ts : list N) (pf : list H) :
  ops_ok HO ->
  (forall a b, NZ HO (op_hash2 HO a b)) ->
  (forall h, In (Some h) s -> NZ HO h) ->
  consistent HO s R m ->
  NoDup hs ->
  exp_prove HO (mk_ctx HO s) hs = Some (ts, pf) ->
  let missing := GetMissingPositions m ts in
  let supplied := map (hash_at HO (rows_of (num_leaves s)) (layout HO s)) missing in
  exp_missing_stored HO (mk_ctx HO s) hs (stored_min m) = Some missing /\
  exists idx,
    VerifyPartialProof HO m ts hs supplied = Ok idx /\
    exp_root_indexes HO (mk_ctx HO s) hs = Some idx.
Proof.
  intros HOK Hnz Hlive Hc Hnd Ep. cbv zeta.
  pose proof (cs_len63 H HO s R m Hc) as Hn63.
  destruct (verify_complete_indexes HO s hs ts pf HOK Hnz Hlive Hn63 Hnd Ep) as (idx & Ev & Ei).
  unfold exp_prove, mk_ctx in Ep. cbn [clay crows] in Ep.
  destruct (find_leaves HO (layout HO s) hs) as [tsn|] eqn:Hts; [|discriminate].
  injection Ep as <- <-.
  split; [exact (map_missing_oracle H HO HOK s R m Hc hs tsn Hnd Hts)|].
  exists idx. split; [|exact Ei].
  rewrite (ppc_nodes H HO HOK Hnz s R m Hlive Hc hs tsn Hnd Hts). exact Ev.
Qed.

(** the same, with the supplied hashes read off the canonical proof: the entries of [pf] whose
    canonical position is reported missing *)
Theorem partial_proof_complete_sublist {H} (HO : ops H) (s : slots H) (R : list H) (m : mstate H)
        (hs : list H) (ts : list N) (pf : list H) :
  ops_ok HO ->
  (forall a b, NZ HO (op_hash2 HO a b)) ->
  (forall h, In (Some h) s -> NZ HO h) ->
  consistent HO s R m ->
  NoDup hs ->
  exp_prove HO (mk_ctx HO s) hs = Some (ts, pf) ->
  forall tsn, find_leaves HO (layout HO s) hs = Some tsn ->
  let missing := GetMissingPositions m ts in
  let pp := canon_proof_pos (rows_of (num_leaves s)) (layout HO s) tsn in
  let supplied := map snd (filter (fun ph : N * H => memN (fst ph) missing) (combine pp pf)) in
  exists idx, VerifyPartialProof HO m ts hs supplied = Ok idx.
Proof.
  intros HOK Hnz Hlive Hc Hnd Ep tsn Hts. cbv zeta.
  destruct (partial_proof_complete HO s R m hs ts pf HOK Hnz Hlive Hc Hnd Ep) as (_ & idx & Ev & _).
  exists idx. unfold exp_prove, mk_ctx in Ep. cbn [clay crows] in Ep. rewrite Hts in Ep.
  injection Ep as <- <-.
  rewrite <- (ppc_sublist H HO HOK s R m Hc hs tsn Hnd Hts). exact Ev.
Qed.

(** what the mirror does inside: the proof it hands to [verify] is the canonical one *)
Theorem partial_proof_fills_canonical {H} (HO : ops H) (s : slots H) (R : list H) (m : mstate H)
        (hs : list H) (ts : list N) (pf : list H) :
  ops_ok HO ->
  (forall a b, NZ HO (op_hash2 HO a b)) ->
  (forall h, In (Some h) s -> NZ HO h) ->
  consistent HO s R m ->
  NoDup hs ->
  exp_prove HO (mk_ctx HO s) hs = Some (ts, pf) ->
  let tr := TreeRows (ms_n m) in
  let pp := fst (ProofPositions_fast (sortN ts) (ms_n m) tr) in
  let pp' := if tr =? ms_total m then pp else translatePositions pp tr (ms_total m) in
  fill_proof HO (ms_nodes m) pp'
    (map (hash_at HO (rows_of (num_leaves s)) (layout HO s)) (GetMissingPositions m ts)) = Some pf /\
  map_verify HO m hs ts pf = Verify HO true (the_stump (mk_ctx HO s)) hs ts pf.
Proof.
  intros HOK Hnz Hlive Hc Hnd Ep. cbv zeta.
  unfold exp_prove, mk_ctx in Ep. cbn [clay crows] in Ep.
  destruct (find_leaves HO (layout HO s) hs) as [tsn|] eqn:Hts; [|discriminate].
  injection Ep as <- <-.
  destruct (ppc_positions H HO HOK s R m Hc hs tsn Hnd Hts) as (ds & Epp & Epp').
  rewrite Epp. cbn [fst]. rewrite Epp', (ppc_supplied H HO HOK s R m Hc hs tsn Hnd Hts).
  split; [exact (ppc_fill H HO HOK Hnz s R m Hlive Hc hs tsn Hts)|].
  exact (ppc_map_verify H HO HOK s R m Hc hs tsn Hts _).
Qed.

(** * 4. With soundness: what is accepted is true (free hash algebra, leaves are atoms) *)
Lemma ppc_atoms_nz (s : slots term) : leaves_atoms s -> forall h, In (Some h) s -> NZ term_ops h.
Proof. intros Hat h Hin. destruct (Hat h Hin) as [i ->]. reflexivity. Qed.

Corollary partial_proof_complete_sound (s : slots term) R m hs ts pf :
  leaves_atoms s -> consistent term_ops s R m -> NoDup hs ->
  exp_prove term_ops (mk_ctx term_ops s) hs = Some (ts, pf) ->
  let supplied := map (hash_at term_ops (rows_of (num_leaves s)) (layout term_ops s))
                      (GetMissingPositions m ts) in
  exists idx,
    VerifyPartialProof term_ops m ts hs supplied = Ok idx /\
    targets64 ts /\
    claims_true_dual term_ops (mk_ctx term_ops s) (N.to_nat (ms_total m)) ts hs = true.
Proof.
  intros Hat Hc Hnd Ep. cbv zeta.
  destruct (partial_proof_complete term_ops s R m hs ts pf term_ops_ok cs_term_hash_nz
              (ppc_atoms_nz s Hat) Hc Hnd Ep) as (_ & idx & Ev & _).
  assert (H64 : targets64 ts).
  { unfold exp_prove, mk_ctx in Ep. cbn [clay crows] in Ep.
    destruct (find_leaves term_ops (layout term_ops s) hs) as [tsn|] eqn:Hts; [|discriminate].
    injection Ep as <- <-. apply Forall_forall. intros t Ht.
    pose proof (ppc_targets_min term term_ops term_ops_ok s R m Hc hs tsn Hts t Ht) as Hb.
    pose proof (cs_TreeRows_63 term term_ops s R m Hc) as H63.
    assert (2 ^ (TreeRows (ms_n m) + 1) <= 2 ^ 64) by (apply pow2_le; lia).
    pose proof (pow2_pos (TreeRows (ms_n m) + 1)). lia. }
  exists idx. split; [exact Ev|]. split; [exact H64|].
  exact (map_verify_partial_sound s R m hs ts _ idx Hat Hc H64 Ev).
Qed.

(** * 5. Non-vacuity *)

(** the state of [Proofs.MapReadSpec]: 7 slots (dead slots, an empty root), allocated with 4 rows
    (minimum 3), remembering [Atom 3] and [Atom 7].  [Atom 1] is NOT remembered; its canonical
    proof is the hash at position 9, which is not stored: it is the one reported missing *)
Example ppc_ex_prove :
  exp_prove term_ops (mk_ctx term_ops mrs_ex_s) [Atom 1] = Some ([8], [Node (Atom 3) (Atom 4)]).
Proof. vm_compute. reflexivity. Qed.

Example ppc_ex_by_theorem :
  exp_missing_stored term_ops (mk_ctx term_ops mrs_ex_s) [Atom 1] (stored_min mrs_ex_m)
    = Some (GetMissingPositions mrs_ex_m [8]) /\
  exists idx,
    VerifyPartialProof term_ops mrs_ex_m [8] [Atom 1]
      (map (hash_at term_ops (rows_of (num_leaves mrs_ex_s)) (layout term_ops mrs_ex_s))
           (GetMissingPositions mrs_ex_m [8])) = Ok idx /\
    exp_root_indexes term_ops (mk_ctx term_ops mrs_ex_s) [Atom 1] = Some idx.
Proof.
  apply (partial_proof_complete term_ops mrs_ex_s mrs_ex_R mrs_ex_m [Atom 1] [8]
           [Node (Atom 3) (Atom 4)] term_ops_ok cs_term_hash_nz (ppc_atoms_nz _ mrs_ex_atoms)
           mrs_ex_consistent).
  - repeat constructor. intros [].
  - exact ppc_ex_prove.
Qed.

(** ... and the computed values: one position missing, its hash supplied, accepted; without it,
    refused *)
Example ppc_ex_computed :
  TreeRows (ms_n mrs_ex_m) < ms_total mrs_ex_m /\
  GetMissingPositions mrs_ex_m [8] = [9] /\
  map (hash_at term_ops (rows_of (num_leaves mrs_ex_s)) (layout term_ops mrs_ex_s)) [9]
    = [Node (Atom 3) (Atom 4)] /\
  VerifyPartialProof term_ops mrs_ex_m [8] [Atom 1] [Node (Atom 3) (Atom 4)] = Ok [0%nat] /\
  VerifyPartialProof term_ops mrs_ex_m [8] [Atom 1] [] = Err.
Proof. vm_compute. repeat split; reflexivity. Qed.

(** everything needed is stored: nothing is missing, the empty supply is accepted (targets in
    request order, one remembered and one not) *)
Example ppc_ex_nothing_missing :
  exp_prove term_ops (mk_ctx term_ops mrs_ex_s) [Atom 4; Atom 1] = Some ([3; 8], [Atom 3]) /\
  GetMissingPositions mrs_ex_m [3; 8] = [] /\
  VerifyPartialProof term_ops mrs_ex_m [3; 8] [Atom 4; Atom 1] [] = Ok [0%nat].
Proof. vm_compute. repeat split; reflexivity. Qed.

(** a forest allocated minimally ([TotalRows = TreeRows = 3]) that remembers nothing and stores
    only its roots: every proof position is missing, and the whole canonical proof is supplied *)
Definition ppc_ex2_s : slots term := map (fun k => Some (Atom k)) [1; 2; 3; 4; 5; 6; 7].
Definition ppc_ex2_m : mstate term :=
  mkM [(6, (Atom 7, false)); (10, (Node (Atom 5) (Atom 6), false));
       (12, (Node (Node (Atom 1) (Atom 2)) (Node (Atom 3) (Atom 4)), false))] [] 7 3 false.

Example ppc_ex2_consistent : consistent term_ops ppc_ex2_s [] ppc_ex2_m.
Proof. apply (consistentb_sound term term_ops term_ops_ok). vm_compute. reflexivity. Qed.

Lemma ppc_ex2_atoms : leaves_atoms ppc_ex2_s.
Proof.
  intros h Hin. cbn in Hin.
  repeat (destruct Hin as [Hin|Hin]; [injection Hin as <-; eexists; reflexivity|]). destruct Hin.
Qed.

Example ppc_ex2_prove :
  exp_prove term_ops (mk_ctx term_ops ppc_ex2_s) [Atom 6; Atom 2]
  = Some ([5; 1], [Atom 1; Atom 5; Node (Atom 3) (Atom 4)]).
Proof. vm_compute. reflexivity. Qed.

Example ppc_ex2_by_theorem :
  exists idx,
    VerifyPartialProof term_ops ppc_ex2_m [5; 1] [Atom 6; Atom 2]
      (map (hash_at term_ops (rows_of (num_leaves ppc_ex2_s)) (layout term_ops ppc_ex2_s))
           (GetMissingPositions ppc_ex2_m [5; 1])) = Ok idx /\
    targets64 [5; 1] /\
    claims_true_dual term_ops (mk_ctx term_ops ppc_ex2_s) (N.to_nat (ms_total ppc_ex2_m))
                     [5; 1] [Atom 6; Atom 2] = true.
Proof.
  apply (partial_proof_complete_sound ppc_ex2_s [] ppc_ex2_m [Atom 6; Atom 2] [5; 1]
           [Atom 1; Atom 5; Node (Atom 3) (Atom 4)] ppc_ex2_atoms ppc_ex2_consistent); [|exact ppc_ex2_prove].
  repeat constructor; cbn [In]; intuition discriminate.
Qed.

Example ppc_ex2_computed :
  TreeRows (ms_n ppc_ex2_m) = ms_total ppc_ex2_m /\
  GetMissingPositions ppc_ex2_m [5; 1] = [0; 4; 9] /\
  map (hash_at term_ops (rows_of (num_leaves ppc_ex2_s)) (layout term_ops ppc_ex2_s)) [0; 4; 9]
    = [Atom 1; Atom 5; Node (Atom 3) (Atom 4)] /\
  VerifyPartialProof term_ops ppc_ex2_m [5; 1] [Atom 6; Atom 2]
    [Atom 1; Atom 5; Node (Atom 3) (Atom 4)] = Ok [1%nat; 0%nat] /\
  VerifyPartialProof term_ops ppc_ex2_m [5; 1] [Atom 6; Atom 2] [Atom 1; Atom 5] = Err.
Proof. vm_compute. repeat split; reflexivity. Qed.

Print Assumptions partial_proof_complete.
Print Assumptions partial_proof_complete_sublist.
Print Assumptions partial_proof_fills_canonical.
Print Assumptions partial_proof_complete_sound.
Print Assumptions ppc_ex_by_theorem.
Print Assumptions ppc_ex2_by_theorem.
