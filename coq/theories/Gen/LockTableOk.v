(** C12 - the generated obligation: the table extracted from the Go source by tools/lockscan
    (Gen/LockTable.v) satisfies the discipline, and therefore the theorems of Proofs/LockSafe.v
    hold for it.  Hand-written; [table_ok] is re-checked by computation on every regeneration and
    FAILS TO COMPILE when an exported, non-excluded method of MapPollard violates the discipline
    (run [lockscan -explain] to see which and why). *)
From Coq Require Import List Bool String.
From Utreexo Require Import Spec.LockProto Proofs.LockSafe Gen.LockTable.
Import ListNotations.
Open Scope string_scope.

Theorem table_ok : wf_table lock_table = true.
Proof. vm_compute. reflexivity. Qed.

(** The methods named by property C12 are entry points of the table (exported, not excluded), so
    the theorems below are about them and not about an emptied table. *)
Definition is_entry_name (n : string) : bool :=
  existsb (fun r => String.eqb (name r) n && exported r && negb (excluded r)) lock_table.

Theorem table_covers_property :
  forallb is_entry_name
    [ "Modify"; "Undo"; "Verify"; "VerifyPartialProof"; "Ingest"; "Prune"; "Read";
      "Prove"; "GetRoots"; "GetHash"; "GetLeafPosition"; "GetStump"; "GetMissingPositions";
      "GetLeafHashPositions"; "GetNumLeaves"; "GetTreeRows"; "Write" ] = true.
Proof. vm_compute. reflexivity. Qed.

(** Instances of the general theorems. *)

Theorem lock_table_race_free : forall n c,
  reachable lock_table n c -> ~ racy c.
Proof. intros n c. exact (race_free lock_table n c table_ok). Qed.

Theorem lock_table_whole_block_atomic : forall n tr1 c1 i c2 tr2 c3,
  exec lock_table (init n) tr1 c1 -> step lock_table c1 (LAcquire i) c2 -> in_section c2 i MW ->
  exec lock_table c2 tr2 c3 -> ~ In (LRelease i) tr2 ->
  forall j a, In (LAccess j a) tr2 -> guarded a -> j = i.
Proof.
  intros n tr1 c1 i c2 tr2 c3.
  exact (whole_block_atomic lock_table n tr1 c1 i c2 tr2 c3 table_ok).
Qed.

Theorem lock_table_reader_sees_stable_state : forall n tr1 c1 i c2 tr2 c3,
  exec lock_table (init n) tr1 c1 -> step lock_table c1 (LAcquire i) c2 -> in_section c2 i MR ->
  exec lock_table c2 tr2 c3 -> ~ In (LRelease i) tr2 ->
  forall j a, In (LAccess j a) tr2 -> ~ is_write a.
Proof.
  intros n tr1 c1 i c2 tr2 c3.
  exact (reader_sees_stable_state lock_table n tr1 c1 i c2 tr2 c3 table_ok).
Qed.

Theorem lock_table_writer_excludes_enabled : forall n c i,
  reachable lock_table n c -> in_section c i MW ->
  forall j st a, nth_error (snd c) j = Some st -> enabled st a -> guarded a -> j = i.
Proof. intros n c i. exact (writer_excludes_enabled lock_table n c i table_ok). Qed.

Theorem lock_table_reader_excludes_enabled_write : forall n c i,
  reachable lock_table n c -> in_section c i MR ->
  forall j st a, nth_error (snd c) j = Some st -> enabled st a -> ~ is_write a.
Proof. intros n c i. exact (reader_excludes_enabled_write lock_table n c i table_ok). Qed.

Theorem lock_table_no_deadlock : forall n c,
  reachable lock_table n c -> some_thread_unfinished c -> can_step lock_table c.
Proof. intros n c. exact (no_deadlock lock_table n c table_ok). Qed.
