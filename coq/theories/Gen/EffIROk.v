(** Obligations on the generated slice-effect IR (Gen/EffIR.v), re-proved by
    computation on every run, and the instantiation of the soundness theorems
    of Proofs/EffectSound.v with the generated program.  Hand-written; it must
    keep compiling after every regeneration of Gen/EffIR.v - if it does not,
    property C17 no longer follows from the static check. *)
From Coq Require Import List String Bool.
From Utreexo Require Import Spec.SliceHeap Proofs.EffectSound Gen.EffIR.
Import ListNotations.
Local Open Scope string_scope.

(** The analyser's claims are closed under the IR statements. *)
Lemma effects_ok : check_program eff_ir = true.
Proof. vm_compute; reflexivity. Qed.

(** The entry points of C17, fixed here so that the generator cannot drop one. *)
Definition expected_entry_names : list string := [
  "Verify"; "(*Stump).Update";
  "(*Pollard).Verify"; "(*Pollard).Prove"; "(*Pollard).Modify"; "(*Pollard).Undo";
  "(*MapPollard).Verify"; "(*MapPollard).Prove"; "(*MapPollard).Modify";
  "(*MapPollard).Undo"; "(*MapPollard).VerifyPartialProof";
  "(*MapPollard).GetMissingPositions"; "(*MapPollard).Ingest"; "(*MapPollard).Prune";
  "(*Proof).Update"; "(*Proof).Undo"; "AddProof"; "GetProofSubset" ].

Lemma entry_points_complete : map fst entry_points = expected_entry_names.
Proof. vm_compute; reflexivity. Qed.

(** Every entry point declares no write to any caller-owned parameter. *)
Lemma entry_points_clean : forallb (fun e => entry_clean_b eff_ir e) entry_points = true.
Proof. vm_compute; reflexivity. Qed.

(** No entry point lets another parameter (in particular the receiver) keep a
    reference to an array owned by a caller-owned parameter. *)
Lemma entry_points_no_retain : forallb (fun e => entry_no_retain_b eff_ir e) entry_points = true.
Proof. vm_compute; reflexivity. Qed.

(** Entry points listed here are NOT decided statically (first half of C17). *)
Definition dynamic_only : list (string * string) := [].

Lemma dynamic_only_empty : dynamic_only = [].
Proof. reflexivity. Qed.

(** Second half of C17 (earlier results do not change): entry points whose
    results are not provably detached from the receiver, with the reason.
    They are decided by the dynamic re-comparison of earlier results. *)
Definition dynamic_only_results : list (string * string) := [
  ("(*Stump).Update", "receiver and result may both acquire fresh arrays; one fresh owner cannot separate them");
  ("(*Proof).Update", "receiver and result may both acquire fresh arrays; one fresh owner cannot separate them");
  ("(*Proof).Undo", "receiver and result may both acquire fresh arrays; one fresh owner cannot separate them") ].

Definition entry_points_detached : list (string * list nat) :=
  filter (fun e => negb (existsb (String.eqb (fst e)) (map fst dynamic_only_results))) entry_points.

Lemma entry_points_detached_count :
  List.length entry_points_detached + List.length dynamic_only_results = List.length entry_points.
Proof. vm_compute; reflexivity. Qed.

Lemma entry_results_detached :
  forallb (fun e => entry_results_detached_b eff_ir entry_receivers e) entry_points_detached = true.
Proof. vm_compute; reflexivity. Qed.

(** The stand-alone GetMissingPositions, excluded by the property, does write
    its [desiredTargets] argument (parameter 2): the exclusion is justified. *)
Lemma getmissing_writes_arg : writes_param eff_ir "GetMissingPositions" 2 = true.
Proof. vm_compute; reflexivity. Qed.

(** Exactly one named exemption. *)
Definition exemptions_expected : list string := [
  "MapPollard.Undo: proof.Proof[i] = leaf.Hash in undoDeletion (value-preserving write, decided dynamically)" ].

Lemma exemptions_exact : exemptions eff_ir = exemptions_expected.
Proof. vm_compute; reflexivity. Qed.

Lemma exemptions_one : List.length (exemptions eff_ir) = 1.
Proof. rewrite exemptions_exact; reflexivity. Qed.

(* ------------------------------------------------------------------------- *)
(** Instantiation of the soundness theorems with the generated program. *)

Theorem eff_ir_frame : forall (G : arr -> Prop) f fd s0 s',
  nth_error eff_ir f = Some fd ->
  entry_ok G fd s0 ->
  run eff_ir G f s0 s' ->
  forall a, a < next s0 -> protected G fd s0 a -> cells s' a = cells s0 a.
Proof. intros G f fd s0 s'; exact (check_sound eff_ir G effects_ok f fd s0 s'). Qed.

Theorem eff_ir_entry_points_clean : forall (G : arr -> Prop) e,
  In e entry_points ->
  exists f fd,
    nth_error eff_ir f = Some fd /\ fname fd = fst e /\
    forall s0 s',
      entry_ok G fd s0 ->
      run eff_ir G f s0 s' ->
      forall i a, In i (snd e) -> env s0 i a ->
        (forall j, In (OParam j) (writes fd) -> ~ env s0 j a) ->
        cells s' a = cells s0 a.
Proof.
  intros G e Hin.
  apply (entry_clean_sound eff_ir G effects_ok e).
  pose proof entry_points_clean as Hall; rewrite forallb_forall in Hall.
  exact (Hall e Hin).
Qed.

Theorem eff_ir_entry_points_no_retain : forall (G : arr -> Prop) e,
  In e entry_points ->
  exists f fd,
    nth_error eff_ir f = Some fd /\ fname fd = fst e /\
    forall s0 s',
      entry_ok G fd s0 ->
      run eff_ir G f s0 s' ->
      forall i j a, In i (snd e) -> j < nparams fd -> j <> i ->
        env s' j a -> a < next s0 -> ~ G a ->
        exists k, k <> i /\ env s0 k a.
Proof.
  intros G e Hin.
  pose proof entry_points_no_retain as Hall; rewrite forallb_forall in Hall.
  specialize (Hall e Hin); unfold entry_no_retain_b in Hall.
  destruct (find_fn eff_ir (fst e)) as [fd|] eqn:Hfind; [|discriminate].
  destruct (find_fn_nth eff_ir (fst e) fd Hfind) as [f Hf].
  exists f, fd; split; [exact Hf|split].
  - unfold find_fn in Hfind; apply find_some in Hfind; destruct Hfind as [_ Heq].
    apply String.eqb_eq in Heq; exact Heq.
  - intros s0 s' Hentry Hrun.
    exact (fn_no_retain_sound eff_ir G effects_ok f fd (snd e) s0 s' Hf Hall Hentry Hrun).
Qed.

Theorem eff_ir_entry_results_detached : forall (G : arr -> Prop) e,
  In e entry_points_detached ->
  exists f fd,
    nth_error eff_ir f = Some fd /\ fname fd = fst e /\
    forall s0 s',
      entry_ok G fd s0 ->
      run eff_ir G f s0 s' ->
      forall k a, ret_source fd (env s') k a ->
        (a < next s0 /\ exists i, In i (snd e) /\ env s0 i a)
        \/ (next s0 <= a /\
            (existsb (String.eqb (fst e)) entry_receivers = true -> ~ env s' 0 a)).
Proof.
  intros G e Hin.
  pose proof entry_results_detached as Hall; rewrite forallb_forall in Hall.
  specialize (Hall e Hin); unfold entry_results_detached_b in Hall.
  destruct (find_fn eff_ir (fst e)) as [fd|] eqn:Hfind; [|discriminate].
  destruct (find_fn_nth eff_ir (fst e) fd Hfind) as [f Hf].
  exists f, fd; split; [exact Hf|split].
  - unfold find_fn in Hfind; apply find_some in Hfind; destruct Hfind as [_ Heq].
    apply String.eqb_eq in Heq; exact Heq.
  - intros s0 s' Hentry Hrun.
    exact (fn_results_detached_sound eff_ir G effects_ok f fd (snd e) _ s0 s' Hf Hall Hentry Hrun).
Qed.
